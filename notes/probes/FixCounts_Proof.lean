import Mathlib.Data.List.Basic
import Mathlib.Data.List.Range
import Mathlib.Tactic
import FCModel
open FC

def lookupD (l : List (Nat × Int)) (k : Nat) : Int := ((l.find? (fun p => p.1 == k)).map (·.2)).getD 0

theorem lookupD_cons_eq (p : Nat × Int) (l) : lookupD (p :: l) p.1 = p.2 := by
  simp [lookupD, List.find?]
theorem lookupD_cons_ne (p : Nat × Int) (l) (k : Nat) (h : p.1 ≠ k) : lookupD (p :: l) k = lookupD l k := by
  have hb : (p.1 == k) = false := by simpa using h
  simp [lookupD, List.find?, hb]
theorem lookupD_absent (l : List (Nat × Int)) (k : Nat) (h : ∀ p ∈ l, p.1 ≠ k) : lookupD l k = 0 := by
  induction l with
  | nil => simp [lookupD]
  | cons p l ih =>
    rw [lookupD_cons_ne p l k (h p (by simp))]
    exact ih fun q hq => h q (by simp [hq])

abbrev Sorted (l : List (Nat × Int)) : Prop := l.Pairwise (fun a b => a.1 < b.1)

theorem fill_spec (k : Nat) : ∀ (done : List (Nat × Int)) (cur : Nat × Int) (rest : List (Nat × Int)),
    Sorted (cur :: rest) → ((cur :: rest).getLast (by simp)).1 = cur.1 + k →
    fill k done cur rest = .ok (done.reverse ++
      (List.range (k+1)).map (fun i => (cur.1 + i, if i = 0 then cur.2 else lookupD rest (cur.1 + i)))) := by
  induction k with
  | zero =>
    intro done cur rest hs hl
    have hrest : rest = [] := by
      cases rest with
      | nil => rfl
      | cons n r =>
        exfalso
        have hmem : (cur :: n :: r).getLast (by simp) ∈ n :: r := by
          rw [List.getLast_cons (by simp)]; exact List.getLast_mem _
        have := (List.pairwise_cons.mp hs).1 _ hmem
        omega
    subst hrest
    simp [fill]
  | succ k ih =>
    intro done cur rest hs hl
    cases rest with
    | nil => simp at hl
    | cons nxt rest' =>
      have hlt : cur.1 < nxt.1 := (List.pairwise_cons.mp hs).1 nxt (by simp)
      have hs' : Sorted (nxt :: rest') := (List.pairwise_cons.mp hs).2
      have hgt : ∀ p ∈ rest', nxt.1 < p.1 := (List.pairwise_cons.mp hs').1
      have hl' : ((nxt :: rest').getLast (by simp)).1 = cur.1 + (k + 1) := by
        rw [List.getLast_cons (by simp)] at hl; exact hl
      simp only [fill]
      rw [List.range_succ_eq_map, List.map_cons, List.map_map]
      by_cases hne : nxt.1 ≠ cur.1 + 1
      · -- a gap: insert (cur.1+1, 0)
        simp only [hne, if_true, ne_eq, not_false_eq_true]
        have hsn : Sorted ((cur.1 + 1, (0:Int)) :: nxt :: rest') := by
          refine List.pairwise_cons.mpr ⟨?_, hs'⟩
          intro p hp
          rcases List.mem_cons.mp hp with rfl | hp
          · simp; omega
          · have := hgt p hp; simp; omega
        have := ih (cur :: done) (cur.1 + 1, 0) (nxt :: rest') hsn (by
          rw [List.getLast_cons (by simp)]; simp; omega)
        rw [this]
        refine congrArg Except.ok ?_
        rw [List.reverse_cons, List.append_assoc, List.singleton_append]
        congr 1
        refine congrArg₂ List.cons (by simp) ?_
        apply List.map_congr_left
        intro i _
        simp only [Function.comp, Nat.succ_eq_add_one]
        by_cases hi : i = 0
        · subst hi
          have h0 : lookupD (nxt :: rest') (cur.1 + (0+1)) = 0 := by
            apply lookupD_absent
            intro p hp
            rcases List.mem_cons.mp hp with rfl | hp
            · omega
            · have := hgt p hp; omega
          simp [h0]
        · simp [hi, Nat.add_assoc, Nat.add_comm 1 i]
      · -- no gap
        have heq : nxt.1 = cur.1 + 1 := by omega
        simp only [heq, ne_eq, not_true_eq_false, if_false]
        have := ih (cur :: done) nxt rest' hs' (by rw [hl']; omega)
        rw [this]
        refine congrArg Except.ok ?_
        rw [List.reverse_cons, List.append_assoc, List.singleton_append]
        congr 1
        refine congrArg₂ List.cons (by simp) ?_
        apply List.map_congr_left
        intro i _
        simp only [Function.comp, Nat.succ_eq_add_one]
        by_cases hi : i = 0
        · subst hi
          have h0 : lookupD (nxt :: rest') (cur.1 + (0 + 1)) = nxt.2 := by
            rw [← heq]; exact lookupD_cons_eq nxt rest'
          simp [heq, h0]
        · have hk : nxt.1 ≠ cur.1 + (i + 1) := by omega
          simp only [hi, if_false]
          rw [lookupD_cons_ne nxt rest' _ hk]
          simp [heq, Nat.add_assoc, Nat.add_comm 1 i]

#print axioms fill_spec
