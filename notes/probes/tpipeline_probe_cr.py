# T-pipeline probe for the ten CR generators (4x4)
import ast, sympy as sp, time
src=open('/repo/src/quantum_gates/_gates/factories.py').read()
tree=ast.parse(src)
cls=[n for n in tree.body if isinstance(n,ast.ClassDef) and n.name=='CRFactory'][0]
fn=[n for n in cls.body if isinstance(n,ast.FunctionDef) and n.name=='construct'][0]
c,s,e,eb,i=sp.symbols('c s e eb i')
def conv(node, env):
    if isinstance(node,ast.Constant):
        if isinstance(node.value,complex): return sp.nsimplify(node.value.imag)*i
        return sp.nsimplify(node.value)
    if isinstance(node,ast.Name): return env[node.id]
    if isinstance(node,ast.UnaryOp): return -conv(node.operand,env) if isinstance(node.op,ast.USub) else conv(node.operand,env)
    if isinstance(node,ast.BinOp):
        a,b=conv(node.left,env),conv(node.right,env)
        return {ast.Add:lambda:a+b, ast.Sub:lambda:a-b, ast.Mult:lambda:a*b, ast.Div:lambda:a/b, ast.Pow:lambda:a**b}[type(node.op)]()
    if isinstance(node,ast.Call):
        f=ast.unparse(node.func)
        if f=='np.sin' and ast.unparse(node.args[0])=='phi': return -i*(e-eb)/2
        if f=='np.cos' and ast.unparse(node.args[0])=='phi': return (e+eb)/2
        if f=='np.exp':
            arg=conv(node.args[0], dict(env, phi=sp.Symbol('PHI')))
            k=sp.simplify(arg/(i*sp.Symbol('PHI'))); assert k.is_Integer
            return e**k if k>=0 else eb**(-k)
        if f=='np.array': return sp.Matrix([[conv(x,env) for x in row.elts] for row in node.args[0].elts])
    raise NotImplementedError(ast.dump(node)[:200])
targets={st.targets[0].id:st.value for st in fn.body if isinstance(st,ast.Assign) and isinstance(st.targets[0],ast.Name)}
X=sp.Matrix([[0,1],[1,0]]);Y=sp.Matrix([[0,-i],[i,0]]);Z=sp.Matrix([[1,0],[0,-1]]);Sm=sp.Matrix([[0,1],[0,0]]);I2=sp.eye(2)
K=sp.kronecker_product
U=sp.Matrix([[c,-i*s*eb,0,0],[-i*s*e,c,0,0],[0,0,c,i*s*eb],[0,0,i*s*e,c]])
Ud=sp.Matrix([[c,i*s*eb,0,0],[i*s*e,c,0,0],[0,0,c,-i*s*eb],[0,0,-i*s*e,c]])
cosT,sinT,s2,one=c**2-s**2,2*s*c,s**2,sp.Integer(1)
cases=[('Ir_ctr',K(Sm,I2),dict(Ir_ctr_1=cosT,Ir_ctr_2=sinT)),('Ir_trg',K(I2,Sm),dict(Ir_trg_1=sinT,Ir_trg_2=s2,Wr_trg=one)),
 ('Ip_ctr',K(Z,I2),dict(Wp_ctr=one)),('Ip_trg',K(I2,Z),dict(Ip_trg_1=cosT,Ip_trg_2=sinT)),
 ('Idx_ctr',K(X,I2),dict(Idx_ctr_1=cosT,Idx_ctr_2=sinT)),('Idy_ctr',K(Y,I2),dict(Idy_ctr_1=cosT,Idy_ctr_2=sinT)),('Idz_ctr',K(Z,I2),dict(Wdz_ctr=one)),
 ('Idx_trg',K(I2,X),dict(Idx_trg_1=sinT,Idx_trg_2=s2,Wdx_trg=one)),('Idy_trg',K(I2,Y),dict(Idy_trg_1=sinT,Idy_trg_2=s2,Wdy_trg=one)),('Idz_trg',K(I2,Z),dict(Idz_trg_1=cosT,Idz_trg_2=sinT))]
rels=[c**2+s**2-1, e*eb-1, i**2+1]; gens=(c,s,e,eb,i)
def lean(x): return sp.printing.str.StrPrinter({'order':None}).doprint(x).replace('**','^')
def mat(M): return "!!["+"; ".join(", ".join(lean(M[r,cc]) for cc in range(M.cols)) for r in range(M.rows))+"]"
out=["import Mathlib.Tactic","import Mathlib.LinearAlgebra.Matrix.Notation","open Matrix","variable {K : Type} [Field K] [CharZero K] (c s e eb i : K)",""]
t0=time.time()
for name,L,samples in cases:
    env=dict(e1_ctr=1,e1_trg=1,ep_ctr=1,ep_trg=1,ed_cr=1,phi=None,**samples)
    M=conv(targets[name],env)
    lhs=Ud*L*U
    certs=[]
    for r in range(4):
        for cc in range(4):
            D=sp.expand(lhs[r,cc]-M[r,cc])
            q,rem=sp.reduced(D, rels, *gens, order='grevlex')
            assert rem==0,(name,r,cc,rem)
            certs.append(" + ".join(f"({lean(qk)}) * h{k}" for k,qk in enumerate(q) if qk!=0) or "0 * h0")
    out.append(f"theorem gen_decomp_{name} (h0 : c^2 + s^2 = 1) (h1 : e * eb = 1) (h2 : i^2 = -1) :\n"
      f"    ({mat(Ud)} : Matrix (Fin 4) (Fin 4) K) * {mat(L)} * {mat(U)} =\n      {mat(M)} := by\n"
      f"  ext a b; fin_cases a <;> fin_cases b\n"
      + "".join(f"  · simp [Matrix.mul_apply, Fin.sum_univ_four, Matrix.vecHead, Matrix.vecTail] <;> linear_combination {ct}\n" for ct in certs))
open('GenCR.lean','w').write("\n".join(out)+"\n")
print('sympy done in',round(time.time()-t0,1),'s; theorems',len(cases))
