import Mathlib.Algebra.Group.Defs
import Mathlib.Tactic
import Model2
namespace QGP2
variable {M2 M4 Op : Type} [Monoid Op]

structure Sem (M2 M4 Op : Type) [Monoid Op] (ops : MatOps M2 M4) where
  e1 : M2 → Nat → Op
  e2 : M4 → Nat → Nat → Op
  e1_one : ∀ q, e1 ops.one2 q = 1
  e1_mul : ∀ A B q, e1 (ops.mul2 B A) q = e1 B q * e1 A q
  e2_mul : ∀ A B a b, e2 (ops.mul4 B A) a b = e2 B a b * e2 A a b
  e2_kron : ∀ A B a b, a ≠ b → e2 (ops.kron A B) a b = e1 A a * e1 B b
  comm11 : ∀ A B a b, a ≠ b → e1 A a * e1 B b = e1 B b * e1 A a

variable {ops : MatOps M2 M4} (S : Sem M2 M4 Op ops)

def Sem.item (S : Sem M2 M4 Op ops) : Item M2 M4 → Op
  | .one m q => S.e1 m q
  | .two m a b => S.e2 m a b

def Sem.sem (S : Sem M2 M4 Op ops) : List (Item M2 M4) → Op
  | [] => 1
  | g :: rest => Sem.sem S rest * S.item g

@[simp] theorem Sem.sem_nil : S.sem [] = 1 := rfl
@[simp] theorem Sem.sem_cons (g : Item M2 M4) (l) : S.sem (g :: l) = S.sem l * S.item g := rfl
@[simp] theorem Sem.item_one (m : M2) (q) : S.item (.one m q) = S.e1 m q := rfl
@[simp] theorem Sem.item_two (m : M4) (a b) : S.item (.two m a b) = S.e2 m a b := rfl
@[simp] theorem Sem.item_G1 (g : G1 M2) : S.item (g.item : Item M2 M4) = S.e1 g.m g.q := rfl

theorem Sem.sem_append (l₁ l₂ : List (Item M2 M4)) : S.sem (l₁ ++ l₂) = S.sem l₂ * S.sem l₁ := by
  induction l₁ with
  | nil => simp
  | cons g l ih => simp [ih, mul_assoc]

theorem e2_kron_one_right (A : M2) (a b : Nat) (h : a ≠ b) :
    S.e2 (ops.kron A ops.one2) a b = S.e1 A a := by rw [S.e2_kron _ _ _ _ h, S.e1_one, mul_one]
theorem e2_kron_one_left (A : M2) (a b : Nat) (h : a ≠ b) :
    S.e2 (ops.kron ops.one2 A) a b = S.e1 A b := by rw [S.e2_kron _ _ _ _ h, S.e1_one, one_mul]

theorem before_sem (s : Snippet M2 M4) (h12 : s.q1 ≠ s.q2) :
    S.e2 (beforePart ops s).2 s.q1 s.q2 * S.sem ((beforePart ops s).1.map G1.item) =
      S.e2 s.g s.q1 s.q2 * S.sem (s.before.map G1.item) := by
  unfold beforePart
  rcases hrev : s.before.reverse with _ | ⟨b1, _ | ⟨b2, rest⟩⟩
  · have : s.before = [] := by simpa using hrev
    simp [this]
  · have : s.before = [b1] := by simpa using congrArg List.reverse hrev
    simp only [this]
    split_ifs with h1 h2
    · simp [S.e2_mul, e2_kron_one_right S _ _ _ h12, h1, mul_assoc]
    · simp [S.e2_mul, e2_kron_one_left S _ _ _ h12, h2, mul_assoc]
    · simp
  · have hb : s.before = rest.reverse ++ [b2, b1] := by
      have := congrArg List.reverse hrev; simpa using this
    simp only [hb]
    split_ifs with h1 h2 h3 h4
    · obtain ⟨ha, hb'⟩ := h1
      simp [S.sem_append, S.e2_mul, S.e2_kron _ _ _ _ h12, ha, hb', mul_assoc]
      rw [← mul_assoc (S.e1 b2.m s.q1), S.comm11 _ _ _ _ h12]
      simp [mul_assoc]
    · obtain ⟨ha, hb'⟩ := h2
      simp [S.sem_append, S.e2_mul, S.e2_kron _ _ _ _ h12, ha, hb', mul_assoc]
    · simp [S.sem_append, S.e2_mul, e2_kron_one_right S _ _ _ h12, h3, mul_assoc]
    · simp [S.sem_append, S.e2_mul, e2_kron_one_left S _ _ _ h12, h4, mul_assoc]
    · simp [S.sem_append, mul_assoc]

/-- the after-section is correct when the two trailing gates act on different qubits
  (guaranteed after level 1) -/
theorem after_sem (s : Snippet M2 M4) (g' : M4) (h12 : s.q1 ≠ s.q2)
    (hadj : ∀ a1 a2, s.after = [a1, a2] → a1.q ≠ a2.q) :
    S.sem ((afterPart ops s g').2.map G1.item) * S.e2 (afterPart ops s g').1 s.q1 s.q2 =
      S.sem (s.after.map G1.item) * S.e2 g' s.q1 s.q2 := by
  unfold afterPart
  rcases hafter : s.after with _ | ⟨a1, _ | ⟨a2, _ | ⟨a3, more⟩⟩⟩
  · simp
  · -- one trailing gate
    simp only
    split_ifs with h1 h2
    · simp [S.e2_mul, e2_kron_one_right S _ _ _ h12, h1]
    · simp [S.e2_mul, e2_kron_one_left S _ _ _ h12]
      trace_state; sorry
    · simp
  · have hne := hadj a1 a2 hafter
    simp only
    split_ifs with h1 h2 h3 h4 h5 h6
    · obtain ⟨ha, hb⟩ := h1
      simp [S.e2_mul, S.e2_kron _ _ _ _ h12, ha, hb, mul_assoc]
    · obtain ⟨ha, hb⟩ := h2
      simp [S.e2_mul, S.e2_kron _ _ _ _ h12, ha, hb, mul_assoc]
      rw [← mul_assoc (S.e1 a1.m s.q1), S.comm11 _ _ _ _ h12]; simp [mul_assoc]
    · obtain ⟨ha, hb⟩ := h3
      simp [S.e2_mul, e2_kron_one_right S _ _ _ h12, mul_assoc]
      rw [← ha, ← mul_assoc, ← mul_assoc, S.comm11 _ _ _ _ hne]
    · obtain ⟨ha, hb⟩ := h4
      simp [S.e2_mul, e2_kron_one_left S _ _ _ h12, mul_assoc]
      rw [← ha, ← mul_assoc, ← mul_assoc, S.comm11 _ _ _ _ hne]
    · simp [S.e2_mul, e2_kron_one_right S _ _ _ h12, h5, mul_assoc]
    · simp [S.e2_mul, e2_kron_one_left S _ _ _ h12, h6, mul_assoc]
    · simp
  · simp

end QGP2
