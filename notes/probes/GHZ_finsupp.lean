import Mathlib.Data.Finsupp.Basic
import Mathlib.LinearAlgebra.Finsupp.LSum
import Mathlib.Data.Complex.Basic
import Mathlib.Tactic

open Finsupp

/-- a computational basis state of an unbounded register: which qubits are 1 -/
abbrev Bits := ℕ → Bool
/-- states: finite formal combinations of kets -/
abbrev St := Bits →₀ ℂ

noncomputable section

def ket (b : Bits) : St := single b 1

/-- extend a map on kets linearly -/
def lin (g : Bits → St) : St →ₗ[ℂ] St := Finsupp.lsum ℂ (fun b => (LinearMap.id : ℂ →ₗ[ℂ] ℂ).smulRight (g b))

@[simp] theorem lin_ket (g : Bits → St) (b : Bits) : lin g (ket b) = g b := by
  simp [lin, ket]

variable (r : ℂ)  -- r = 1/√2

def Hq (q : ℕ) : St →ₗ[ℂ] St :=
  lin fun b => r • (ket (Function.update b q false) + (if b q then (-1 : ℂ) else 1) • ket (Function.update b q true))

def CX (c t : ℕ) : St →ₗ[ℂ] St :=
  lin fun b => ket (Function.update b t (xor (b t) (b c)))

def zero : Bits := fun _ => false
def ones (m : ℕ) : Bits := fun q => decide (q < m)

/-- fan-out part of `ghz_circ`: cx(0,1), …, cx(0,k) applied after h(0) -/
def fan (k : ℕ) : St → St := fun ψ => (List.range k).foldl (fun acc j => CX 0 (j+1) acc) ψ

theorem cx_zero (t : ℕ) (ht : t ≠ 0) : CX 0 t (ket zero) = ket zero := by
  simp only [CX, lin_ket]
  congr 1; funext q; by_cases h : q = t <;> simp [Function.update, h, zero]

theorem cx_ones (t : ℕ) (ht : 0 < t) : CX 0 t (ket (ones t)) = ket (ones (t+1)) := by
  simp only [CX, lin_ket]
  congr 1; funext q
  by_cases h : q = t
  · subst h; simp [Function.update, ones, ht]
  · simp only [Function.update, h, ones, dite_false]
    have : (q < t + 1) ↔ (q < t) := by omega
    simp [this]

theorem h_zero : Hq r 0 (ket zero) = r • (ket zero + ket (ones 1)) := by
  simp only [Hq, lin_ket]
  congr 2
  · congr 1; funext q; by_cases h : q = 0 <;> simp [Function.update, h, zero]
  · have : (Function.update zero 0 true) = ones 1 := by
      funext q; by_cases h : q = 0
      · subst h; simp [ones]
      · simp only [Function.update, h, dite_false, zero, ones]
        have : ¬ q < 1 := by omega
        simp [this]
    simp [zero, this]

theorem fan_spec (k : ℕ) : fan k (r • (ket zero + ket (ones 1))) = r • (ket zero + ket (ones (k+1))) := by
  induction k with
  | zero => simp [fan]
  | succ k ih =>
    unfold fan at ih ⊢
    rw [List.range_succ, List.foldl_append, ih]
    simp only [List.foldl_cons, List.foldl_nil, map_smul, map_add]
    rw [cx_zero _ (by omega), cx_ones _ (by omega)]

/-- GHZ: h(0); cx(0,j) for j = 1..n-1 maps |0…0⟩ to r(|0…0⟩ + |1…1⟩) for every n ≥ 1 -/
theorem ghz_state (n : ℕ) (hn : 1 ≤ n) :
    fan (n - 1) (Hq r 0 (ket zero)) = r • (ket zero + ket (ones n)) := by
  rw [h_zero, fan_spec]; congr; omega

end
#print axioms ghz_state
