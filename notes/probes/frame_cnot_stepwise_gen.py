import sympy as sp, time
z,u,ub,v,vb=sp.symbols('z u ub v vb')
rels=[z**8+1, u*ub-1, v*vb-1]; gens=(z,u,ub,v,vb)
def nf(x): return sp.reduced(sp.expand(x),rels,*gens,order='lex')[1]
def NF(M): return M.applyfunc(nf)
I=z**4
def zpow(k): k%=16; return z**k if k<8 else -z**(k-8)
def cosk(k): return (zpow(k)+zpow(-k))/2
def sink(k): return nf(-I*(zpow(k)-zpow(-k))/2)
def cexp(kc,kt,k8):
    e=sp.Integer(1)
    e*= u**kc if kc>=0 else ub**(-kc)
    e*= v**kt if kt>=0 else vb**(-kt)
    return e*zpow(k8)
def U1(th8,ph):
    c,s=cosk(th8),sink(th8); ep=cexp(*ph); em=cexp(*[-a for a in ph])
    return NF(sp.Matrix([[c,-I*s*em],[-I*s*ep,c]]))
def CR(th8,ph):
    c,s=cosk(th8),sink(th8); ep=cexp(*ph); em=cexp(*[-a for a in ph])
    return NF(sp.Matrix([[c,-I*s*em,0,0],[-I*s*ep,c,0,0],[0,0,c,I*s*em],[0,0,I*s*ep,c]]))
K=lambda A,B: NF(sp.kronecker_product(A,B))
def Rz(ph): kc,kt,k=ph; return sp.diag(cexp(-kc,-kt,-k),cexp(kc,kt,k))
full=lambda kc,kt,k:(2*kc,2*kt,2*k)
Id=sp.eye(2)
A1=CR(-1,full(0,-1,0)); A3=CR(1,full(0,-1,0)); A2=K(U1(4,full(-1,0,2)),Id); A4=K(U1(-4,full(-1,0,4)),U1(2,full(0,-1,0)))
CX=sp.Matrix([[1,0,0,0],[0,1,0,0],[0,0,0,1],[0,0,1,0]])
lam=zpow(6)
B1=K(Rz((-1,0,2)),Rz((0,-1,0))); B3=K(Rz((1,0,0)),Rz((0,1,0)))
P1=NF(A1*A2); P2=NF(P1*A3); P3=NF(P2*A4); Q1=NF(B1*CX); Q2=NF(Q1*B3); Q3=NF(lam*Q2)
print('final normal forms equal:', P3==Q3)
def lean(x): return sp.printing.str.StrPrinter({'order':None}).doprint(x).replace('**','^')
def mat(M): return "!!["+"; ".join(", ".join(lean(M[r,c]) for c in range(M.cols)) for r in range(M.rows))+"]"
def prodlemma(name,A,B,P):
    certs=[]
    for r in range(4):
        for c in range(4):
            D=sp.expand((A*B)[r,c]-P[r,c]); q,rem=sp.reduced(D,rels,*gens,order='lex'); assert rem==0
            certs.append(" + ".join(f"({lean(qk)}) * h{k}" for k,qk in enumerate(q) if qk!=0) or "0 * h0")
    return (f"theorem {name} (h0 : z^8 + 1 = 0) (h1 : u*ub - 1 = 0) (h2 : v*vb - 1 = 0) :\n    ({mat(A)} : Matrix (Fin 4) (Fin 4) K) * {mat(B)} = {mat(P)} := by\n  ext a b; fin_cases a <;> fin_cases b\n"
      + "".join(f"  · simp only [Matrix.mul_apply, Fin.sum_univ_four, Matrix.of_apply, Fin.zero_eta, Fin.mk_one, Fin.reduceFinMk, Fin.isValue, Matrix.cons_val, Matrix.cons_val_zero, Matrix.cons_val_one] <;> linear_combination {ct}\n" for ct in certs)), max(map(len,certs))
out="import Mathlib.Tactic\nimport Mathlib.LinearAlgebra.Matrix.Notation\nopen Matrix\nvariable {K : Type} [Field K] [CharZero K] (z u ub v vb : K)\n\n"
mx=0
for nm,A,B,P in [('p1',A1,A2,P1),('p2',P1,A3,P2),('p3',P2,A4,P3),('q1',B1,CX,Q1),('q2',Q1,B3,Q2)]:
    t,m=prodlemma(nm,A,B,P); out+=t+"\n"; mx=max(mx,m)
cs=[]
for r in range(4):
    for c in range(4):
        D=sp.expand(lam*Q2[r,c]-P3[r,c]); q,rem=sp.reduced(D,rels,*gens,order='lex'); assert rem==0
        cs.append(" + ".join(f"({lean(qk)}) * h{k}" for k,qk in enumerate(q) if qk!=0) or "0 * h0")
out+=f"theorem scal (h0 : z^8 + 1 = 0) (h1 : u*ub - 1 = 0) (h2 : v*vb - 1 = 0) :\n    ({lean(lam)}) • ({mat(Q2)} : Matrix (Fin 4) (Fin 4) K) = {mat(P3)} := by\n  ext a b; fin_cases a <;> fin_cases b\n"+"".join(f"  · simp only [Matrix.smul_apply, smul_eq_mul, Matrix.of_apply, Fin.zero_eta, Fin.mk_one, Fin.reduceFinMk, Fin.isValue, Matrix.cons_val, Matrix.cons_val_zero, Matrix.cons_val_one] <;> linear_combination {ct}\n" for ct in cs)
open('/tmp/leanexp/FrameCNOT4.lean','w').write(out); print(len(out),'max cert',mx)
