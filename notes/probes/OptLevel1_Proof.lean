import Mathlib.Algebra.Group.Defs
import Mathlib.Algebra.BigOperators.Group.List.Basic
import Mathlib.Tactic
import Model
namespace QGP
variable {M2 M4 Op : Type} [Monoid Op]

structure Sem (M2 M4 Op : Type) [Monoid Op] (ops : MatOps M2 M4) where
  e1 : M2 → Nat → Op
  e2 : M4 → Nat → Nat → Op
  e1_one : ∀ q, e1 ops.one2 q = 1
  e1_mul : ∀ A B q, e1 (ops.mul2 B A) q = e1 B q * e1 A q

variable {ops : MatOps M2 M4} (S : Sem M2 M4 Op ops)

def Sem.item (S : Sem M2 M4 Op ops) : Item M2 M4 → Op
  | .one m q => S.e1 m q
  | .two m a b => S.e2 m a b

/-- later items act later: sem [g1,g2,g3] = g3 * g2 * g1 -/
def Sem.sem (S : Sem M2 M4 Op ops) : List (Item M2 M4) → Op
  | [] => 1
  | g :: rest => Sem.sem S rest * S.item g

@[simp] theorem Sem.sem_nil : S.sem [] = 1 := rfl
@[simp] theorem Sem.sem_cons (g : Item M2 M4) (l) : S.sem (g :: l) = S.sem l * S.item g := rfl
@[simp] theorem Sem.item_one (m : M2) (q) : S.item (.one m q) = S.e1 m q := rfl
@[simp] theorem Sem.item_two (m : M4) (a b) : S.item (.two m a b) = S.e2 m a b := rfl

theorem Sem.sem_append (l₁ l₂ : List (Item M2 M4)) : S.sem (l₁ ++ l₂) = S.sem l₂ * S.sem l₁ := by
  induction l₁ with
  | nil => simp
  | cons g l ih => simp [ih, mul_assoc]

/-- the scanned run consists of `one _ q` items -/
theorem scanRun_spec (q : Nat) (l : List (Item M2 M4)) (r : Nat) (h : scanRun q l = .ok r) :
    ∀ x ∈ l.take r, ∃ m, x = Item.one m q := by
  induction l generalizing r with
  | nil => simp [scanRun] at h
  | cons g rest ih =>
    cases g with
    | two m a b => simp [scanRun] at h; subst h; simp
    | one m q' =>
      simp only [scanRun] at h
      split at h
      · rename_i hq
        cases hr : scanRun q rest with
        | error e => simp [hr, Except.map] at h
        | ok r' =>
          simp [hr, Except.map] at h; subst h
          intro x hx
          simp only [List.take_succ_cons, List.mem_cons] at hx
          rcases hx with rfl | hx
          · exact ⟨m, by rw [hq]⟩
          · exact ih r' hr x hx
      · simp at h; subst h; simp

theorem mergeRun_sem (q : Nat) (l : List (Item M2 M4)) (hl : ∀ x ∈ l, ∃ m, x = Item.one m q) (acc : M2) :
    S.e1 (mergeRun ops l acc) q = S.sem l * S.e1 acc q := by
  induction l generalizing acc with
  | nil => simp [mergeRun, Sem.sem]
  | cons g rest ih =>
    obtain ⟨m, rfl⟩ := hl _ (List.mem_cons_self)
    have := ih (fun x hx => hl x (List.mem_cons_of_mem _ hx)) (ops.mul2 m acc)
    simp [mergeRun, Sem.sem, this, S.e1_mul, mul_assoc]

theorem level1_sem (fuel : Nat) (l res out : List (Item M2 M4))
    (h : level1 ops fuel l res = .ok out) : S.sem out = S.sem l * S.sem res.reverse := by
  induction fuel generalizing l res with
  | zero => simp [level1] at h
  | succ fuel ih =>
    cases l with
    | nil => simp [level1] at h; subst h; simp
    | cons g rest =>
      simp only [level1] at h
      cases g with
      | two m a b =>
        simp only at h
        split at h
        · simp at h; subst h; simp [S.sem_append, mul_assoc]
        · have := ih _ _ h
          rw [this]; simp [S.sem_append, mul_assoc]
      | one m q =>
        simp only at h
        cases hs : scanRun q rest with
        | error e => simp [hs] at h
        | ok r =>
          simp only [hs] at h
          have hrun := scanRun_spec q rest r hs
          have hm := mergeRun_sem S q (rest.take r) hrun (ops.mul2 m ops.one2)
          have hsplit : S.sem rest = S.sem (rest.drop r) * S.sem (rest.take r) := by
            rw [← S.sem_append, List.take_append_drop]
          by_cases hr : r ≥ 1
          · simp only [hr, if_true] at h
            split at h
            · rename_i x hx
              simp at h; subst h
              simp [S.sem_append, hm, hsplit, hx, S.e1_mul, S.e1_one, mul_assoc]
            · have := ih _ _ h
              rw [this]
              simp [S.sem_append, hm, hsplit, S.e1_mul, S.e1_one, mul_assoc]
          · simp only [hr, if_false] at h
            split at h
            · simp at h; subst h
              simp [S.sem_append, mul_assoc]
            · have := ih _ _ h
              rw [this]; simp [S.sem_append, mul_assoc]

theorem optLevel1_sem (l out : List (Item M2 M4)) (h : optLevel1 ops l = .ok out) :
    S.sem out = S.sem l := by
  have := level1_sem S _ _ _ _ h
  simpa [Sem.sem] using this

#print axioms optLevel1_sem
end QGP
