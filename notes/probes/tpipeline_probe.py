# T-pipeline probe: factories.py (source text) -> IR -> sympy polynomial -> Lean theorem with certificate
import ast, sympy as sp, sys
src=open('/repo/src/quantum_gates/_gates/factories.py').read()
tree=ast.parse(src)
cls=[n for n in tree.body if isinstance(n,ast.ClassDef) and n.name=='SingleQubitGateFactory'][0]
fn=[n for n in cls.body if isinstance(n,ast.FunctionDef) and n.name=='construct'][0]
c,s,e,eb,i=sp.symbols('c s e eb i')
def conv(node, env):
    if isinstance(node,ast.Constant):
        if isinstance(node.value,complex): return sp.Rational(node.value.imag).limit_denominator(10**6)*i if node.value.real==0 else None
        return sp.nsimplify(node.value)
    if isinstance(node,ast.Name): return env[node.id]
    if isinstance(node,ast.UnaryOp) and isinstance(node.op,ast.USub): return -conv(node.operand,env)
    if isinstance(node,ast.UnaryOp) and isinstance(node.op,ast.UAdd): return conv(node.operand,env)
    if isinstance(node,ast.BinOp):
        a,b=conv(node.left,env),conv(node.right,env)
        return {ast.Add:lambda:a+b, ast.Sub:lambda:a-b, ast.Mult:lambda:a*b, ast.Div:lambda:a/b, ast.Pow:lambda:a**b}[type(node.op)]()
    if isinstance(node,ast.Call):
        f=ast.unparse(node.func)
        if f=='np.sin' and ast.unparse(node.args[0])=='phi': return -i*(e-eb)/2
        if f=='np.cos' and ast.unparse(node.args[0])=='phi': return (e+eb)/2
        if f=='np.exp':
            # argument must be k*i*phi
            arg=conv(node.args[0], dict(env, phi=sp.Symbol('PHI')))
            k=sp.simplify(arg/(i*sp.Symbol('PHI')))
            assert k.is_Integer, (ast.unparse(node), k)
            return e**k if k>=0 else eb**(-k)
        if f=='np.array':
            return sp.Matrix([[conv(x,env) for x in row.elts] for row in node.args[0].elts])
    raise NotImplementedError(ast.dump(node)[:200])
# find the assignment "Idx = ed * np.array(...)"
targets={}
for st in fn.body:
    if isinstance(st,ast.Assign) and isinstance(st.targets[0],ast.Name): targets[st.targets[0].id]=st.value
def code_matrix(name, samples):
    env=dict(ed=1,e1=1,ep=1, phi=None, **samples)
    return conv(targets[name], env)
U=sp.Matrix([[c,-i*s*eb],[-i*s*e,c]]); Ud=sp.Matrix([[c,i*s*eb],[i*s*e,c]])
paulis={'X':sp.Matrix([[0,1],[1,0]]),'Y':sp.Matrix([[0,-i],[i,0]]),'Z':sp.Matrix([[1,0],[0,-1]]),'Sm':sp.Matrix([[0,1],[0,0]])}
f1,f2,one,cosT=2*s*c, s**2, sp.Integer(1), c**2-s**2
cases=[('Idx','X',dict(Idx1=f1,Idx2=f2,Wdx=one)),('Idy','Y',dict(Idy1=f1,Idy2=f2,Wdy=one)),('Idz','Z',dict(Idz1=cosT,Idz2=f1)),
       ('Ir','Sm',dict(Ir1=f1,Ir2=f2,Wr=one)),('Ip','Z',dict(Ip1=cosT,Ip2=f1))]
rels=[c**2+s**2-1, e*eb-1, i**2+1]
gens=(c,s,e,eb,i)
def lean(expr):
    return sp.printing.str.StrPrinter({'order':None}).doprint(expr).replace('**','^')
out=["import Mathlib.Tactic","import Mathlib.LinearAlgebra.Matrix.Notation","open Matrix","variable {K : Type} [Field K] [CharZero K] (c s e eb i : K)",""]
for name,L,samples in cases:
    M=code_matrix(name,samples)
    lhs=(Ud*paulis[L]*U)
    certs=[]
    for r in range(2):
        for cc in range(2):
            D=sp.expand(lhs[r,cc]-M[r,cc])
            q,rem=sp.reduced(D, rels, *gens, order='grevlex')
            if rem!=0:
                # rels are not a Groebner basis in general; use groebner
                G=sp.groebner(rels,*gens,order='grevlex')
                rem2=G.reduce(D)[1]
                assert rem2==0, (name,r,cc,rem2)
                raise SystemExit("need groebner cofactors")
            certs.append(" + ".join(f"({lean(qk)}) * h{k}" for k,qk in enumerate(q) if qk!=0) or "0 * h0")
    rows="; ".join(", ".join(lean(M[r,cc]) for cc in range(2)) for r in range(2))
    Lrows="; ".join(", ".join(lean(paulis[L][r,cc]) for cc in range(2)) for r in range(2))
    out.append(f"theorem gen_decomp_{name} (h0 : c^2 + s^2 = 1) (h1 : e * eb = 1) (h2 : i^2 = -1) :\n"
               f"    (!![c, i*s*eb; i*s*e, c] : Matrix (Fin 2) (Fin 2) K) * !![{Lrows}] * !![c, -i*s*eb; -i*s*e, c] =\n      !![{rows}] := by\n"
               f"  ext a b; fin_cases a <;> fin_cases b <;>\n    simp only [Matrix.mul_apply, Fin.sum_univ_two, Matrix.of_apply, Matrix.cons_val', Matrix.cons_val_zero, Matrix.cons_val_one, Matrix.cons_val_fin_one, Fin.zero_eta, Fin.mk_one, Fin.isValue]\n"
               + "".join(f"  · linear_combination {ct}\n" for ct in certs))
open('Gen.lean','w').write("\n".join(out)+"\n")
print("\n".join(out)[:3000])
