import Mathlib.Data.Finsupp.Basic
import Mathlib.LinearAlgebra.Finsupp.LSum
import Mathlib.Data.Complex.Basic
import Mathlib.Algebra.BigOperators.Fin
import Mathlib.Tactic

open Finsupp

abbrev Bits := ℕ → Bool
abbrev St := Bits →₀ ℂ
noncomputable section

def ket (b : Bits) : St := single b 1
def lin (g : Bits → St) : St →ₗ[ℂ] St :=
  Finsupp.lsum ℂ (fun b => (LinearMap.id : ℂ →ₗ[ℂ] ℂ).smulRight (g b))
@[simp] theorem lin_ket (g : Bits → St) (b : Bits) : lin g (ket b) = g b := by simp [lin, ket]

theorem lin_ext {f g : St →ₗ[ℂ] St} (h : ∀ b, f (ket b) = g (ket b)) : f = g := by
  apply Finsupp.lhom_ext; intro b c
  have : single b c = c • ket b := by simp [ket]
  rw [this, map_smul, map_smul, h]

abbrev M2 := Bool → Bool → ℂ
abbrev M4 := (Bool × Bool) → (Bool × Bool) → ℂ

def mul2 (B A : M2) : M2 := fun x z => ∑ y : Bool, B x y * A y z
def one2 : M2 := fun x y => if x = y then 1 else 0
def mul4 (B A : M4) : M4 := fun x z => ∑ y : Bool × Bool, B x y * A y z
def kron2 (A B : M2) : M4 := fun x y => A x.1 y.1 * B x.2 y.2

def upd (b : Bits) (q : ℕ) (x : Bool) : Bits := Function.update b q x

/-- one-qubit gate on qubit `q` -/
def e1 (M : M2) (q : ℕ) : St →ₗ[ℂ] St := lin fun b => ∑ x : Bool, M x (b q) • ket (upd b q x)
/-- two-qubit gate, `q1` ↔ first index bit -/
def e2 (M : M4) (q1 q2 : ℕ) : St →ₗ[ℂ] St :=
  lin fun b => ∑ x : Bool × Bool, M x (b q1, b q2) • ket (upd (upd b q1 x.1) q2 x.2)

theorem upd_same (b : Bits) (q : ℕ) (x : Bool) : upd b q x q = x := by simp [upd]
theorem upd_other (b : Bits) (q q' : ℕ) (x : Bool) (h : q' ≠ q) : upd b q x q' = b q' := by simp [upd, h]
theorem upd_upd (b : Bits) (q : ℕ) (x y : Bool) : upd (upd b q x) q y = upd b q y := by simp [upd]
theorem upd_self (b : Bits) (q : ℕ) : upd b q (b q) = b := by simp [upd]
theorem upd_comm (b : Bits) (q q' : ℕ) (x y : Bool) (h : q ≠ q') :
    upd (upd b q x) q' y = upd (upd b q' y) q x := by
  unfold upd; exact Function.update_comm h _ _ _

theorem e1_one (q : ℕ) : e1 one2 q = LinearMap.id := by
  apply lin_ext; intro b
  simp only [e1, lin_ket, LinearMap.id_apply, Fintype.sum_bool, one2]
  cases h : b q <;> simp [upd, ← h]

theorem e1_mul (A B : M2) (q : ℕ) : e1 (mul2 B A) q = (e1 B q) ∘ₗ (e1 A q) := by
  apply lin_ext; intro b
  simp only [e1, lin_ket, LinearMap.comp_apply, Fintype.sum_bool, map_add, map_smul, upd_same,
    upd_upd, mul2]
  simp only [add_smul, smul_add, smul_smul]
  ring_nf
  abel_nf

theorem comm11 (A B : M2) (a b : ℕ) (h : a ≠ b) : (e1 A a) ∘ₗ (e1 B b) = (e1 B b) ∘ₗ (e1 A a) := by
  apply lin_ext; intro s
  simp only [e1, lin_ket, LinearMap.comp_apply, Fintype.sum_bool, map_add, map_smul,
    upd_other _ _ _ _ h, upd_other _ _ _ _ h.symm]
  simp only [smul_add, smul_smul, upd_comm _ _ _ _ _ h]
  ring_nf
  abel_nf

theorem e2_kron (A B : M2) (a b : ℕ) (h : a ≠ b) : e2 (kron2 A B) a b = (e1 A a) ∘ₗ (e1 B b) := by
  apply lin_ext; intro s
  simp only [e2, e1, lin_ket, LinearMap.comp_apply, Fintype.sum_prod_type,
    Fintype.sum_bool, map_add, map_smul, kron2, upd_other _ _ _ _ h]
  simp only [smul_add, smul_smul, upd_comm _ _ _ _ _ h]
  ring_nf
  abel_nf

theorem e2_mul (A B : M4) (a b : ℕ) (h : a ≠ b) : e2 (mul4 B A) a b = (e2 B a b) ∘ₗ (e2 A a b) := by
  apply lin_ext; intro s
  simp only [e2, lin_ket, LinearMap.comp_apply, Fintype.sum_prod_type, Fintype.sum_bool, map_add,
    map_smul, mul4, upd_same, upd_other _ _ _ _ h, upd_other _ _ _ _ h.symm]
  simp only [upd_comm _ a b _ _ h, upd_upd, upd_same, upd_other _ _ _ _ h, upd_other _ _ _ _ h.symm]
  simp only [← upd_comm _ a b _ _ h, upd_upd]
  simp only [add_smul, smul_add, smul_smul]
  ring_nf
  abel_nf

end
#print axioms e2_kron
#print axioms e2_mul
