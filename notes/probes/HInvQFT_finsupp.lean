import Mathlib.Data.Finsupp.Basic
import Mathlib.LinearAlgebra.Finsupp.LSum
import Mathlib.Data.Complex.Basic
import Mathlib.Data.Finset.Powerset
import Mathlib.Algebra.BigOperators.Group.Finset.Powerset
import Mathlib.Tactic

open Finsupp Finset

abbrev Bits := ℕ → Bool
abbrev St := Bits →₀ ℂ
noncomputable section

def ket (b : Bits) : St := single b 1
def lin (g : Bits → St) : St →ₗ[ℂ] St :=
  Finsupp.lsum ℂ (fun b => (LinearMap.id : ℂ →ₗ[ℂ] ℂ).smulRight (g b))
@[simp] theorem lin_ket (g : Bits → St) (b : Bits) : lin g (ket b) = g b := by simp [lin, ket]
theorem lin_ext {f g : St →ₗ[ℂ] St} (h : ∀ b, f (ket b) = g (ket b)) : f = g := by
  apply Finsupp.lhom_ext; intro b c
  have : single b c = c • ket b := by simp [ket]
  rw [this, map_smul, map_smul, h]

def upd (b : Bits) (q : ℕ) (x : Bool) : Bits := Function.update b q x

/-- gates of the benchmark generators; `w k` stands for `exp(iπ/2^k)` (only `w k * w' k = 1` is used) -/
inductive Gate | h (q : ℕ) | cp (inv : Bool) (k i j : ℕ) | swap (a b : ℕ)

variable (r : ℂ) (hr : 2 * r * r = 1) (w w' : ℕ → ℂ) (hw : ∀ k, w k * w' k = 1)

def sem : Gate → St →ₗ[ℂ] St
  | .h q => lin fun b => r • (ket (upd b q false) + (if b q then (-1 : ℂ) else 1) • ket (upd b q true))
  | .cp inv k i j => lin fun b => (if b i && b j then (if inv then w' k else w k) else 1) • ket b
  | .swap a c => lin fun b => ket (upd (upd b a (b c)) c (b a))

def Gate.inv : Gate → Gate
  | .h q => .h q
  | .cp i k a b => .cp (!i) k a b
  | .swap a b => .swap a b

/-- run a gate list, first element first -/
def run (l : List Gate) : St →ₗ[ℂ] St := l.foldl (fun acc g => (sem r w w' g) ∘ₗ acc) LinearMap.id

theorem run_nil : run r w w' [] = LinearMap.id := rfl
theorem run_append (l₁ l₂ : List Gate) : run r w w' (l₁ ++ l₂) = run r w w' l₂ ∘ₗ run r w w' l₁ := by
  unfold run
  rw [List.foldl_append]
  generalize List.foldl (fun acc g => sem r w w' g ∘ₗ acc) LinearMap.id l₁ = A
  induction l₂ generalizing A with
  | nil => simp
  | cons g l ih =>
    simp only [List.foldl_cons]
    rw [ih, ih (sem r w w' g ∘ₗ LinearMap.id)]
    simp [LinearMap.comp_assoc]

include hr hw in
/-- every gate is undone by its inverse -/
theorem sem_inv_comp (g : Gate) : sem r w w' g.inv ∘ₗ sem r w w' g = LinearMap.id := by
  apply lin_ext; intro b
  have h2 : r * r = 1 / 2 := by linear_combination hr / 2
  cases g with
  | h q =>
    simp only [Gate.inv, sem, LinearMap.comp_apply, lin_ket, map_smul, map_add, LinearMap.id_apply]
    have hu1 : ∀ x y, upd (upd b q x) q y = upd b q y := by intro x y; simp [upd]
    have hs : ∀ x, upd b q x q = x := by intro x; simp [upd]
    simp only [hu1, hs]
    cases hb : b q
    · have : upd b q false = b := by rw [← hb]; simp [upd]
      simp only [this, smul_add, smul_smul]
      simp
      rw [h2]; module
    · have : upd b q true = b := by rw [← hb]; simp [upd]
      simp only [this, smul_add, smul_smul]
      simp
      rw [h2]; module
  | cp i k a c =>
    simp only [Gate.inv, sem, LinearMap.comp_apply, lin_ket, map_smul, LinearMap.id_apply, smul_smul]
    cases hb : (b a && b c) <;> cases i <;> simp [hw, mul_comm (w' k)]
  | swap a c =>
    simp only [Gate.inv, sem, LinearMap.comp_apply, lin_ket, LinearMap.id_apply]
    congr 1
    funext x
    by_cases hxc : x = c
    · subst hxc
      by_cases hxa : x = a
      · subst hxa; simp [upd]
      · simp [upd, hxa, Ne.symm hxa]
    · by_cases hxa : x = a
      · subst hxa; simp [upd, hxc, Ne.symm hxc]
      · simp [upd, hxa, hxc]

include hr hw in
/-- running the inverted, reversed list undoes the list -/
theorem run_inverse (l : List Gate) :
    run r w w' (l.reverse.map Gate.inv) ∘ₗ run r w w' l = LinearMap.id := by
  induction l with
  | nil => simp [run]
  | cons g l ih =>
    have e : (g :: l).reverse.map Gate.inv = (l.reverse.map Gate.inv) ++ [g.inv] := by simp
    have e2 : g :: l = [g] ++ l := rfl
    rw [e, run_append, e2, run_append]
    have h1 : run r w w' [g.inv] = sem r w w' g.inv := by simp [run]
    have h2 : run r w w' [g] = sem r w w' g := by simp [run]
    rw [h1, h2]
    calc (sem r w w' g.inv ∘ₗ run r w w' (l.reverse.map Gate.inv)) ∘ₗ (run r w w' l ∘ₗ sem r w w' g)
        = sem r w w' g.inv ∘ₗ (run r w w' (l.reverse.map Gate.inv) ∘ₗ run r w w' l) ∘ₗ sem r w w' g := by
          simp [LinearMap.comp_assoc]
      _ = LinearMap.id := by rw [ih]; simp [sem_inv_comp r hr w w' hw g]

/-- indicator of a finite set of qubits -/
def ind (s : Finset ℕ) : Bits := fun q => decide (q ∈ s)

/-- uniform superposition over the qubits in `s` (all others 0), with amplitude `r^|s|` -/
def unif (s : Finset ℕ) : St := r ^ s.card • ∑ t ∈ s.powerset, ket (ind t)

theorem ind_empty : ind ∅ = fun _ => false := by funext q; simp [ind]

theorem upd_ind_false (t : Finset ℕ) (q : ℕ) (hq : q ∉ t) : upd (ind t) q false = ind t := by
  funext x; by_cases h : x = q
  · subst h; simp [upd, ind, hq]
  · simp [upd, ind, h]
theorem upd_ind_true (t : Finset ℕ) (q : ℕ) : upd (ind t) q true = ind (insert q t) := by
  funext x; by_cases h : x = q
  · subst h; simp [upd, ind]
  · simp [upd, ind, h]

/-- Hadamard on a fresh qubit extends the uniform superposition -/
theorem h_unif (s : Finset ℕ) (q : ℕ) (hq : q ∉ s) :
    sem r w w' (.h q) (unif r s) = unif r (insert q s) := by
  unfold unif
  rw [map_smul, map_sum, Finset.sum_powerset_insert hq, Finset.card_insert_of_notMem hq, pow_succ,
    mul_smul]
  congr 1
  rw [← Finset.sum_add_distrib, Finset.smul_sum]
  refine Finset.sum_congr rfl fun t ht => ?_
  have hqt : q ∉ t := fun h => hq (Finset.mem_powerset.mp ht h)
  simp only [sem, lin_ket]
  have : ind t q = false := by simp [ind, hqt]
  simp [this, upd_ind_false t q hqt, upd_ind_true]

/-- a controlled phase whose control is outside `s` does nothing to `unif s` -/
theorem cp_unif (s : Finset ℕ) (inv : Bool) (k i j : ℕ) (hi : i ∉ s) :
    sem r w w' (.cp inv k i j) (unif r s) = unif r s := by
  unfold unif
  rw [map_smul, map_sum]
  congr 1
  refine Finset.sum_congr rfl fun t ht => ?_
  have hit : i ∉ t := fun h => hi (Finset.mem_powerset.mp ht h)
  simp [sem, ind, hit]


theorem unif_empty : unif r ∅ = ket (fun _ => false) := by
  simp [unif, ind_empty]

/-- `qft_rotations(n)`: h(n-1); cp(π/2^(n-1-i), i, n-1) for i < n-1; recurse -/
def rotations : ℕ → List Gate
  | 0 => []
  | n+1 => (Gate.h n :: (List.range n).map (fun i => Gate.cp false (n - i) i n)) ++ rotations n

theorem run_cons (g : Gate) (l : List Gate) (ψ : St) :
    run r w w' (g :: l) ψ = run r w w' l (sem r w w' g ψ) := by
  have : g :: l = [g] ++ l := rfl
  rw [this, run_append]; simp [run]

theorem run_cps (s : Finset ℕ) (n : ℕ) (is : List ℕ) (h : ∀ i ∈ is, i ∉ s) (f : ℕ → ℕ) (inv : Bool) :
    run r w w' (is.map fun i => Gate.cp inv (f i) i n) (unif r s) = unif r s := by
  induction is with
  | nil => simp [run]
  | cons i is ih =>
    rw [List.map_cons, run_cons, cp_unif r w w' s inv _ i n (h i (by simp))]
    exact ih fun j hj => h j (by simp [hj])

theorem rotations_unif (n : ℕ) : ∀ s : Finset ℕ, (∀ q ∈ s, n ≤ q) →
    run r w w' (rotations n) (unif r s) = unif r (s ∪ Finset.range n) := by
  induction n with
  | zero => intro s _; simp [rotations, run]
  | succ n ih =>
    intro s hs
    have hn : n ∉ s := fun h => by have := hs n h; omega
    rw [rotations, run_append, LinearMap.comp_apply, run_cons, h_unif r w w' s n hn]
    rw [run_cps r w w' (insert n s) n (List.range n)
      (fun i hi => by
        have hi' : i < n := List.mem_range.mp hi
        simp only [Finset.mem_insert, not_or]
        exact ⟨by omega, fun h => by have := hs i h; omega⟩) (fun i => n - i) false]
    rw [ih (insert n s) (fun q hq => by
      rcases Finset.mem_insert.mp hq with rfl | hq
      · exact le_rfl
      · have := hs q hq; omega)]
    congr 1
    ext q
    simp only [Finset.mem_union, Finset.mem_insert, Finset.mem_range]
    constructor
    · rintro ((rfl | h) | h)
      · right; omega
      · left; exact h
      · right; omega
    · rintro (h | h)
      · left; right; exact h
      · by_cases hq : q = n
        · left; left; exact hq
        · right; omega

theorem rotations_zero (n : ℕ) :
    run r w w' (rotations n) (ket fun _ => false) = unif r (Finset.range n) := by
  rw [← unif_empty r, rotations_unif r w w' n ∅ (by simp)]; simp

/-- the H layer applied in descending order (what `inverse()` produces) -/
theorem hlayer_rev (n : ℕ) : ∀ s : Finset ℕ, (∀ q ∈ s, n ≤ q) →
    run r w w' (((List.range n).map Gate.h).reverse.map Gate.inv) (unif r s)
      = unif r (s ∪ Finset.range n) := by
  induction n with
  | zero => intro s _; simp [run]
  | succ n ih =>
    intro s hs
    have hn : n ∉ s := fun h => by have := hs n h; omega
    rw [List.range_succ, List.map_append, List.reverse_append, List.map_append]
    simp only [List.map_cons, List.map_nil, List.reverse_cons, List.reverse_nil, List.nil_append,
      Gate.inv, List.singleton_append]
    rw [run_cons, h_unif r w w' s n hn, ih (insert n s) (fun q hq => by
      rcases Finset.mem_insert.mp hq with rfl | hq
      · exact le_rfl
      · have := hs q hq; omega)]
    congr 1
    ext q
    simp only [Finset.mem_union, Finset.mem_insert, Finset.mem_range]
    constructor
    · rintro ((rfl | h) | h)
      · right; omega
      · left; exact h
      · right; omega
    · rintro (h | h)
      · left; right; exact h
      · by_cases hq : q = n
        · left; left; exact hq
        · right; omega


/-- swapping two qubits of `s` leaves `unif s` unchanged -/
theorem swap_unif (s : Finset ℕ) (a c : ℕ) (ha : a ∈ s) (hc : c ∈ s) :
    sem r w w' (.swap a c) (unif r s) = unif r s := by
  unfold unif
  rw [map_smul, map_sum]
  congr 1
  let e : ℕ ≃ ℕ := Equiv.swap a c
  have hse : ∀ t : Finset ℕ, t ⊆ s → t.map e.toEmbedding ⊆ s := by
    intro t ht x hx
    rw [Finset.mem_map_equiv] at hx
    have := ht hx
    by_cases hxa : x = a
    · subst hxa; exact ha
    · by_cases hxc : x = c
      · subst hxc; exact hc
      · have : e.symm x = x := by simp [e, Equiv.swap_apply_of_ne_of_ne hxa hxc]
        rw [this] at hx; exact ht hx
  have hker : ∀ t : Finset ℕ, sem r w w' (.swap a c) (ket (ind t)) = ket (ind (t.map e.toEmbedding)) := by
    intro t
    simp only [sem, lin_ket]
    congr 1
    funext x
    simp only [ind, upd, Finset.mem_map_equiv, e, Equiv.symm_swap]
    by_cases hxc : x = c
    · subst hxc; simp [Function.update]
    · by_cases hxa : x = a
      · subst hxa; simp [Function.update, hxc, Equiv.swap_apply_left]
      · simp [Function.update, hxa, hxc, Equiv.swap_apply_of_ne_of_ne hxa hxc, ind]
  simp_rw [hker]
  refine Finset.sum_nbij' (fun t => t.map e.toEmbedding) (fun t => t.map e.toEmbedding) ?_ ?_ ?_ ?_ ?_
  · intro t ht; exact Finset.mem_powerset.mpr (hse t (Finset.mem_powerset.mp ht))
  · intro t ht; exact Finset.mem_powerset.mpr (hse t (Finset.mem_powerset.mp ht))
  · intro t _; ext x; simp [Finset.mem_map_equiv, e]
  · intro t _; ext x; simp [Finset.mem_map_equiv, e]
  · intro t _; ext x; simp [Finset.mem_map_equiv, e]

/-- `swap_registers` -/
def swaps (n : ℕ) : List Gate := (List.range (n / 2)).map fun q => Gate.swap q (n - q - 1)

theorem run_swaps_like (n : ℕ) (l : List Gate)
    (hl : ∀ g ∈ l, ∃ a c, g = Gate.swap a c ∧ a < n ∧ c < n) :
    run r w w' l (unif r (Finset.range n)) = unif r (Finset.range n) := by
  induction l with
  | nil => simp [run]
  | cons g l ih =>
    obtain ⟨a, c, rfl, ha, hc⟩ := hl g (by simp)
    rw [run_cons, swap_unif r w w' _ a c (Finset.mem_range.mpr ha) (Finset.mem_range.mpr hc)]
    exact ih fun g hg => hl g (by simp [hg])

/-- `hadamard_reverse_qft_circ(n)` before barrier and measurements:
 the inverse of  rotations ; swaps ; H-layer -/
def hinvqft (n : ℕ) : List Gate :=
  ((rotations n ++ swaps n) ++ (List.range n).map Gate.h).reverse.map Gate.inv

include hr hw in
theorem hinvqft_zero (n : ℕ) :
    run r w w' (hinvqft n) (ket fun _ => false) = ket fun _ => false := by
  unfold hinvqft
  rw [List.reverse_append, List.reverse_append, List.map_append, List.map_append, run_append,
    run_append, LinearMap.comp_apply, LinearMap.comp_apply]
  -- H layer (descending order)
  rw [← unif_empty r, hlayer_rev r w w' n ∅ (by simp), Finset.empty_union]
  -- swaps
  rw [run_swaps_like r w w' n ((swaps n).reverse.map Gate.inv) (by
    intro g hg
    simp only [swaps, List.mem_map, List.mem_reverse, List.mem_range] at hg
    obtain ⟨g', ⟨q, hq, rfl⟩, rfl⟩ := hg
    exact ⟨q, n - q - 1, rfl, by omega, by omega⟩)]
  -- inverse rotations undo the rotations
  rw [← rotations_zero r w w' n]
  have := run_inverse r hr w w' hw (rotations n)
  have h := congrArg (fun f => f (ket fun _ => false)) this
  rw [unif_empty r]
  simpa using h

end
#print axioms hinvqft_zero
