import Mathlib.Analysis.SpecialFunctions.Integrals.Basic
open Real intervalIntegral

/-- change of variables used by all eight closed forms -/
theorem integral_comp_scale (g : ℝ → ℝ) (θ a : ℝ) (hθ : θ ≠ 0) (ha : 0 < a) :
    ∫ t in (0:ℝ)..a, g (θ * t / a) = (a / θ) * ∫ x in (0:ℝ)..θ, g x := by
  have h1 : ∀ t, θ * t / a = (θ / a) * t := by intro t; ring
  simp_rw [h1]
  have hk : θ / a ≠ 0 := div_ne_zero hθ ha.ne'
  rw [intervalIntegral.integral_comp_mul_left g hk]
  have : θ / a * a = θ := by field_simp
  simp only [mul_zero, this, smul_eq_mul]
  field_simp

theorem cf_sin_sq (θ a : ℝ) (hθ : θ ≠ 0) (ha : 0 < a) :
    ∫ t in (0:ℝ)..a, sin (θ * t / a) ^ 2 = a * (2*θ - sin (2*θ)) / (4*θ) := by
  rw [integral_comp_scale (fun x => sin x ^ 2) θ a hθ ha, integral_sin_sq]
  simp only [sin_zero, cos_zero]; rw [sin_two_mul]; field_simp; ring

theorem cf_cos_sq (θ a : ℝ) (hθ : θ ≠ 0) (ha : 0 < a) :
    ∫ t in (0:ℝ)..a, cos (θ * t / a) ^ 2 = a * (2*θ + sin (2*θ)) / (4*θ) := by
  rw [integral_comp_scale (fun x => cos x ^ 2) θ a hθ ha, integral_cos_sq]
  simp only [sin_zero, cos_zero]; rw [sin_two_mul]; field_simp; ring

theorem cf_sin (θ a : ℝ) (hθ : θ ≠ 0) (ha : 0 < a) :
    ∫ t in (0:ℝ)..a, sin (θ * t / a) = a * (1 - cos θ) / θ := by
  rw [integral_comp_scale (fun x => sin x) θ a hθ ha, integral_sin]
  simp only [cos_zero]; field_simp

theorem cf_sin_mul_cos (θ a : ℝ) (hθ : θ ≠ 0) (ha : 0 < a) :
    ∫ t in (0:ℝ)..a, sin (θ * t / a) * cos (θ * t / a) = a * (sin θ) ^ 2 / (2*θ) := by
  rw [integral_comp_scale (fun x => sin x * cos x) θ a hθ ha, integral_sin_mul_cos₁]
  simp only [sin_zero]; field_simp; ring

/-- sin²(x/2) = (1 - cos x)/2 -/
theorem cf_sin_half_sq (θ a : ℝ) (hθ : θ ≠ 0) (ha : 0 < a) :
    ∫ t in (0:ℝ)..a, sin (θ * t / (2*a)) ^ 2 = a * (θ - sin θ) / (2*θ) := by
  have h : ∀ t, sin (θ * t / (2*a)) ^ 2 = (1 - cos (θ * t / a)) / 2 := by
    intro t
    have := cos_sq_add_sin_sq (θ * t / (2*a))
    have h2 : cos (θ * t / a) = cos (2 * (θ * t / (2*a))) := by congr 1; field_simp
    rw [h2, cos_two_mul]; nlinarith [this]
  simp_rw [h]
  have hi : IntervalIntegrable (fun t => cos (θ * t / a)) MeasureTheory.volume 0 a :=
    (Continuous.intervalIntegrable (by fun_prop) _ _)
  rw [intervalIntegral.integral_div, intervalIntegral.integral_sub (by simp) hi,
    integral_comp_scale (fun x => cos x) θ a hθ ha, integral_cos]
  simp; field_simp

theorem cf_cos_half_sq (θ a : ℝ) (hθ : θ ≠ 0) (ha : 0 < a) :
    ∫ t in (0:ℝ)..a, cos (θ * t / (2*a)) ^ 2 = a * (θ + sin θ) / (2*θ) := by
  have h : ∀ t, cos (θ * t / (2*a)) ^ 2 = (1 + cos (θ * t / a)) / 2 := by
    intro t
    have h2 : cos (θ * t / a) = cos (2 * (θ * t / (2*a))) := by congr 1; field_simp
    rw [h2, cos_two_mul]; ring
  simp_rw [h]
  have hi : IntervalIntegrable (fun t => cos (θ * t / a)) MeasureTheory.volume 0 a :=
    (Continuous.intervalIntegrable (by fun_prop) _ _)
  rw [intervalIntegral.integral_div, intervalIntegral.integral_add (by simp) hi,
    integral_comp_scale (fun x => cos x) θ a hθ ha, integral_cos]
  simp; field_simp

theorem half_sq (y : ℝ) : sin (y / 2) ^ 2 = (1 - cos y) / 2 := by
  have h2 : cos y = cos (2 * (y / 2)) := by congr 1; ring
  have := cos_sq_add_sin_sq (y / 2)
  rw [h2, cos_two_mul]; nlinarith [this]

theorem cf_sin_mul_sin_half_sq (θ a : ℝ) (hθ : θ ≠ 0) (ha : 0 < a) :
    ∫ t in (0:ℝ)..a, sin (θ * t / a) * sin (θ * t / (2*a)) ^ 2 = a * (sin (θ/2)) ^ 4 / θ := by
  have h : ∀ t, sin (θ * t / a) * sin (θ * t / (2*a)) ^ 2
      = (sin (θ * t / a) - sin (θ * t / a) * cos (θ * t / a)) / 2 := by
    intro t
    have : θ * t / (2*a) = (θ * t / a) / 2 := by field_simp
    rw [this, half_sq]; ring
  simp_rw [h]
  have hi1 : IntervalIntegrable (fun t => sin (θ * t / a)) MeasureTheory.volume 0 a :=
    (Continuous.intervalIntegrable (by fun_prop) _ _)
  have hi2 : IntervalIntegrable (fun t => sin (θ * t / a) * cos (θ * t / a)) MeasureTheory.volume 0 a :=
    (Continuous.intervalIntegrable (by fun_prop) _ _)
  rw [intervalIntegral.integral_div, intervalIntegral.integral_sub hi1 hi2, cf_sin θ a hθ ha,
    cf_sin_mul_cos θ a hθ ha]
  have e4 : sin (θ/2) ^ 4 = ((1 - cos θ) / 2) ^ 2 := by rw [← half_sq]; ring
  rw [e4]
  have := sin_sq_add_cos_sq θ
  field_simp
  nlinarith [this]

theorem cf_sin_half_pow4 (θ a : ℝ) (hθ : θ ≠ 0) (ha : 0 < a) :
    ∫ t in (0:ℝ)..a, sin (θ * t / (2*a)) ^ 4 = a * (6*θ - 8 * sin θ + sin (2*θ)) / (16*θ) := by
  have h : ∀ t, sin (θ * t / (2*a)) ^ 4
      = (1 - 2 * cos (θ * t / a) + cos (θ * t / a) ^ 2) / 4 := by
    intro t
    have : θ * t / (2*a) = (θ * t / a) / 2 := by field_simp
    have e : sin (θ * t / (2*a)) ^ 4 = (sin (θ * t / (2*a)) ^ 2) ^ 2 := by ring
    rw [e, this, half_sq]; ring
  simp_rw [h]
  have hi1 : IntervalIntegrable (fun t => (1:ℝ) - 2 * cos (θ * t / a)) MeasureTheory.volume 0 a :=
    (Continuous.intervalIntegrable (by fun_prop) _ _)
  have hi0 : IntervalIntegrable (fun t => 2 * cos (θ * t / a)) MeasureTheory.volume 0 a :=
    (Continuous.intervalIntegrable (by fun_prop) _ _)
  have hi2 : IntervalIntegrable (fun t => cos (θ * t / a) ^ 2) MeasureTheory.volume 0 a :=
    (Continuous.intervalIntegrable (by fun_prop) _ _)
  rw [intervalIntegral.integral_div, intervalIntegral.integral_add hi1 hi2,
    intervalIntegral.integral_sub (by simp) hi0, intervalIntegral.integral_const_mul,
    cf_cos_sq θ a hθ ha, integral_comp_scale (fun x => cos x) θ a hθ ha, integral_cos]
  simp; field_simp; ring

#print axioms cf_sin_half_pow4
#print axioms cf_sin_mul_sin_half_sq
