-- import-free model of Optimizer.opt_level_1 (probe)
namespace QGP

inductive Item (M2 M4 : Type) where
  | one (m : M2) (q : Nat)
  | two (m : M4) (q1 q2 : Nat)
deriving Repr

structure MatOps (M2 M4 : Type) where
  one2 : M2
  mul2 : M2 → M2 → M2      -- mul2 B A = B @ A
  one4 : M4
  mul4 : M4 → M4 → M4
  kron : M2 → M2 → M4

inductive Err | index | value deriving Repr, DecidableEq

variable {M2 M4 : Type}

/-- `while len(gate_list[c][1]) == 1 and qubit == gate_list[c][1]: c += 1`, started at the tail.
 Returns the number of further items in the run, or IndexError if the scan walks off the end. -/
def scanRun (q : Nat) : List (Item M2 M4) → Except Err Nat
  | [] => .error .index
  | .one _ q' :: rest => if q' = q then (scanRun q rest).map (· + 1) else .ok 0
  | .two .. :: _ => .ok 0

/-- product `gates[c-1] @ ... @ gates[0] @ I` of the first `c` items (all `one`) -/
def mergeRun (ops : MatOps M2 M4) : List (Item M2 M4) → M2 → M2
  | .one m _ :: rest, acc => mergeRun ops rest (ops.mul2 m acc)
  | _, acc => acc

def level1 (ops : MatOps M2 M4) : Nat → List (Item M2 M4) → List (Item M2 M4) → Except Err (List (Item M2 M4))
  | 0, _, _ => .error .value      -- fuel exhausted (never for fuel ≥ length, see theorem)
  | _, [], res => .ok res.reverse
  | fuel+1, g :: rest, res =>
    let next : Except Err (List (Item M2 M4) × List (Item M2 M4)) :=
      match g with
      | .one m q =>
        match scanRun q rest with
        | .error e => .error e
        | .ok r =>
          if r ≥ 1 then
            .ok (rest.drop r, .one (mergeRun ops (rest.take r) (ops.mul2 m ops.one2)) q :: res)
          else .ok (rest, g :: res)
      | .two .. => .ok (rest, g :: res)
    match next with
    | .error e => .error e
    | .ok (gl, res') =>
      match gl with
      | [x] => .ok (x :: res').reverse
      | _ => level1 ops fuel gl res'

def optLevel1 (ops : MatOps M2 M4) (l : List (Item M2 M4)) := level1 ops (l.length + 1) l []

end QGP
