-- import-free model of the core of fix_counts (after mirroring keys to numbers and sorting)
namespace FC
inductive Err | index deriving Repr, DecidableEq

/-- the gap-filling `for j in range(2**n - 1)` loop as a left-to-right cursor:
 `cur = counts[j]`, `rest = counts[j+1:]`, `done` = reversed `counts[:j]` -/
def fill : Nat → List (Nat × Int) → (Nat × Int) → List (Nat × Int) → Except Err (List (Nat × Int))
  | 0, done, cur, rest => .ok (done.reverse ++ cur :: rest)
  | k+1, done, cur, rest =>
    match rest with
    | [] => .error .index                       -- counts[j+1] out of range
    | nxt :: rest' =>
      if nxt.1 ≠ cur.1 + 1 then fill k (cur :: done) (cur.1 + 1, 0) (nxt :: rest')   -- insert(j+1, (new, 0))
      else fill k (cur :: done) nxt rest'

/-- `fix_counts` on an already mirrored + sorted, non-empty table with keys < 2^n; `M = 2^n - 1` -/
def fixSorted (M : Nat) (l : List (Nat × Int)) : Except Err (List (Nat × Int)) :=
  match l with
  | [] => .error .index                          -- counts[0] on an empty table
  | h :: t =>
    let l1 := if h.1 ≠ 0 then (0, 0) :: h :: t else h :: t
    let l2 := if (l1.getLast?.map (·.1)) ≠ some M then l1 ++ [(M, 0)] else l1
    match l2 with
    | [] => .error .index
    | c :: r => fill M [] c r
end FC
