import Mathlib.Probability.Distributions.Gaussian.Real
import Mathlib.MeasureTheory.Integral.Prod
import Mathlib.MeasureTheory.Measure.CharacteristicFunction.Basic
open MeasureTheory ProbabilityTheory Complex
open scoped NNReal

/-! Relaxation noisy gate `G(W, X) = [[e^{iεW}, i X e^{-iεW}], [0, d e^{-iεW}]]`,
 `W ~ N(0, Δ)`, `X ~ N(0, V)` independent. Shot average of `G ρ G†`. -/

variable (Δ V : ℝ≥0) (ε d : ℝ)

/-- joint law of the two independent samples -/
noncomputable abbrev law : Measure (ℝ × ℝ) := (gaussianReal 0 Δ).prod (gaussianReal 0 V)

/-- Gaussian characteristic function at `2ε` -/
theorem E_phase : ∫ w, cexp (2 * ε * w * I) ∂(gaussianReal 0 Δ) = cexp (-(2 * ε ^ 2 * Δ)) := by
  have h := charFun_gaussianReal (μ := 0) (v := Δ) (2 * ε)
  rw [charFun_apply_real] at h
  have e1 : (fun w : ℝ => cexp (2 * ε * w * I)) = fun w : ℝ => cexp (((2 * ε : ℝ) : ℂ) * w * I) := by
    funext w; push_cast; ring_nf
  rw [e1, h]; congr 1; push_cast; ring

theorem E_X : ∫ x, ((x : ℝ) : ℂ) ∂(gaussianReal 0 V) = 0 := by
  rw [integral_complex_ofReal, integral_id_gaussianReal]; simp

theorem E_X_sq : ∫ x, (((x : ℝ) : ℂ)) ^ 2 ∂(gaussianReal 0 V) = (V : ℂ) := by
  have h : ∫ x, x ^ 2 ∂(gaussianReal 0 V) = (V : ℝ) := by
    have := variance_fun_id_gaussianReal (μ := 0) (v := V)
    rw [variance_eq_integral measurable_id'.aemeasurable] at this
    simpa using this
  have : (fun x : ℝ => ((x : ℂ)) ^ 2) = fun x : ℝ => (((x ^ 2 : ℝ)) : ℂ) := by
    funext x; push_cast; rfl
  rw [this, integral_complex_ofReal, h]

/-- off-diagonal entry `(G ρ G†)₀₁ = d e^{2iεW} b + i X d c` : its shot average is `d e^{-2ε²Δ} b` -/
theorem coherence_decay (b c : ℂ) :
    ∫ z, ((d : ℂ) * cexp (2 * ε * z.1 * I) * b + I * (z.2 : ℂ) * d * c) ∂(law Δ V)
      = (d : ℂ) * cexp (-(2 * ε ^ 2 * Δ)) * b := by
  have hint1 : Integrable (fun w : ℝ => cexp (2 * ε * w * I)) (gaussianReal 0 Δ) := by
    apply (integrable_const (1 : ℝ)).mono' (by fun_prop)
    filter_upwards with w
    have : (2 * (ε : ℂ) * w * I) = ((2 * ε * w : ℝ) : ℂ) * I := by push_cast; ring
    rw [this, Complex.norm_exp_ofReal_mul_I]
  have hint2 : Integrable (fun x : ℝ => (x : ℂ)) (gaussianReal 0 V) :=
    (memLp_id_gaussianReal (μ := 0) (v := V) 1).integrable le_rfl |>.ofReal
  have hA : Integrable (fun z : ℝ × ℝ => (d : ℂ) * cexp (2 * ε * z.1 * I) * b) (law Δ V) := by
    have := (hint1.mul_prod (integrable_const (1 : ℂ) (μ := gaussianReal 0 V)))
    simpa [mul_comm, mul_left_comm, mul_assoc] using (this.const_mul ((d : ℂ) * b))
  have hB : Integrable (fun z : ℝ × ℝ => I * (z.2 : ℂ) * d * c) (law Δ V) := by
    have := ((integrable_const (1 : ℂ) (μ := gaussianReal 0 Δ)).mul_prod hint2)
    simpa [mul_comm, mul_left_comm, mul_assoc] using (this.const_mul (I * d * c))
  rw [integral_add hA hB]
  have e1 : ∫ z, (d : ℂ) * cexp (2 * ε * z.1 * I) * b ∂(law Δ V) = (d : ℂ) * cexp (-(2 * ε ^ 2 * Δ)) * b := by
    have := integral_prod_mul (μ := gaussianReal 0 Δ) (ν := gaussianReal 0 V)
      (fun w : ℝ => cexp (2 * ε * w * I)) (fun _ : ℝ => (1 : ℂ))
    simp only [mul_one, integral_const, probReal_univ, one_smul] at this
    rw [E_phase] at this
    calc ∫ z, (d : ℂ) * cexp (2 * ε * z.1 * I) * b ∂(law Δ V)
        = (d : ℂ) * b * ∫ z, cexp (2 * ε * z.1 * I) ∂(law Δ V) := by
          rw [← integral_const_mul]; congr 1; funext z; ring
      _ = _ := by rw [this]; ring
  have e2 : ∫ z, I * (z.2 : ℂ) * d * c ∂(law Δ V) = 0 := by
    have := integral_prod_mul (μ := gaussianReal 0 Δ) (ν := gaussianReal 0 V)
      (fun _ : ℝ => (1 : ℂ)) (fun x : ℝ => (x : ℂ))
    simp only [one_mul, integral_const, probReal_univ, one_smul] at this
    rw [E_X] at this
    calc ∫ z, I * (z.2 : ℂ) * d * c ∂(law Δ V)
        = I * d * c * ∫ z, (z.2 : ℂ) ∂(law Δ V) := by
          rw [← integral_const_mul]; congr 1; funext z; ring
      _ = 0 := by rw [this]; ring
  rw [e1, e2, add_zero]

#print axioms coherence_decay
