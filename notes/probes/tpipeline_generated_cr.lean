import Mathlib.Tactic
import Mathlib.LinearAlgebra.Matrix.Notation
open Matrix
variable {K : Type} [Field K] [CharZero K] (c s e eb i : K)

theorem gen_decomp_Ir_ctr (h0 : c^2 + s^2 = 1) (h1 : e * eb = 1) (h2 : i^2 = -1) :
    (!![c, eb*i*s, 0, 0; e*i*s, c, 0, 0; 0, 0, c, -eb*i*s; 0, 0, -e*i*s, c] : Matrix (Fin 4) (Fin 4) K) * !![0, 0, 1, 0; 0, 0, 0, 1; 0, 0, 0, 0; 0, 0, 0, 0] * !![c, -eb*i*s, 0, 0; -e*i*s, c, 0, 0; 0, 0, c, eb*i*s; 0, 0, e*i*s, c] =
      !![0, 0, c^2 - s^2, 2*c*eb*i*s; 0, 0, 2*c*e*i*s, c^2 - s^2; 0, 0, 0, 0; 0, 0, 0, 0] := by
  ext a b; fin_cases a <;> fin_cases b
  · simp [Matrix.mul_apply, Fin.sum_univ_four, Matrix.vecHead, Matrix.vecTail] <;> linear_combination 0 * h0
  · simp [Matrix.mul_apply, Fin.sum_univ_four, Matrix.vecHead, Matrix.vecTail] <;> linear_combination 0 * h0
  · simp [Matrix.mul_apply, Fin.sum_univ_four, Matrix.vecHead, Matrix.vecTail] <;> linear_combination (i^2*s^2) * h1 + (s^2) * h2
  · simp [Matrix.mul_apply, Fin.sum_univ_four, Matrix.vecHead, Matrix.vecTail] <;> linear_combination 0 * h0
  · simp [Matrix.mul_apply, Fin.sum_univ_four, Matrix.vecHead, Matrix.vecTail] <;> linear_combination 0 * h0
  · simp [Matrix.mul_apply, Fin.sum_univ_four, Matrix.vecHead, Matrix.vecTail] <;> linear_combination 0 * h0
  · simp [Matrix.mul_apply, Fin.sum_univ_four, Matrix.vecHead, Matrix.vecTail] <;> linear_combination 0 * h0
  · simp [Matrix.mul_apply, Fin.sum_univ_four, Matrix.vecHead, Matrix.vecTail] <;> linear_combination (i^2*s^2) * h1 + (s^2) * h2
  · simp [Matrix.mul_apply, Fin.sum_univ_four, Matrix.vecHead, Matrix.vecTail] <;> linear_combination 0 * h0
  · simp [Matrix.mul_apply, Fin.sum_univ_four, Matrix.vecHead, Matrix.vecTail] <;> linear_combination 0 * h0
  · simp [Matrix.mul_apply, Fin.sum_univ_four, Matrix.vecHead, Matrix.vecTail] <;> linear_combination 0 * h0
  · simp [Matrix.mul_apply, Fin.sum_univ_four, Matrix.vecHead, Matrix.vecTail] <;> linear_combination 0 * h0
  · simp [Matrix.mul_apply, Fin.sum_univ_four, Matrix.vecHead, Matrix.vecTail] <;> linear_combination 0 * h0
  · simp [Matrix.mul_apply, Fin.sum_univ_four, Matrix.vecHead, Matrix.vecTail] <;> linear_combination 0 * h0
  · simp [Matrix.mul_apply, Fin.sum_univ_four, Matrix.vecHead, Matrix.vecTail] <;> linear_combination 0 * h0
  · simp [Matrix.mul_apply, Fin.sum_univ_four, Matrix.vecHead, Matrix.vecTail] <;> linear_combination 0 * h0

theorem gen_decomp_Ir_trg (h0 : c^2 + s^2 = 1) (h1 : e * eb = 1) (h2 : i^2 = -1) :
    (!![c, eb*i*s, 0, 0; e*i*s, c, 0, 0; 0, 0, c, -eb*i*s; 0, 0, -e*i*s, c] : Matrix (Fin 4) (Fin 4) K) * !![0, 1, 0, 0; 0, 0, 0, 0; 0, 0, 0, 1; 0, 0, 0, 0] * !![c, -eb*i*s, 0, 0; -e*i*s, c, 0, 0; 0, 0, c, eb*i*s; 0, 0, e*i*s, c] =
      !![-c*e*i*s, 1 - s^2, 0, 0; e^2*s^2, c*e*i*s, 0, 0; 0, 0, c*e*i*s, 1 - s^2; 0, 0, e^2*s^2, -c*e*i*s] := by
  ext a b; fin_cases a <;> fin_cases b
  · simp [Matrix.mul_apply, Fin.sum_univ_four, Matrix.vecHead, Matrix.vecTail] <;> linear_combination 0 * h0
  · simp [Matrix.mul_apply, Fin.sum_univ_four, Matrix.vecHead, Matrix.vecTail] <;> linear_combination (1) * h0
  · simp [Matrix.mul_apply, Fin.sum_univ_four, Matrix.vecHead, Matrix.vecTail] <;> linear_combination 0 * h0
  · simp [Matrix.mul_apply, Fin.sum_univ_four, Matrix.vecHead, Matrix.vecTail] <;> linear_combination 0 * h0
  · simp [Matrix.mul_apply, Fin.sum_univ_four, Matrix.vecHead, Matrix.vecTail] <;> linear_combination (-e^2*s^2) * h2
  · simp [Matrix.mul_apply, Fin.sum_univ_four, Matrix.vecHead, Matrix.vecTail] <;> linear_combination 0 * h0
  · simp [Matrix.mul_apply, Fin.sum_univ_four, Matrix.vecHead, Matrix.vecTail] <;> linear_combination 0 * h0
  · simp [Matrix.mul_apply, Fin.sum_univ_four, Matrix.vecHead, Matrix.vecTail] <;> linear_combination 0 * h0
  · simp [Matrix.mul_apply, Fin.sum_univ_four, Matrix.vecHead, Matrix.vecTail] <;> linear_combination 0 * h0
  · simp [Matrix.mul_apply, Fin.sum_univ_four, Matrix.vecHead, Matrix.vecTail] <;> linear_combination 0 * h0
  · simp [Matrix.mul_apply, Fin.sum_univ_four, Matrix.vecHead, Matrix.vecTail] <;> linear_combination 0 * h0
  · simp [Matrix.mul_apply, Fin.sum_univ_four, Matrix.vecHead, Matrix.vecTail] <;> linear_combination (1) * h0
  · simp [Matrix.mul_apply, Fin.sum_univ_four, Matrix.vecHead, Matrix.vecTail] <;> linear_combination 0 * h0
  · simp [Matrix.mul_apply, Fin.sum_univ_four, Matrix.vecHead, Matrix.vecTail] <;> linear_combination 0 * h0
  · simp [Matrix.mul_apply, Fin.sum_univ_four, Matrix.vecHead, Matrix.vecTail] <;> linear_combination (-e^2*s^2) * h2
  · simp [Matrix.mul_apply, Fin.sum_univ_four, Matrix.vecHead, Matrix.vecTail] <;> linear_combination 0 * h0

theorem gen_decomp_Ip_ctr (h0 : c^2 + s^2 = 1) (h1 : e * eb = 1) (h2 : i^2 = -1) :
    (!![c, eb*i*s, 0, 0; e*i*s, c, 0, 0; 0, 0, c, -eb*i*s; 0, 0, -e*i*s, c] : Matrix (Fin 4) (Fin 4) K) * !![1, 0, 0, 0; 0, 1, 0, 0; 0, 0, -1, 0; 0, 0, 0, -1] * !![c, -eb*i*s, 0, 0; -e*i*s, c, 0, 0; 0, 0, c, eb*i*s; 0, 0, e*i*s, c] =
      !![1, 0, 0, 0; 0, 1, 0, 0; 0, 0, -1, 0; 0, 0, 0, -1] := by
  ext a b; fin_cases a <;> fin_cases b
  · simp [Matrix.mul_apply, Fin.sum_univ_four, Matrix.vecHead, Matrix.vecTail] <;> linear_combination (1) * h0 + (-i^2*s^2) * h1 + (-s^2) * h2
  · simp [Matrix.mul_apply, Fin.sum_univ_four, Matrix.vecHead, Matrix.vecTail] <;> linear_combination 0 * h0
  · simp [Matrix.mul_apply, Fin.sum_univ_four, Matrix.vecHead, Matrix.vecTail] <;> linear_combination 0 * h0
  · simp [Matrix.mul_apply, Fin.sum_univ_four, Matrix.vecHead, Matrix.vecTail] <;> linear_combination 0 * h0
  · simp [Matrix.mul_apply, Fin.sum_univ_four, Matrix.vecHead, Matrix.vecTail] <;> linear_combination 0 * h0
  · simp [Matrix.mul_apply, Fin.sum_univ_four, Matrix.vecHead, Matrix.vecTail] <;> linear_combination (1) * h0 + (-i^2*s^2) * h1 + (-s^2) * h2
  · simp [Matrix.mul_apply, Fin.sum_univ_four, Matrix.vecHead, Matrix.vecTail] <;> linear_combination 0 * h0
  · simp [Matrix.mul_apply, Fin.sum_univ_four, Matrix.vecHead, Matrix.vecTail] <;> linear_combination 0 * h0
  · simp [Matrix.mul_apply, Fin.sum_univ_four, Matrix.vecHead, Matrix.vecTail] <;> linear_combination 0 * h0
  · simp [Matrix.mul_apply, Fin.sum_univ_four, Matrix.vecHead, Matrix.vecTail] <;> linear_combination 0 * h0
  · simp [Matrix.mul_apply, Fin.sum_univ_four, Matrix.vecHead, Matrix.vecTail] <;> linear_combination (-1) * h0 + (i^2*s^2) * h1 + (s^2) * h2
  · simp [Matrix.mul_apply, Fin.sum_univ_four, Matrix.vecHead, Matrix.vecTail] <;> linear_combination 0 * h0
  · simp [Matrix.mul_apply, Fin.sum_univ_four, Matrix.vecHead, Matrix.vecTail] <;> linear_combination 0 * h0
  · simp [Matrix.mul_apply, Fin.sum_univ_four, Matrix.vecHead, Matrix.vecTail] <;> linear_combination 0 * h0
  · simp [Matrix.mul_apply, Fin.sum_univ_four, Matrix.vecHead, Matrix.vecTail] <;> linear_combination 0 * h0
  · simp [Matrix.mul_apply, Fin.sum_univ_four, Matrix.vecHead, Matrix.vecTail] <;> linear_combination (-1) * h0 + (i^2*s^2) * h1 + (s^2) * h2

theorem gen_decomp_Ip_trg (h0 : c^2 + s^2 = 1) (h1 : e * eb = 1) (h2 : i^2 = -1) :
    (!![c, eb*i*s, 0, 0; e*i*s, c, 0, 0; 0, 0, c, -eb*i*s; 0, 0, -e*i*s, c] : Matrix (Fin 4) (Fin 4) K) * !![1, 0, 0, 0; 0, -1, 0, 0; 0, 0, 1, 0; 0, 0, 0, -1] * !![c, -eb*i*s, 0, 0; -e*i*s, c, 0, 0; 0, 0, c, eb*i*s; 0, 0, e*i*s, c] =
      !![c^2 - s^2, -2*c*eb*i*s, 0, 0; 2*c*e*i*s, -c^2 + s^2, 0, 0; 0, 0, c^2 - s^2, 2*c*eb*i*s; 0, 0, -2*c*e*i*s, -c^2 + s^2] := by
  ext a b; fin_cases a <;> fin_cases b
  · simp [Matrix.mul_apply, Fin.sum_univ_four, Matrix.vecHead, Matrix.vecTail] <;> linear_combination (i^2*s^2) * h1 + (s^2) * h2
  · simp [Matrix.mul_apply, Fin.sum_univ_four, Matrix.vecHead, Matrix.vecTail] <;> linear_combination 0 * h0
  · simp [Matrix.mul_apply, Fin.sum_univ_four, Matrix.vecHead, Matrix.vecTail] <;> linear_combination 0 * h0
  · simp [Matrix.mul_apply, Fin.sum_univ_four, Matrix.vecHead, Matrix.vecTail] <;> linear_combination 0 * h0
  · simp [Matrix.mul_apply, Fin.sum_univ_four, Matrix.vecHead, Matrix.vecTail] <;> linear_combination 0 * h0
  · simp [Matrix.mul_apply, Fin.sum_univ_four, Matrix.vecHead, Matrix.vecTail] <;> linear_combination (-i^2*s^2) * h1 + (-s^2) * h2
  · simp [Matrix.mul_apply, Fin.sum_univ_four, Matrix.vecHead, Matrix.vecTail] <;> linear_combination 0 * h0
  · simp [Matrix.mul_apply, Fin.sum_univ_four, Matrix.vecHead, Matrix.vecTail] <;> linear_combination 0 * h0
  · simp [Matrix.mul_apply, Fin.sum_univ_four, Matrix.vecHead, Matrix.vecTail] <;> linear_combination 0 * h0
  · simp [Matrix.mul_apply, Fin.sum_univ_four, Matrix.vecHead, Matrix.vecTail] <;> linear_combination 0 * h0
  · simp [Matrix.mul_apply, Fin.sum_univ_four, Matrix.vecHead, Matrix.vecTail] <;> linear_combination (i^2*s^2) * h1 + (s^2) * h2
  · simp [Matrix.mul_apply, Fin.sum_univ_four, Matrix.vecHead, Matrix.vecTail] <;> linear_combination 0 * h0
  · simp [Matrix.mul_apply, Fin.sum_univ_four, Matrix.vecHead, Matrix.vecTail] <;> linear_combination 0 * h0
  · simp [Matrix.mul_apply, Fin.sum_univ_four, Matrix.vecHead, Matrix.vecTail] <;> linear_combination 0 * h0
  · simp [Matrix.mul_apply, Fin.sum_univ_four, Matrix.vecHead, Matrix.vecTail] <;> linear_combination 0 * h0
  · simp [Matrix.mul_apply, Fin.sum_univ_four, Matrix.vecHead, Matrix.vecTail] <;> linear_combination (-i^2*s^2) * h1 + (-s^2) * h2

theorem gen_decomp_Idx_ctr (h0 : c^2 + s^2 = 1) (h1 : e * eb = 1) (h2 : i^2 = -1) :
    (!![c, eb*i*s, 0, 0; e*i*s, c, 0, 0; 0, 0, c, -eb*i*s; 0, 0, -e*i*s, c] : Matrix (Fin 4) (Fin 4) K) * !![0, 0, 1, 0; 0, 0, 0, 1; 1, 0, 0, 0; 0, 1, 0, 0] * !![c, -eb*i*s, 0, 0; -e*i*s, c, 0, 0; 0, 0, c, eb*i*s; 0, 0, e*i*s, c] =
      !![0, 0, c^2 - s^2, 2*c*eb*i*s; 0, 0, 2*c*e*i*s, c^2 - s^2; c^2 - s^2, -2*c*eb*i*s, 0, 0; -2*c*e*i*s, c^2 - s^2, 0, 0] := by
  ext a b; fin_cases a <;> fin_cases b
  · simp [Matrix.mul_apply, Fin.sum_univ_four, Matrix.vecHead, Matrix.vecTail] <;> linear_combination 0 * h0
  · simp [Matrix.mul_apply, Fin.sum_univ_four, Matrix.vecHead, Matrix.vecTail] <;> linear_combination 0 * h0
  · simp [Matrix.mul_apply, Fin.sum_univ_four, Matrix.vecHead, Matrix.vecTail] <;> linear_combination (i^2*s^2) * h1 + (s^2) * h2
  · simp [Matrix.mul_apply, Fin.sum_univ_four, Matrix.vecHead, Matrix.vecTail] <;> linear_combination 0 * h0
  · simp [Matrix.mul_apply, Fin.sum_univ_four, Matrix.vecHead, Matrix.vecTail] <;> linear_combination 0 * h0
  · simp [Matrix.mul_apply, Fin.sum_univ_four, Matrix.vecHead, Matrix.vecTail] <;> linear_combination 0 * h0
  · simp [Matrix.mul_apply, Fin.sum_univ_four, Matrix.vecHead, Matrix.vecTail] <;> linear_combination 0 * h0
  · simp [Matrix.mul_apply, Fin.sum_univ_four, Matrix.vecHead, Matrix.vecTail] <;> linear_combination (i^2*s^2) * h1 + (s^2) * h2
  · simp [Matrix.mul_apply, Fin.sum_univ_four, Matrix.vecHead, Matrix.vecTail] <;> linear_combination (i^2*s^2) * h1 + (s^2) * h2
  · simp [Matrix.mul_apply, Fin.sum_univ_four, Matrix.vecHead, Matrix.vecTail] <;> linear_combination 0 * h0
  · simp [Matrix.mul_apply, Fin.sum_univ_four, Matrix.vecHead, Matrix.vecTail] <;> linear_combination 0 * h0
  · simp [Matrix.mul_apply, Fin.sum_univ_four, Matrix.vecHead, Matrix.vecTail] <;> linear_combination 0 * h0
  · simp [Matrix.mul_apply, Fin.sum_univ_four, Matrix.vecHead, Matrix.vecTail] <;> linear_combination 0 * h0
  · simp [Matrix.mul_apply, Fin.sum_univ_four, Matrix.vecHead, Matrix.vecTail] <;> linear_combination (i^2*s^2) * h1 + (s^2) * h2
  · simp [Matrix.mul_apply, Fin.sum_univ_four, Matrix.vecHead, Matrix.vecTail] <;> linear_combination 0 * h0
  · simp [Matrix.mul_apply, Fin.sum_univ_four, Matrix.vecHead, Matrix.vecTail] <;> linear_combination 0 * h0

theorem gen_decomp_Idy_ctr (h0 : c^2 + s^2 = 1) (h1 : e * eb = 1) (h2 : i^2 = -1) :
    (!![c, eb*i*s, 0, 0; e*i*s, c, 0, 0; 0, 0, c, -eb*i*s; 0, 0, -e*i*s, c] : Matrix (Fin 4) (Fin 4) K) * !![0, 0, -i, 0; 0, 0, 0, -i; i, 0, 0, 0; 0, i, 0, 0] * !![c, -eb*i*s, 0, 0; -e*i*s, c, 0, 0; 0, 0, c, eb*i*s; 0, 0, e*i*s, c] =
      !![0, 0, -i*(c^2 - s^2), 2*c*eb*s; 0, 0, 2*c*e*s, -i*(c^2 - s^2); i*(c^2 - s^2), 2*c*eb*s, 0, 0; 2*c*e*s, i*(c^2 - s^2), 0, 0] := by
  ext a b; fin_cases a <;> fin_cases b
  · simp [Matrix.mul_apply, Fin.sum_univ_four, Matrix.vecHead, Matrix.vecTail] <;> linear_combination 0 * h0
  · simp [Matrix.mul_apply, Fin.sum_univ_four, Matrix.vecHead, Matrix.vecTail] <;> linear_combination 0 * h0
  · simp [Matrix.mul_apply, Fin.sum_univ_four, Matrix.vecHead, Matrix.vecTail] <;> linear_combination (-i^3*s^2) * h1 + (-i*s^2) * h2
  · simp [Matrix.mul_apply, Fin.sum_univ_four, Matrix.vecHead, Matrix.vecTail] <;> linear_combination (-2*c*eb*s) * h2
  · simp [Matrix.mul_apply, Fin.sum_univ_four, Matrix.vecHead, Matrix.vecTail] <;> linear_combination 0 * h0
  · simp [Matrix.mul_apply, Fin.sum_univ_four, Matrix.vecHead, Matrix.vecTail] <;> linear_combination 0 * h0
  · simp [Matrix.mul_apply, Fin.sum_univ_four, Matrix.vecHead, Matrix.vecTail] <;> linear_combination (-2*c*e*s) * h2
  · simp [Matrix.mul_apply, Fin.sum_univ_four, Matrix.vecHead, Matrix.vecTail] <;> linear_combination (-i^3*s^2) * h1 + (-i*s^2) * h2
  · simp [Matrix.mul_apply, Fin.sum_univ_four, Matrix.vecHead, Matrix.vecTail] <;> linear_combination (i^3*s^2) * h1 + (i*s^2) * h2
  · simp [Matrix.mul_apply, Fin.sum_univ_four, Matrix.vecHead, Matrix.vecTail] <;> linear_combination (-2*c*eb*s) * h2
  · simp [Matrix.mul_apply, Fin.sum_univ_four, Matrix.vecHead, Matrix.vecTail] <;> linear_combination 0 * h0
  · simp [Matrix.mul_apply, Fin.sum_univ_four, Matrix.vecHead, Matrix.vecTail] <;> linear_combination 0 * h0
  · simp [Matrix.mul_apply, Fin.sum_univ_four, Matrix.vecHead, Matrix.vecTail] <;> linear_combination (-2*c*e*s) * h2
  · simp [Matrix.mul_apply, Fin.sum_univ_four, Matrix.vecHead, Matrix.vecTail] <;> linear_combination (i^3*s^2) * h1 + (i*s^2) * h2
  · simp [Matrix.mul_apply, Fin.sum_univ_four, Matrix.vecHead, Matrix.vecTail] <;> linear_combination 0 * h0
  · simp [Matrix.mul_apply, Fin.sum_univ_four, Matrix.vecHead, Matrix.vecTail] <;> linear_combination 0 * h0

theorem gen_decomp_Idz_ctr (h0 : c^2 + s^2 = 1) (h1 : e * eb = 1) (h2 : i^2 = -1) :
    (!![c, eb*i*s, 0, 0; e*i*s, c, 0, 0; 0, 0, c, -eb*i*s; 0, 0, -e*i*s, c] : Matrix (Fin 4) (Fin 4) K) * !![1, 0, 0, 0; 0, 1, 0, 0; 0, 0, -1, 0; 0, 0, 0, -1] * !![c, -eb*i*s, 0, 0; -e*i*s, c, 0, 0; 0, 0, c, eb*i*s; 0, 0, e*i*s, c] =
      !![1, 0, 0, 0; 0, 1, 0, 0; 0, 0, -1, 0; 0, 0, 0, -1] := by
  ext a b; fin_cases a <;> fin_cases b
  · simp [Matrix.mul_apply, Fin.sum_univ_four, Matrix.vecHead, Matrix.vecTail] <;> linear_combination (1) * h0 + (-i^2*s^2) * h1 + (-s^2) * h2
  · simp [Matrix.mul_apply, Fin.sum_univ_four, Matrix.vecHead, Matrix.vecTail] <;> linear_combination 0 * h0
  · simp [Matrix.mul_apply, Fin.sum_univ_four, Matrix.vecHead, Matrix.vecTail] <;> linear_combination 0 * h0
  · simp [Matrix.mul_apply, Fin.sum_univ_four, Matrix.vecHead, Matrix.vecTail] <;> linear_combination 0 * h0
  · simp [Matrix.mul_apply, Fin.sum_univ_four, Matrix.vecHead, Matrix.vecTail] <;> linear_combination 0 * h0
  · simp [Matrix.mul_apply, Fin.sum_univ_four, Matrix.vecHead, Matrix.vecTail] <;> linear_combination (1) * h0 + (-i^2*s^2) * h1 + (-s^2) * h2
  · simp [Matrix.mul_apply, Fin.sum_univ_four, Matrix.vecHead, Matrix.vecTail] <;> linear_combination 0 * h0
  · simp [Matrix.mul_apply, Fin.sum_univ_four, Matrix.vecHead, Matrix.vecTail] <;> linear_combination 0 * h0
  · simp [Matrix.mul_apply, Fin.sum_univ_four, Matrix.vecHead, Matrix.vecTail] <;> linear_combination 0 * h0
  · simp [Matrix.mul_apply, Fin.sum_univ_four, Matrix.vecHead, Matrix.vecTail] <;> linear_combination 0 * h0
  · simp [Matrix.mul_apply, Fin.sum_univ_four, Matrix.vecHead, Matrix.vecTail] <;> linear_combination (-1) * h0 + (i^2*s^2) * h1 + (s^2) * h2
  · simp [Matrix.mul_apply, Fin.sum_univ_four, Matrix.vecHead, Matrix.vecTail] <;> linear_combination 0 * h0
  · simp [Matrix.mul_apply, Fin.sum_univ_four, Matrix.vecHead, Matrix.vecTail] <;> linear_combination 0 * h0
  · simp [Matrix.mul_apply, Fin.sum_univ_four, Matrix.vecHead, Matrix.vecTail] <;> linear_combination 0 * h0
  · simp [Matrix.mul_apply, Fin.sum_univ_four, Matrix.vecHead, Matrix.vecTail] <;> linear_combination 0 * h0
  · simp [Matrix.mul_apply, Fin.sum_univ_four, Matrix.vecHead, Matrix.vecTail] <;> linear_combination (-1) * h0 + (i^2*s^2) * h1 + (s^2) * h2

theorem gen_decomp_Idx_trg (h0 : c^2 + s^2 = 1) (h1 : e * eb = 1) (h2 : i^2 = -1) :
    (!![c, eb*i*s, 0, 0; e*i*s, c, 0, 0; 0, 0, c, -eb*i*s; 0, 0, -e*i*s, c] : Matrix (Fin 4) (Fin 4) K) * !![0, 1, 0, 0; 1, 0, 0, 0; 0, 0, 0, 1; 0, 0, 1, 0] * !![c, -eb*i*s, 0, 0; -e*i*s, c, 0, 0; 0, 0, c, eb*i*s; 0, 0, e*i*s, c] =
      !![-c*i*s*(e - eb), s^2*(eb^2 - 1) + 1, 0, 0; s^2*(e^2 - 1) + 1, c*i*s*(e - eb), 0, 0; 0, 0, c*i*s*(e - eb), s^2*(eb^2 - 1) + 1; 0, 0, s^2*(e^2 - 1) + 1, -c*i*s*(e - eb)] := by
  ext a b; fin_cases a <;> fin_cases b
  · simp [Matrix.mul_apply, Fin.sum_univ_four, Matrix.vecHead, Matrix.vecTail] <;> linear_combination 0 * h0
  · simp [Matrix.mul_apply, Fin.sum_univ_four, Matrix.vecHead, Matrix.vecTail] <;> linear_combination (1) * h0 + (-eb^2*s^2) * h2
  · simp [Matrix.mul_apply, Fin.sum_univ_four, Matrix.vecHead, Matrix.vecTail] <;> linear_combination 0 * h0
  · simp [Matrix.mul_apply, Fin.sum_univ_four, Matrix.vecHead, Matrix.vecTail] <;> linear_combination 0 * h0
  · simp [Matrix.mul_apply, Fin.sum_univ_four, Matrix.vecHead, Matrix.vecTail] <;> linear_combination (1) * h0 + (-e^2*s^2) * h2
  · simp [Matrix.mul_apply, Fin.sum_univ_four, Matrix.vecHead, Matrix.vecTail] <;> linear_combination 0 * h0
  · simp [Matrix.mul_apply, Fin.sum_univ_four, Matrix.vecHead, Matrix.vecTail] <;> linear_combination 0 * h0
  · simp [Matrix.mul_apply, Fin.sum_univ_four, Matrix.vecHead, Matrix.vecTail] <;> linear_combination 0 * h0
  · simp [Matrix.mul_apply, Fin.sum_univ_four, Matrix.vecHead, Matrix.vecTail] <;> linear_combination 0 * h0
  · simp [Matrix.mul_apply, Fin.sum_univ_four, Matrix.vecHead, Matrix.vecTail] <;> linear_combination 0 * h0
  · simp [Matrix.mul_apply, Fin.sum_univ_four, Matrix.vecHead, Matrix.vecTail] <;> linear_combination 0 * h0
  · simp [Matrix.mul_apply, Fin.sum_univ_four, Matrix.vecHead, Matrix.vecTail] <;> linear_combination (1) * h0 + (-eb^2*s^2) * h2
  · simp [Matrix.mul_apply, Fin.sum_univ_four, Matrix.vecHead, Matrix.vecTail] <;> linear_combination 0 * h0
  · simp [Matrix.mul_apply, Fin.sum_univ_four, Matrix.vecHead, Matrix.vecTail] <;> linear_combination 0 * h0
  · simp [Matrix.mul_apply, Fin.sum_univ_four, Matrix.vecHead, Matrix.vecTail] <;> linear_combination (1) * h0 + (-e^2*s^2) * h2
  · simp [Matrix.mul_apply, Fin.sum_univ_four, Matrix.vecHead, Matrix.vecTail] <;> linear_combination 0 * h0

theorem gen_decomp_Idy_trg (h0 : c^2 + s^2 = 1) (h1 : e * eb = 1) (h2 : i^2 = -1) :
    (!![c, eb*i*s, 0, 0; e*i*s, c, 0, 0; 0, 0, c, -eb*i*s; 0, 0, -e*i*s, c] : Matrix (Fin 4) (Fin 4) K) * !![0, -i, 0, 0; i, 0, 0, 0; 0, 0, 0, -i; 0, 0, i, 0] * !![c, -eb*i*s, 0, 0; -e*i*s, c, 0, 0; 0, 0, c, eb*i*s; 0, 0, e*i*s, c] =
      !![-2*c*s*(e/2 + eb/2), i*s^2*(eb^2 + 1) - i, 0, 0; -i*s^2*(e^2 + 1) + i, 2*c*s*(e/2 + eb/2), 0, 0; 0, 0, 2*c*s*(e/2 + eb/2), i*s^2*(eb^2 + 1) - i; 0, 0, -i*s^2*(e^2 + 1) + i, -2*c*s*(e/2 + eb/2)] := by
  ext a b; fin_cases a <;> fin_cases b
  · simp [Matrix.mul_apply, Fin.sum_univ_four, Matrix.vecHead, Matrix.vecTail] <;> linear_combination (c*e*s + c*eb*s) * h2
  · simp [Matrix.mul_apply, Fin.sum_univ_four, Matrix.vecHead, Matrix.vecTail] <;> linear_combination (-i) * h0 + (-eb^2*i*s^2) * h2
  · simp [Matrix.mul_apply, Fin.sum_univ_four, Matrix.vecHead, Matrix.vecTail] <;> linear_combination 0 * h0
  · simp [Matrix.mul_apply, Fin.sum_univ_four, Matrix.vecHead, Matrix.vecTail] <;> linear_combination 0 * h0
  · simp [Matrix.mul_apply, Fin.sum_univ_four, Matrix.vecHead, Matrix.vecTail] <;> linear_combination (i) * h0 + (e^2*i*s^2) * h2
  · simp [Matrix.mul_apply, Fin.sum_univ_four, Matrix.vecHead, Matrix.vecTail] <;> linear_combination (-c*e*s - c*eb*s) * h2
  · simp [Matrix.mul_apply, Fin.sum_univ_four, Matrix.vecHead, Matrix.vecTail] <;> linear_combination 0 * h0
  · simp [Matrix.mul_apply, Fin.sum_univ_four, Matrix.vecHead, Matrix.vecTail] <;> linear_combination 0 * h0
  · simp [Matrix.mul_apply, Fin.sum_univ_four, Matrix.vecHead, Matrix.vecTail] <;> linear_combination 0 * h0
  · simp [Matrix.mul_apply, Fin.sum_univ_four, Matrix.vecHead, Matrix.vecTail] <;> linear_combination 0 * h0
  · simp [Matrix.mul_apply, Fin.sum_univ_four, Matrix.vecHead, Matrix.vecTail] <;> linear_combination (-c*e*s - c*eb*s) * h2
  · simp [Matrix.mul_apply, Fin.sum_univ_four, Matrix.vecHead, Matrix.vecTail] <;> linear_combination (-i) * h0 + (-eb^2*i*s^2) * h2
  · simp [Matrix.mul_apply, Fin.sum_univ_four, Matrix.vecHead, Matrix.vecTail] <;> linear_combination 0 * h0
  · simp [Matrix.mul_apply, Fin.sum_univ_four, Matrix.vecHead, Matrix.vecTail] <;> linear_combination 0 * h0
  · simp [Matrix.mul_apply, Fin.sum_univ_four, Matrix.vecHead, Matrix.vecTail] <;> linear_combination (i) * h0 + (e^2*i*s^2) * h2
  · simp [Matrix.mul_apply, Fin.sum_univ_four, Matrix.vecHead, Matrix.vecTail] <;> linear_combination (c*e*s + c*eb*s) * h2

theorem gen_decomp_Idz_trg (h0 : c^2 + s^2 = 1) (h1 : e * eb = 1) (h2 : i^2 = -1) :
    (!![c, eb*i*s, 0, 0; e*i*s, c, 0, 0; 0, 0, c, -eb*i*s; 0, 0, -e*i*s, c] : Matrix (Fin 4) (Fin 4) K) * !![1, 0, 0, 0; 0, -1, 0, 0; 0, 0, 1, 0; 0, 0, 0, -1] * !![c, -eb*i*s, 0, 0; -e*i*s, c, 0, 0; 0, 0, c, eb*i*s; 0, 0, e*i*s, c] =
      !![c^2 - s^2, -2*c*eb*i*s, 0, 0; 2*c*e*i*s, -c^2 + s^2, 0, 0; 0, 0, c^2 - s^2, 2*c*eb*i*s; 0, 0, -2*c*e*i*s, -c^2 + s^2] := by
  ext a b; fin_cases a <;> fin_cases b
  · simp [Matrix.mul_apply, Fin.sum_univ_four, Matrix.vecHead, Matrix.vecTail] <;> linear_combination (i^2*s^2) * h1 + (s^2) * h2
  · simp [Matrix.mul_apply, Fin.sum_univ_four, Matrix.vecHead, Matrix.vecTail] <;> linear_combination 0 * h0
  · simp [Matrix.mul_apply, Fin.sum_univ_four, Matrix.vecHead, Matrix.vecTail] <;> linear_combination 0 * h0
  · simp [Matrix.mul_apply, Fin.sum_univ_four, Matrix.vecHead, Matrix.vecTail] <;> linear_combination 0 * h0
  · simp [Matrix.mul_apply, Fin.sum_univ_four, Matrix.vecHead, Matrix.vecTail] <;> linear_combination 0 * h0
  · simp [Matrix.mul_apply, Fin.sum_univ_four, Matrix.vecHead, Matrix.vecTail] <;> linear_combination (-i^2*s^2) * h1 + (-s^2) * h2
  · simp [Matrix.mul_apply, Fin.sum_univ_four, Matrix.vecHead, Matrix.vecTail] <;> linear_combination 0 * h0
  · simp [Matrix.mul_apply, Fin.sum_univ_four, Matrix.vecHead, Matrix.vecTail] <;> linear_combination 0 * h0
  · simp [Matrix.mul_apply, Fin.sum_univ_four, Matrix.vecHead, Matrix.vecTail] <;> linear_combination 0 * h0
  · simp [Matrix.mul_apply, Fin.sum_univ_four, Matrix.vecHead, Matrix.vecTail] <;> linear_combination 0 * h0
  · simp [Matrix.mul_apply, Fin.sum_univ_four, Matrix.vecHead, Matrix.vecTail] <;> linear_combination (i^2*s^2) * h1 + (s^2) * h2
  · simp [Matrix.mul_apply, Fin.sum_univ_four, Matrix.vecHead, Matrix.vecTail] <;> linear_combination 0 * h0
  · simp [Matrix.mul_apply, Fin.sum_univ_four, Matrix.vecHead, Matrix.vecTail] <;> linear_combination 0 * h0
  · simp [Matrix.mul_apply, Fin.sum_univ_four, Matrix.vecHead, Matrix.vecTail] <;> linear_combination 0 * h0
  · simp [Matrix.mul_apply, Fin.sum_univ_four, Matrix.vecHead, Matrix.vecTail] <;> linear_combination 0 * h0
  · simp [Matrix.mul_apply, Fin.sum_univ_four, Matrix.vecHead, Matrix.vecTail] <;> linear_combination (-i^2*s^2) * h1 + (-s^2) * h2

