import Mathlib.Probability.Distributions.Gaussian.Real
import Mathlib.Probability.CDF
import Mathlib.MeasureTheory.Integral.IntervalIntegral.Basic
open MeasureTheory ProbabilityTheory Set Real
open scoped NNReal ENNReal

variable (μ : ℝ) (v : ℝ≥0)

/-- `scipy.stats.norm.cdf(x, loc, scale)` with `v = scale²` -/
noncomputable def Φ (x : ℝ) : ℝ := cdf (gaussianReal μ v) x
/-- `scipy.stats.norm.pdf(x, loc, scale)` -/
noncomputable def φ (x : ℝ) : ℝ := gaussianPDFReal μ v x

/-- cdf differences are integrals of the pdf -/
theorem Φ_sub (hv : v ≠ 0) {a b : ℝ} (hab : a ≤ b) :
    Φ μ v b - Φ μ v a = ∫ x in a..b, φ μ v x := by
  unfold Φ φ
  rw [cdf_eq_real, cdf_eq_real, intervalIntegral.integral_of_le hab]
  have hIoc : Iic b \ Iic a = Ioc a b := by
    ext x; simp [and_comm]
  have hsub : (gaussianReal μ v).real (Iic b) - (gaussianReal μ v).real (Iic a)
      = (gaussianReal μ v).real (Ioc a b) := by
    rw [← hIoc, measureReal_diff (Iic_subset_Iic.mpr hab) measurableSet_Iic]
  rw [hsub, Measure.real, gaussianReal_apply_eq_integral μ hv,
    ENNReal.toReal_ofReal (setIntegral_nonneg measurableSet_Ioc fun x _ => gaussianPDFReal_nonneg μ v x)]

/-- the normalisation constant `cdf(1) - cdf(0)` is positive for every positive scale -/
theorem Z_pos (hv : v ≠ 0) : 0 < Φ μ v 1 - Φ μ v 0 := by
  rw [Φ_sub μ v hv zero_le_one]
  apply intervalIntegral.intervalIntegral_pos_of_pos_on
  · exact (integrable_gaussianPDFReal μ v).intervalIntegrable
  · intro x _; exact gaussianPDFReal_pos μ v x hv
  · exact zero_lt_one

/-- waveform `_gaussian_pulse` and parametrisation `_gaussian_parametrization` -/
noncomputable def wave (x : ℝ) : ℝ := φ μ v x / (Φ μ v 1 - Φ μ v 0)
noncomputable def param (x : ℝ) : ℝ := (Φ μ v x - Φ μ v 0) / (Φ μ v 1 - Φ μ v 0)

theorem wave_nonneg (hv : v ≠ 0) (x : ℝ) : 0 ≤ wave μ v x :=
  div_nonneg (gaussianPDFReal_nonneg μ v x) (Z_pos μ v hv).le

theorem param_is_running_integral (hv : v ≠ 0) {x : ℝ} (hx : 0 ≤ x) :
    param μ v x = ∫ t in (0:ℝ)..x, wave μ v t := by
  unfold param wave
  rw [intervalIntegral.integral_div, Φ_sub μ v hv hx]

theorem wave_integral_one (hv : v ≠ 0) : ∫ t in (0:ℝ)..1, wave μ v t = 1 := by
  rw [← param_is_running_integral μ v hv zero_le_one]
  unfold param; exact div_self (Z_pos μ v hv).ne'

theorem param_zero : param μ v 0 = 0 := by simp [param]
theorem param_one (hv : v ≠ 0) : param μ v 1 = 1 := by
  unfold param; exact div_self (Z_pos μ v hv).ne'
theorem param_mono (hv : v ≠ 0) : Monotone (param μ v) := by
  intro x y hxy
  unfold param
  apply div_le_div_of_nonneg_right _ (Z_pos μ v hv).le
  have := (monotone_cdf (gaussianReal μ v)) hxy
  unfold Φ; linarith

#print axioms wave_integral_one
#print axioms param_mono
