import Mathlib.Analysis.SpecialFunctions.Sqrt
import Mathlib.Analysis.SpecialFunctions.Pow.Real
import Mathlib.Analysis.InnerProductSpace.PiL2
import Mathlib.Tactic
open Finset Real

variable {N : ℕ}

/-- the library's formula: (1/√2)·√(Σ (√q_i − √p_i)²) -/
noncomputable def hellinger (p q : Fin N → ℝ) : ℝ :=
  (1 / √2) * √(∑ i, (√(q i) - √(p i)) ^ 2)

structure IsDist (p : Fin N → ℝ) : Prop where
  nonneg : ∀ i, 0 ≤ p i
  sum_one : ∑ i, p i = 1

theorem sum_sq_expand (p q : Fin N → ℝ) (hp : IsDist p) (hq : IsDist q) :
    ∑ i, (√(q i) - √(p i)) ^ 2 = 2 - 2 * ∑ i, √(p i * q i) := by
  have : ∀ i, (√(q i) - √(p i)) ^ 2 = q i + p i - 2 * √(p i * q i) := by
    intro i
    rw [sqrt_mul (hp.nonneg i), sub_sq, sq_sqrt (hq.nonneg i), sq_sqrt (hp.nonneg i)]; ring
  simp_rw [this, sum_sub_distrib, sum_add_distrib, hp.sum_one, hq.sum_one, ← mul_sum]; ring

theorem hellinger_sq (p q : Fin N → ℝ) (hp : IsDist p) (hq : IsDist q) :
    hellinger p q ^ 2 = 1 - ∑ i, √(p i * q i) := by
  unfold hellinger
  rw [mul_pow, sq_sqrt (sum_nonneg fun i _ => sq_nonneg _), sum_sq_expand p q hp hq]
  rw [div_pow, one_pow, sq_sqrt (by norm_num : (0:ℝ) ≤ 2)]; ring

theorem hellinger_nonneg (p q : Fin N → ℝ) : 0 ≤ hellinger p q := by
  unfold hellinger; positivity

theorem hellinger_symm (p q : Fin N → ℝ) : hellinger p q = hellinger q p := by
  unfold hellinger; congr 2; refine sum_congr rfl fun i _ => ?_; ring

theorem hellinger_le_one (p q : Fin N → ℝ) (hp : IsDist p) (hq : IsDist q) : hellinger p q ≤ 1 := by
  have h := hellinger_sq p q hp hq
  have h0 : 0 ≤ ∑ i, √(p i * q i) := sum_nonneg fun i _ => sqrt_nonneg _
  have : hellinger p q ^ 2 ≤ 1 := by rw [h]; linarith
  nlinarith [hellinger_nonneg p q]

theorem hellinger_eq_zero_iff (p q : Fin N → ℝ) (hp : IsDist p) (hq : IsDist q) :
    hellinger p q = 0 ↔ p = q := by
  constructor
  · intro h
    unfold hellinger at h
    have h2 : √(∑ i, (√(q i) - √(p i)) ^ 2) = 0 := by
      rcases mul_eq_zero.mp h with h | h
      · exfalso; have : (0:ℝ) < 1 / √2 := by positivity
        linarith
      · exact h
    rw [sqrt_eq_zero (sum_nonneg fun i _ => sq_nonneg _)] at h2
    have h3 := (sum_eq_zero_iff_of_nonneg (fun i _ => sq_nonneg _)).mp h2
    funext i
    have := h3 i (mem_univ i)
    have h4 : √(q i) = √(p i) := by nlinarith [this]
    have := congrArg (· ^ 2) h4
    simp only [sq_sqrt (hq.nonneg i), sq_sqrt (hp.nonneg i)] at this
    exact this.symm
  · rintro rfl; simp [hellinger]

theorem hellinger_eq_one_iff (p q : Fin N → ℝ) (hp : IsDist p) (hq : IsDist q) :
    hellinger p q = 1 ↔ ∀ i, p i * q i = 0 := by
  have hsq := hellinger_sq p q hp hq
  have hnn := hellinger_nonneg p q
  constructor
  · intro h
    rw [h] at hsq
    have hs : ∑ i, √(p i * q i) = 0 := by linarith
    have := (sum_eq_zero_iff_of_nonneg (fun i _ => sqrt_nonneg _)).mp hs
    intro i
    have hi := this i (mem_univ i)
    exact (sqrt_eq_zero (mul_nonneg (hp.nonneg i) (hq.nonneg i))).mp hi
  · intro h
    have hs : ∑ i, √(p i * q i) = 0 := by
      apply sum_eq_zero; intro i _; rw [h i, sqrt_zero]
    rw [hs] at hsq
    nlinarith [hsq, hnn]

/-- triangle inequality: `hellinger` is (1/√2) × Euclidean distance of the square-root vectors -/
theorem hellinger_triangle (p q r : Fin N → ℝ) :
    hellinger p r ≤ hellinger p q + hellinger q r := by
  let v : (Fin N → ℝ) → EuclideanSpace ℝ (Fin N) := fun p => (WithLp.equiv 2 _).symm (fun i => √(p i))
  have key : ∀ a b : Fin N → ℝ, hellinger a b = (1 / √2) * dist (v b) (v a) := by
    intro a b
    unfold hellinger
    rw [EuclideanSpace.dist_eq]
    simp [v, Real.dist_eq, sq_abs]
  rw [key, key, key, ← mul_add]
  apply mul_le_mul_of_nonneg_left _ (by positivity)
  calc dist (v r) (v p) ≤ dist (v r) (v q) + dist (v q) (v p) := dist_triangle _ _ _
    _ = dist (v q) (v p) + dist (v r) (v q) := add_comm _ _

#print axioms hellinger_triangle
#print axioms hellinger_eq_one_iff
