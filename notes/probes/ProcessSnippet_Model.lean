-- import-free model of Optimizer.process_snippet / opt_level_2 (probe), faithful to the pinned code
namespace QGP2

inductive Item (M2 M4 : Type) where
  | one (m : M2) (q : Nat)
  | two (m : M4) (q1 q2 : Nat)
deriving Repr

structure MatOps (M2 M4 : Type) where
  one2 : M2
  mul2 : M2 → M2 → M2
  one4 : M4
  mul4 : M4 → M4 → M4      -- mul4 B A = B @ A
  kron : M2 → M2 → M4

variable {M2 M4 : Type}

/-- a one-qubit item as (matrix, qubit) -/
structure G1 (M2 : Type) where
  m : M2
  q : Nat

def G1.item (g : G1 M2) : Item M2 M4 := .one g.m g.q

/-- A snippet as `opt_level_2` builds it: one-qubit gates, the two-qubit gate, ≤ 2 one-qubit gates. -/
structure Snippet (M2 M4 : Type) where
  before : List (G1 M2)
  g : M4
  q1 : Nat
  q2 : Nat
  after : List (G1 M2)     -- length ≤ 2

/-- before-section: returns (items kept in front, fused two-qubit matrix) -/
def beforePart (ops : MatOps M2 M4) (s : Snippet M2 M4) : List (G1 M2) × M4 :=
  match s.before.reverse with
  | b1 :: b2 :: rest =>            -- loc - 2 ≥ 0 ; b1 = snippet[loc-1], b2 = snippet[loc-2]
    if b2.q = s.q1 ∧ b1.q = s.q2 then (rest.reverse, ops.mul4 s.g (ops.kron b2.m b1.m))
    else if b2.q = s.q2 ∧ b1.q = s.q1 then (rest.reverse, ops.mul4 s.g (ops.kron b1.m b2.m))
    else if b1.q = s.q1 then ((b2 :: rest).reverse, ops.mul4 s.g (ops.kron b1.m ops.one2))
    else if b1.q = s.q2 then ((b2 :: rest).reverse, ops.mul4 s.g (ops.kron ops.one2 b1.m))
    else (s.before, s.g)
  | [b1] =>
    if b1.q = s.q1 then ([], ops.mul4 s.g (ops.kron b1.m ops.one2))
    else if b1.q = s.q2 then ([], ops.mul4 s.g (ops.kron ops.one2 b1.m))
    else (s.before, s.g)
  | [] => ([], s.g)

/-- after-section applied to the fused matrix `g'`: returns (new matrix, trailing one-qubit items).
 `prevq` is the qubit of `snippet[loc-1]` as Python evaluates it (negative index wraps). -/
def afterPart (ops : MatOps M2 M4) (s : Snippet M2 M4) (g' : M4) : M4 × List (G1 M2) :=
  match s.after with
  | [a1, a2] =>
    if a2.q = s.q1 ∧ a1.q = s.q2 then (ops.mul4 (ops.kron a2.m a1.m) g', [])
    else if a2.q = s.q2 ∧ a1.q = s.q1 then (ops.mul4 (ops.kron a1.m a2.m) g', [])
    else if a2.q = s.q1 ∧ a1.q ≠ s.q2 then (ops.mul4 (ops.kron a2.m ops.one2) g', [a1])
    else if a2.q = s.q2 ∧ a1.q ≠ s.q1 then (ops.mul4 (ops.kron ops.one2 a2.m) g', [a1])
    else if a1.q = s.q1 then (ops.mul4 (ops.kron a1.m ops.one2) g', [a2])
    else if a1.q = s.q2 then (ops.mul4 (ops.kron ops.one2 a1.m) g', [a2])
    else (g', [a1, a2])
  | [a1] =>
    let prevq : Nat := match s.before.reverse with
      | b1 :: _ => b1.q        -- snippet[loc-1]
      | [] => a1.q             -- loc = 0: snippet[-1] is the last element, i.e. a1 itself
    if a1.q = s.q1 then (ops.mul4 (ops.kron a1.m ops.one2) g', [])
    else if prevq = s.q2 then (ops.mul4 (ops.kron ops.one2 a1.m) g', [])      -- sic: loc-1
    else (g', [a1])
  | _ => (g', s.after)

def processSnippet (ops : MatOps M2 M4) (s : Snippet M2 M4) : List (Item M2 M4) :=
  let (front, g') := beforePart ops s
  let (g'', tail) := afterPart ops s g'
  front.map G1.item ++ [.two g'' s.q1 s.q2] ++ tail.map G1.item

def Snippet.items (s : Snippet M2 M4) : List (Item M2 M4) :=
  s.before.map G1.item ++ [.two s.g s.q1 s.q2] ++ s.after.map G1.item

end QGP2
