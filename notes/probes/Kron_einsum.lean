import Mathlib.Algebra.BigOperators.Intervals
import Mathlib.Algebra.BigOperators.Ring.Finset
import Mathlib.Tactic
open Finset

variable {R : Type} [CommSemiring R]

/-- np.kron on flat indices; `dB` = dimension of `B` -/
def kron (dB : ℕ) (A B : ℕ → ℕ → R) : ℕ → ℕ → R :=
  fun i j => A (i / dB) (j / dB) * B (i % dB) (j % dB)

def mulVec (d : ℕ) (M : ℕ → ℕ → R) (v : ℕ → R) : ℕ → R :=
  fun i => ∑ j ∈ range d, M i j * v j

/-- `oe.contract('ab,cd,bd->ac', A, B, psi.reshape(dA,dB)).reshape(-1)` -/
def einsum2 (dA dB : ℕ) (A B : ℕ → ℕ → R) (v : ℕ → R) : ℕ → R :=
  fun i => ∑ b ∈ range dA, ∑ d ∈ range dB, A (i / dB) b * B (i % dB) d * v (b * dB + d)

theorem sum_range_mul (dA dB : ℕ) (f : ℕ → R) :
    ∑ j ∈ range (dA * dB), f j = ∑ b ∈ range dA, ∑ d ∈ range dB, f (b * dB + d) := by
  induction dA with
  | zero => simp
  | succ n ih =>
    rw [Nat.succ_mul, sum_range_add, ih, sum_range_succ]

theorem einsum2_eq_kron (dA dB : ℕ) (hB : 0 < dB) (A B : ℕ → ℕ → R) (v : ℕ → R) (i : ℕ) :
    einsum2 dA dB A B v i = mulVec (dA * dB) (kron dB A B) v i := by
  unfold einsum2 mulVec kron
  rw [sum_range_mul]
  refine sum_congr rfl fun b _ => sum_congr rfl fun d hd => ?_
  have hd' : d < dB := mem_range.mp hd
  have h1 : (b * dB + d) / dB = b := by
    rw [Nat.add_comm, Nat.add_mul_div_right _ _ hB, Nat.div_eq_of_lt hd', Nat.zero_add]
  have h2 : (b * dB + d) % dB = d := by
    rw [Nat.add_comm, Nat.add_mul_mod_self_right, Nat.mod_eq_of_lt hd']
  rw [h1, h2]

theorem kron_assoc (dB dC : ℕ) (A B C : ℕ → ℕ → R) :
    kron dC (kron dB A B) C = kron (dB * dC) A (kron dC B C) := by
  funext i j
  simp only [kron]
  rw [Nat.div_div_eq_div_mul, Nat.div_div_eq_div_mul, Nat.mul_comm dC dB,
    Nat.mod_mul_left_div_self, Nat.mod_mul_left_div_self,
    Nat.mod_mul_left_mod, Nat.mod_mul_left_mod, mul_assoc]

#print axioms einsum2_eq_kron
#print axioms kron_assoc
