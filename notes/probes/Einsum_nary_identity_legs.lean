import Mathlib.Algebra.BigOperators.Intervals
import Mathlib.Algebra.BigOperators.Ring.Finset
import Mathlib.Tactic
open Finset

variable {R : Type} [CommSemiring R]

def kron (dB : ℕ) (A B : ℕ → ℕ → R) : ℕ → ℕ → R :=
  fun i j => A (i / dB) (j / dB) * B (i % dB) (j % dB)

def mulVec (d : ℕ) (M : ℕ → ℕ → R) (v : ℕ → R) : ℕ → R :=
  fun i => ∑ j ∈ range d, M i j * v j

/-- a leg of the contraction: dimension and matrix (`none` = identity leg left untouched) -/
abbrev Leg (R : Type) := ℕ × Option (ℕ → ℕ → R)

def dims : List (Leg R) → ℕ
  | [] => 1
  | (d, _) :: rest => d * dims rest

def idMat : ℕ → ℕ → R := fun i j => if i = j then 1 else 0

def legMat : Leg R → (ℕ → ℕ → R)
  | (_, some A) => A
  | (_, none) => idMat

def kronList : List (Leg R) → ℕ → ℕ → R
  | [] => fun _ _ => 1
  | l :: rest => kron (dims rest) (legMat l) (kronList rest)

/-- `oe.contract("aA,cC,ABC->aBc", …)` on the row-major reshaped vector, as nested sums -/
def einsumList : List (Leg R) → (ℕ → R) → ℕ → R
  | [], ψ => ψ
  | (d, some A) :: rest, ψ => fun i =>
      ∑ b ∈ range d, A (i / dims rest) b * einsumList rest (fun j => ψ (b * dims rest + j)) (i % dims rest)
  | (_, none) :: rest, ψ => fun i =>
      einsumList rest (fun j => ψ ((i / dims rest) * dims rest + j)) (i % dims rest)

theorem sum_range_mul (dA dB : ℕ) (f : ℕ → R) :
    ∑ j ∈ range (dA * dB), f j = ∑ b ∈ range dA, ∑ d ∈ range dB, f (b * dB + d) := by
  induction dA with
  | zero => simp
  | succ n ih => rw [Nat.succ_mul, sum_range_add, ih, sum_range_succ]

theorem dims_pos (l : List (Leg R)) (h : ∀ x ∈ l, 0 < x.1) : 0 < dims l := by
  induction l with
  | nil => simp [dims]
  | cons x rest ih =>
    simp only [dims]
    exact Nat.mul_pos (h x (by simp)) (ih fun y hy => h y (by simp [hy]))

theorem mulVec_kron (d D : ℕ) (hD : 0 < D) (A K : ℕ → ℕ → R) (ψ : ℕ → R) (i : ℕ) :
    mulVec (d * D) (kron D A K) ψ i =
      ∑ b ∈ range d, A (i / D) b * mulVec D K (fun j => ψ (b * D + j)) (i % D) := by
  unfold mulVec kron
  rw [sum_range_mul]
  refine sum_congr rfl fun b _ => ?_
  rw [mul_sum]
  refine sum_congr rfl fun c hc => ?_
  have hc' : c < D := mem_range.mp hc
  have h1 : (b * D + c) / D = b := by
    rw [Nat.add_comm, Nat.add_mul_div_right _ _ hD, Nat.div_eq_of_lt hc', Nat.zero_add]
  have h2 : (b * D + c) % D = c := by
    rw [Nat.add_comm, Nat.add_mul_mod_self_right, Nat.mod_eq_of_lt hc']
  rw [h1, h2]; ring

/-- the contraction (with identity legs skipped) is the Kronecker product applied -/
theorem einsumList_eq (l : List (Leg R)) (hpos : ∀ x ∈ l, 0 < x.1) (ψ : ℕ → R) (i : ℕ)
    (hi : i < dims l) : einsumList l ψ i = mulVec (dims l) (kronList l) ψ i := by
  induction l generalizing ψ i with
  | nil =>
    have : i = 0 := by simpa [dims] using hi
    subst this; simp [einsumList, mulVec, kronList, dims]
  | cons x rest ih =>
    obtain ⟨d, oA⟩ := x
    have hD : 0 < dims rest := dims_pos rest fun y hy => hpos y (by simp [hy])
    have hmod : i % dims rest < dims rest := Nat.mod_lt _ hD
    have hrest : ∀ y ∈ rest, 0 < y.1 := fun y hy => hpos y (by simp [hy])
    cases oA with
    | some A =>
      simp only [einsumList, kronList, dims, legMat]
      rw [mulVec_kron d (dims rest) hD]
      refine sum_congr rfl fun b _ => ?_
      rw [ih hrest _ _ hmod]
    | none =>
      simp only [einsumList, kronList, dims, legMat]
      rw [mulVec_kron d (dims rest) hD, ih hrest _ _ hmod]
      have hq : i / dims rest < d := by
        rw [Nat.div_lt_iff_lt_mul hD]; simpa [dims] using hi
      rw [sum_eq_single (i / dims rest)]
      · simp [idMat]
      · intro b _ hb; simp [idMat, Ne.symm hb]
      · intro h; exact absurd (mem_range.mpr hq) h

#print axioms einsumList_eq
