import Mathlib.Tactic
import Mathlib.LinearAlgebra.Matrix.Notation
open Matrix
variable {K : Type} [Field K] [CharZero K] (c s e eb i : K)

theorem gen_decomp_Idx (h0 : c^2 + s^2 = 1) (h1 : e * eb = 1) (h2 : i^2 = -1) :
    (!![c, i*s*eb; i*s*e, c] : Matrix (Fin 2) (Fin 2) K) * !![0, 1; 1, 0] * !![c, -i*s*eb; -i*s*e, c] =
      !![-c*i*s*(e - eb), s^2*(eb^2 - 1) + 1; s^2*(e^2 - 1) + 1, c*i*s*(e - eb)] := by
  ext a b; fin_cases a <;> fin_cases b <;>
    simp only [Matrix.mul_apply, Fin.sum_univ_two, Matrix.of_apply, Matrix.cons_val', Matrix.cons_val_zero, Matrix.cons_val_one, Matrix.cons_val_fin_one, Fin.zero_eta, Fin.mk_one, Fin.isValue]
  · linear_combination 0 * h0
  · linear_combination (1) * h0 + (-eb^2*s^2) * h2
  · linear_combination (1) * h0 + (-e^2*s^2) * h2
  · linear_combination 0 * h0

theorem gen_decomp_Idy (h0 : c^2 + s^2 = 1) (h1 : e * eb = 1) (h2 : i^2 = -1) :
    (!![c, i*s*eb; i*s*e, c] : Matrix (Fin 2) (Fin 2) K) * !![0, -i; i, 0] * !![c, -i*s*eb; -i*s*e, c] =
      !![2*c*s*(-e/2 - eb/2), i*s^2*(eb^2 + 1) - i; -i*s^2*(e^2 + 1) + i, 2*c*s*(e/2 + eb/2)] := by
  ext a b; fin_cases a <;> fin_cases b <;>
    simp only [Matrix.mul_apply, Fin.sum_univ_two, Matrix.of_apply, Matrix.cons_val', Matrix.cons_val_zero, Matrix.cons_val_one, Matrix.cons_val_fin_one, Fin.zero_eta, Fin.mk_one, Fin.isValue]
  · linear_combination (c*e*s + c*eb*s) * h2
  · linear_combination (-i) * h0 + (-eb^2*i*s^2) * h2
  · linear_combination (i) * h0 + (e^2*i*s^2) * h2
  · linear_combination (-c*e*s - c*eb*s) * h2

theorem gen_decomp_Idz (h0 : c^2 + s^2 = 1) (h1 : e * eb = 1) (h2 : i^2 = -1) :
    (!![c, i*s*eb; i*s*e, c] : Matrix (Fin 2) (Fin 2) K) * !![1, 0; 0, -1] * !![c, -i*s*eb; -i*s*e, c] =
      !![c^2 - s^2, -2*c*eb*i*s; 2*c*e*i*s, -c^2 + s^2] := by
  ext a b; fin_cases a <;> fin_cases b <;>
    simp only [Matrix.mul_apply, Fin.sum_univ_two, Matrix.of_apply, Matrix.cons_val', Matrix.cons_val_zero, Matrix.cons_val_one, Matrix.cons_val_fin_one, Fin.zero_eta, Fin.mk_one, Fin.isValue]
  · linear_combination (i^2*s^2) * h1 + (s^2) * h2
  · linear_combination 0 * h0
  · linear_combination 0 * h0
  · linear_combination (-i^2*s^2) * h1 + (-s^2) * h2

theorem gen_decomp_Ir (h0 : c^2 + s^2 = 1) (h1 : e * eb = 1) (h2 : i^2 = -1) :
    (!![c, i*s*eb; i*s*e, c] : Matrix (Fin 2) (Fin 2) K) * !![0, 1; 0, 0] * !![c, -i*s*eb; -i*s*e, c] =
      !![-c*e*i*s, 1 - s^2; e^2*s^2, c*e*i*s] := by
  ext a b; fin_cases a <;> fin_cases b <;>
    simp only [Matrix.mul_apply, Fin.sum_univ_two, Matrix.of_apply, Matrix.cons_val', Matrix.cons_val_zero, Matrix.cons_val_one, Matrix.cons_val_fin_one, Fin.zero_eta, Fin.mk_one, Fin.isValue]
  · linear_combination 0 * h0
  · linear_combination (1) * h0
  · linear_combination (-e^2*s^2) * h2
  · linear_combination 0 * h0

theorem gen_decomp_Ip (h0 : c^2 + s^2 = 1) (h1 : e * eb = 1) (h2 : i^2 = -1) :
    (!![c, i*s*eb; i*s*e, c] : Matrix (Fin 2) (Fin 2) K) * !![1, 0; 0, -1] * !![c, -i*s*eb; -i*s*e, c] =
      !![c^2 - s^2, -2*c*eb*i*s; 2*c*e*i*s, -c^2 + s^2] := by
  ext a b; fin_cases a <;> fin_cases b <;>
    simp only [Matrix.mul_apply, Fin.sum_univ_two, Matrix.of_apply, Matrix.cons_val', Matrix.cons_val_zero, Matrix.cons_val_one, Matrix.cons_val_fin_one, Fin.zero_eta, Fin.mk_one, Fin.isValue]
  · linear_combination (i^2*s^2) * h1 + (s^2) * h2
  · linear_combination 0 * h0
  · linear_combination 0 * h0
  · linear_combination (-i^2*s^2) * h1 + (-s^2) * h2

