import numpy as np, sys, warnings, time
sys.path.insert(0,'/repo/src'); warnings.filterwarnings('ignore')
from qiskit import transpile
from qiskit_ibm_runtime.fake_provider import FakeLimaV2, FakeBrisbane, FakeKolkataV2
from qiskit.quantum_info import Statevector
from quantum_gates._simulation.simulator import MrAndersonSimulator
from quantum_gates._simulation.circuit import EfficientCircuit, BinaryCircuit
from quantum_gates._gates.gates import noise_free_gates
from quantum_gates._utility.device_parameters import DeviceParameters
from quantum_gates._utility.quantum_algorithms import ghz_circ, hadamard_reverse_qft_circ, qft_circ
from quantum_gates._utility.simulations_utility import fix_counts
def ideal(circ):
    c=circ.remove_final_measurements(inplace=False)
    p=Statevector(c).probabilities_dict()
    return {k:v for k,v in p.items() if v>1e-12}
for B,layout in [(FakeLimaV2,[0,1,2]),(FakeBrisbane,[0,1,2]),(FakeKolkataV2,[0,1,4])]:
    b=B()
    for gen in [ghz_circ, hadamard_reverse_qft_circ, qft_circ]:
        n=3
        t0=time.time()
        tc=transpile(gen(n), b, initial_layout=layout, scheduling_method='asap', seed_transpiler=42)
        names={}
        for x in tc.data: names[x.operation.name]=names.get(x.operation.name,0)+1
        used=sorted({q._index for x in tc.data for q in x.qubits if x.operation.name not in('delay','barrier')})
        m=max(used)+1
        dp=DeviceParameters(list(range(m))); dp.load_from_backend(b)
        for C in [EfficientCircuit, BinaryCircuit]:
            try:
                sim=MrAndersonSimulator(gates=noise_free_gates, CircuitClass=C)
                r=sim.run(t_qiskit_circ=tc, qubits_layout=used, psi0=np.eye(2**len(used))[0], shots=1, device_param=dp.__dict__(), nqubit=len(used))
                r={k:round(float(v),6) for k,v in r.items() if v>1e-9}
                q=fix_counts(r,len(list(r)[0])); q={k:v for k,v in q.items() if v>1e-9}
                print(B.__name__,gen.__name__,C.__name__,'used',used,names,'->',r if len(r)<5 else f'{len(r)} keys', 'qiskit-order==ideal(untranspiled):', all(abs(q.get(k,0)-v)<1e-6 for k,v in ideal(gen(n)).items()))
            except Exception as e:
                print(B.__name__,gen.__name__,C.__name__,'used',used,'EXC',repr(e)[:120])
