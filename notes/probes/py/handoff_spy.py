import numpy as np, sys, warnings
sys.path.insert(0,'/repo/src'); warnings.filterwarnings('ignore')
from quantum_gates._simulation.circuit import EfficientCircuit, BinaryCircuit, Circuit
class Rec:
    def __init__(s): s.calls=[]
    def __getattr__(s,name):
        def f(*a):
            s.calls.append((name,a)); 
            return np.eye(4) if name in('CNOT','CNOT_inv','ECR','ECR_inv','CR') else np.eye(2)
        return f
for C in [EfficientCircuit, BinaryCircuit]:
    g=Rec(); c=C(2,1,g)
    c.Rz(0,0.1); c.Rz(1,0.2)
    # control = qubit 1 (params tagged 11x), target = qubit 0 (params 10x)
    c.ECR(1,0, 5.0, 0.5, 111,100, 112,113, 102,103)
    print(C.__name__, g.calls[-1], getattr(c,'_info_gates_list',None) and c._info_gates_list[-1][1])
    g=Rec(); c=C(2,1,g); c.Rz(0,0.1); c.Rz(1,0.2)
    c.CNOT(1,0, 5.0, 0.5, 111,100, 112,113, 102,103)
    print(C.__name__, g.calls[-1], getattr(c,'_info_gates_list',None) and c._info_gates_list[-1][1])
