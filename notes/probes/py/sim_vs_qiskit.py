import numpy as np, sys, itertools, traceback
sys.path.insert(0,'/repo/src')
import warnings; warnings.filterwarnings('ignore')
from qiskit import QuantumCircuit
from qiskit.quantum_info import Statevector
from quantum_gates._simulation.simulator import MrAndersonSimulator
from quantum_gates._simulation.circuit import Circuit, StandardCircuit, EfficientCircuit, OneCircuit, BinaryCircuit
from quantum_gates._gates.gates import noise_free_gates
def devparam(n):
    return {"T1":np.full(n,1e-4),"T2":np.full(n,1e-4),"p":np.full(n,1e-4),"rout":np.full(n,1e-2),
            "p_int":np.full((n,n),1e-3),"t_int":np.full((n,n),4e-7),"tm":np.full(n,1e-6),"dt":np.array([2e-10])}
def ideal_probs(circ, meas_qubits):
    c2=circ.remove_final_measurements(inplace=False)
    sv=Statevector(c2)
    p=sv.probabilities_dict()  # little endian keys: rightmost = qubit 0
    out={}
    n=circ.num_qubits
    for k,v in p.items():
        bits={q:k[n-1-q] for q in range(n)}
        key=''.join(bits[q] for q in meas_qubits)
        out[key]=out.get(key,0)+v
    return out
def run(circ, C, n, psi0=None):
    sim=MrAndersonSimulator(gates=noise_free_gates, CircuitClass=C)
    psi0 = psi0 if psi0 is not None else np.eye(2**n)[0]
    return sim.run(t_qiskit_circ=circ, qubits_layout=list(range(n)), psi0=psi0, shots=1, device_param=devparam(n), nqubit=n)
def cmp(a,b):
    ks=set(a)|set(b)
    return max(abs(a.get(k,0)-b.get(k,0)) for k in ks)
rng=np.random.default_rng(1)
def randcirc(n, L, order=None):
    c=QuantumCircuit(n,n)
    order = order if order is not None else list(range(n))
    for q in order:  # touch in given order
        c.rz(float(rng.uniform(-3,3)),q); c.sx(q)
    for _ in range(L):
        r=rng.integers(0,6)
        q=int(rng.integers(0,n))
        if r==0: c.rz(float(rng.uniform(-3,3)),q)
        elif r==1: c.sx(q)
        elif r==2: c.x(q)
        elif r==3 and n>1:
            a=int(rng.integers(0,n-1)); 
            if rng.random()<.5: c.cx(a,a+1)
            else: c.cx(a+1,a)
        elif r==4 and n>1:
            a=int(rng.integers(0,n-1)); 
            if rng.random()<.5: c.ecr(a,a+1)
            else: c.ecr(a+1,a)
        elif r==5: c.delay(10,q)
    for q in range(n): c.measure(q,q)
    return c
for C in [Circuit, StandardCircuit, EfficientCircuit, OneCircuit, BinaryCircuit]:
    worst=0; fails=0; exc=0
    for n in [1,2,3,4]:
        for t in range(15):
            c=randcirc(n,8)
            try:
                got=run(c,C,n)
            except Exception as e:
                exc+=1; last=repr(e)[:200]; continue
            d=cmp(got, ideal_probs(c,list(range(n))))
            worst=max(worst,d); fails+= d>1e-9
    print(C.__name__, 'worst',worst,'fails',fails,'exc',exc, last if exc else '')
# first-touch order
print("first-touch order test")
for C in [EfficientCircuit, BinaryCircuit]:
    c=QuantumCircuit(2,2); c.x(1); c.rz(0.3,0); c.sx(0); c.sx(0); c.rz(1.0,0); c.measure(0,0); c.measure(1,1)
    print(C.__name__, run(c,C,2), ideal_probs(c,[0,1]))
