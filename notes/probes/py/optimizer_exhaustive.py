import numpy as np, itertools, copy, traceback, sys
sys.path.insert(0,'/repo/src')
from quantum_gates._utility.circ_optimizer import Optimizer
from quantum_gates._simulation.backend import BinaryBackend
rng=np.random.default_rng(0)
def rm(d): return rng.integers(-2,3,(d,d))+1j*rng.integers(-2,3,(d,d))
def embed(n, item):
    # reference: operator on n qubits, qubit 0 = MSB
    M, qs = item[0], [q for q in item[1] if q!=-1]
    N=2**n
    U=np.zeros((N,N),dtype=complex)
    for i in range(N):
        for j in range(N):
            bi=[(i>>(n-1-k))&1 for k in range(n)]; bj=[(j>>(n-1-k))&1 for k in range(n)]
            if all(bi[k]==bj[k] for k in range(n) if k not in qs):
                if len(qs)==1:
                    U[i,j]=M[bi[qs[0]],bj[qs[0]]]
                else:
                    U[i,j]=M[2*bi[qs[0]]+bi[qs[1]],2*bj[qs[0]]+bj[qs[1]]]
    return U
def total(n, items):
    U=np.eye(2**n,dtype=complex)
    for it in items: U=embed(n,it)@U
    return U
def patterns(n):
    ps=[[q] for q in range(n)]
    ps+= [[a,b] for a in range(n) for b in range(n) if a!=b]
    return ps
res={}
for n in [2,3]:
  for L in range(1,5 if n==3 else 6):
    for pat in itertools.product(patterns(n),repeat=L):
      items=[[rm(2**len(q)), list(q)] for q in pat]
      ref=total(n,items)
      for lvl in range(0,5):
        try:
            out=Optimizer(lvl, copy.deepcopy(items), list(range(n))).optimize()
            got=total(n,out)
            ok=np.array_equal(got,ref) and len(out)<=len(items)
            key=('wrong' if not np.array_equal(got,ref) else 'longer') if not ok else 'ok'
        except Exception as e:
            key=type(e).__name__
        res.setdefault((n,lvl,key),[]).append(pat)
for k in sorted(res): print(k, len(res[k]), res[k][0] if k[2]!='ok' else '')
