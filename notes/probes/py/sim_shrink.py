import sys; sys.argv=['x']; exec(open('/tmp/exp/sim1.py').read().split("for C in [Circuit, StandardCircuit")[0])
import traceback
def ops_to_circ(n, ops, meas=None):
    c=QuantumCircuit(n,n)
    for o in ops:
        getattr(c,o[0])(*o[1:])
    for k,q in enumerate(meas if meas is not None else range(n)): c.measure(q,k)
    return c
def randops(n,L):
    ops=[]
    for _ in range(L):
        r=rng.integers(0,6); q=int(rng.integers(0,n))
        if r==0: ops.append(('rz',round(float(rng.uniform(-3,3)),2),q))
        elif r==1: ops.append(('sx',q))
        elif r==2: ops.append(('x',q))
        elif r==3 and n>1:
            a=int(rng.integers(0,n-1)); ops.append(('cx',a,a+1) if rng.random()<.5 else ('cx',a+1,a))
        elif r==4 and n>1:
            a=int(rng.integers(0,n-1)); ops.append(('ecr',a,a+1) if rng.random()<.5 else ('ecr',a+1,a))
        elif r==5: ops.append(('delay',10,q))
    return ops
def bad(C,n,ops):
    c=ops_to_circ(n,ops)
    try:
        got=run(c,C,n)
    except ValueError as e:
        return None  # e.g. not all qubits used
    except Exception as e:
        return 'EXC '+repr(e)[:100]
    d=cmp(got, ideal_probs(c,list(range(n))))
    return 'WRONG %.3g'%d if d>1e-9 else None
def shrink(C,n,ops,kind):
    changed=True
    while changed:
        changed=False
        for i in range(len(ops)):
            o2=ops[:i]+ops[i+1:]
            b=bad(C,n,o2)
            if b and b[:3]==kind[:3]:
                ops=o2; changed=True; break
    return ops
seen=set()
for C in [Circuit, StandardCircuit, BinaryCircuit]:
    cnt=0
    for n in [2,3,4]:
        for t in range(40):
            ops=[('sx',q) for q in range(n)]+randops(n,8)
            b=bad(C,n,ops)
            if b:
                s=shrink(C,n,ops,b)
                key=(C.__name__,n,tuple(s))
                if key not in seen:
                    seen.add(key); cnt+=1
                    if cnt<=6: print(C.__name__,n,b,s)
