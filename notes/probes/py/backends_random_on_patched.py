import numpy as np, sys, warnings, random, functools as ft, copy
sys.path.insert(0,'/tmp/scratch/repo/src'); warnings.filterwarnings('ignore')
from quantum_gates._simulation.backend import StandardBackend, EfficientBackend, BackendForOnes, BinaryBackend
R=random.Random(0); rng=np.random.default_rng(0)
def rm(d): return rng.integers(-2,3,(d,d))+1j*rng.integers(-2,3,(d,d))
def layer(n, pid):
    mp=[]; items=[]; q=0
    while q<n:
        if n-q>=2 and R.random()<.35:
            G=rm(4)
            if R.random()<.5: mp+= [G,1]
            else: mp+=[1,G]
            items.append([G,[q,q+1]]); q+=2
        else:
            M=np.eye(2) if R.random()<pid else rm(2)
            mp.append(M); items.append([M,[q]]); q+=1
    return mp,items
def oracle(n,layers,psi):
    for mp in layers: psi=ft.reduce(np.kron,mp)@psi
    return psi
bad={}
cases=0
for trial in range(1500):
    n=R.randint(1,10); L=R.randint(1,3); pid=R.choice([0,0.3,0.8,1.0])
    ls=[layer(n,pid) for _ in range(L)]
    layers=[a for a,b in ls]; items=[x for a,b in ls for x in b]
    psi=rng.integers(-3,4,2**n)+1j*rng.integers(-3,4,2**n)
    psi0=psi.copy()
    ref=oracle(n,layers,psi)
    mn=R.randint(1,4); op=R.randint(mn,5)
    bes={'std':StandardBackend(n),'eff':EfficientBackend(n),'effcfg':EfficientBackend(n,mn,op),'ones':BackendForOnes(n),'bin':BinaryBackend(n)}
    for name,b in bes.items():
        if name=='std' and n>8: continue
        try:
            r=b.statevector(copy.deepcopy(items) if name=='bin' else layers, psi)
            ok=np.array_equal(np.asarray(r,dtype=complex),ref) and np.array_equal(psi,psi0)
            if not ok: bad.setdefault((name,'wrong'),[]).append((n,mn,op))
        except Exception as e:
            bad.setdefault((name,type(e).__name__+':'+str(e)[:60]),[]).append((n,mn,op,[type(x).__name__ if not isinstance(x,np.ndarray) else x.shape[0] for x in layers[0]]))
        cases+=1
print('cases',cases)
for k,v in bad.items(): print(k,len(v),v[:3])
