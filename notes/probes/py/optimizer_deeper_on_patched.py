import numpy as np, itertools, copy, sys, random
sys.path.insert(0,'/tmp/scratch/repo/src')
from quantum_gates._utility.circ_optimizer import Optimizer
from quantum_gates._simulation.backend import BinaryBackend
rng=np.random.default_rng(0); R=random.Random(1)
def rm(d): return rng.integers(-2,3,(d,d))+1j*rng.integers(-2,3,(d,d))
def embed(n, item):
    M, qs = item[0], [q for q in item[1] if q!=-1]
    N=2**n; U=np.zeros((N,N),dtype=complex)
    idx=np.arange(N)
    bits=[(idx>>(n-1-k))&1 for k in range(n)]
    for i in range(N):
        for j in range(N):
            if all(bits[k][i]==bits[k][j] for k in range(n) if k not in qs):
                if len(qs)==1: U[i,j]=M[bits[qs[0]][i],bits[qs[0]][j]]
                else: U[i,j]=M[2*bits[qs[0]][i]+bits[qs[1]][i],2*bits[qs[0]][j]+bits[qs[1]][j]]
    return U
def total(n, items):
    U=np.eye(2**n,dtype=complex)
    for it in items: U=embed(n,it)@U
    return U
def patterns(n): return [[q] for q in range(n)]+[[q,-1] for q in range(n)]*0+[[a,b] for a in range(n) for b in range(n) if a!=b]
bad={}
def check(n,pat,levels=range(5)):
    items=[[rm(2**len([x for x in q if x!=-1])), list(q)] for q in pat]
    ref=total(n,items)
    for lvl in levels:
        try:
            out=Optimizer(lvl, copy.deepcopy(items), list(range(n))).optimize()
            got=total(n,out)
            key=None if (np.array_equal(got,ref) and len(out)<=len(items)) else ('wrong' if not np.array_equal(got,ref) else 'longer')
        except Exception as e: key=type(e).__name__
        if key: bad.setdefault((n,lvl,key),[]).append(pat)
    # backend
    try:
        psi=rng.integers(-3,4,2**n)+0j
        r=BinaryBackend(n).statevector(copy.deepcopy(items),psi)
        if not np.array_equal(r, ref@psi): bad.setdefault((n,'backend','wrong'),[]).append(pat)
    except Exception as e: bad.setdefault((n,'backend',type(e).__name__),[]).append(pat)
cnt=0
for pat in itertools.product(patterns(4),repeat=3): check(4,pat); cnt+=1
for _ in range(3000):
    n=R.randint(1,5); L=R.randint(1,14)
    ps=patterns(n)+[[q,-1] for q in range(n)]
    pat=[R.choice(ps) for _ in range(L)]
    if R.random()<.3: pat+= [[R.randrange(n)]]*R.randint(2,4)      # trailing run
    if R.random()<.2: pat=[p for p in pat if len([x for x in p if x!=-1])==1] or pat  # no 2q
    check(n,pat); cnt+=1
print('cases',cnt)
for k in sorted(bad,key=str): print(k,len(bad[k]),bad[k][0])
