import numpy as np, sys, warnings
sys.path.insert(0,'/repo/src'); warnings.filterwarnings('ignore')
from quantum_gates._utility.quantum_algorithms import hadamard_reverse_qft_circ, ghz_circ, qft_circ
from qiskit.quantum_info import Operator, Statevector
def rev(x,n): return int(format(x,f'0{n}b')[::-1],2)
for n in range(1,7):
    N=2**n
    c=qft_circ(n).remove_final_measurements(inplace=False)
    U=Operator(c).data   # little-endian: index = sum q_k 2^k
    w=np.exp(2j*np.pi/N)
    F=np.array([[w**(x*y) for x in range(N)] for y in range(N)])/np.sqrt(N)   # F[y,x]
    P=np.zeros((N,N)); 
    for x in range(N): P[rev(x,n),x]=1
    cands={'F':F,'P F':P@F,'F P':F@P,'P F P':P@F@P}
    ok=[k for k,M in cands.items() if np.allclose(U,M)]
    s=Statevector(hadamard_reverse_qft_circ(n).remove_final_measurements(inplace=False)).probabilities()
    g=Statevector(ghz_circ(n).remove_final_measurements(inplace=False)).probabilities()
    meas=[(i.qubits[0]._index,i.clbits[0]._index) for i in qft_circ(n).data if i.operation.name=='measure']
    print(n, 'qft =',ok, 'hinvqft p0=%.6f'%s[0], 'ghz',round(g[0],6),round(g[-1],6), 'meas identity', all(a==b for a,b in meas) and len(meas)==n)
