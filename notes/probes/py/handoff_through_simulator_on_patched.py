import numpy as np, sys, warnings, random
sys.path.insert(0,'/tmp/scratch/repo/src'); warnings.filterwarnings('ignore')
from qiskit import QuantumCircuit
from quantum_gates._simulation.simulator import MrAndersonSimulator
from quantum_gates._simulation.circuit import Circuit, StandardCircuit, EfficientCircuit, OneCircuit, BinaryCircuit
CALLS=[]
class Rec:
    def __getattr__(s,name):
        if name.startswith('__'): raise AttributeError(name)
        def f(*a):
            CALLS.append((name,tuple(float(x) for x in a)))
            return np.eye(4) if name in('CNOT','CNOT_inv','ECR','ECR_inv','CR') else np.eye(2)
        return f
    def __deepcopy__(s,memo): return s
def dev(m):
    q=np.arange(m)
    return {"T1":1000.+q,"T2":2000.+q,"p":3000.+q,"rout":4000.+q,"p_int":5000.+10*q[:,None]+q[None,:],"t_int":6000.+10*q[:,None]+q[None,:],"tm":7000.+q,"dt":np.array([0.5])}
R=random.Random(0)
def owner(val):  # which qubit(s) a tagged value belongs to
    v=int(val); base=v//1000*1000; r=v-base
    return (base,(r//10,r%10)) if base in(5000,6000) else (base,(r,))
problems={}
for C in [Circuit, StandardCircuit, EfficientCircuit, OneCircuit, BinaryCircuit]:
    for trial in range(60):
        n=R.randint(2,4)
        labels=list(range(n)) if C is not BinaryCircuit or R.random()<.3 else sorted(R.sample(range(8),n))
        m=max(labels)+1
        c=QuantumCircuit(m,m); ops=[]
        for q in R.sample(labels,n): c.sx(q); ops.append(('sx',(q,)))
        for _ in range(8):
            r=R.randint(0,5); 
            if r==0: q=R.choice(labels); c.rz(R.uniform(-3,3),q)
            elif r==1: q=R.choice(labels); c.x(q); ops.append(('x',(q,)))
            elif r==2: q=R.choice(labels); c.delay(7,q); ops.append(('delay',(q,)))
            else:
                if C is BinaryCircuit: a,b=R.sample(labels,2)
                else:
                    a=R.randrange(n-1); b=a+1
                    if R.random()<.5: a,b=b,a
                (c.cx if r<5 else c.ecr)(a,b); ops.append(('2q',(a,b)))
        for k,q in enumerate(labels): c.measure(q,k)
        CALLS.clear()
        sim=MrAndersonSimulator(gates=Rec(), CircuitClass=C)
        try:
            sim.run(t_qiskit_circ=c, qubits_layout=labels, psi0=np.eye(2**n)[0], shots=1, device_param=dev(m), nqubit=n)
        except Exception as e:
            problems.setdefault((C.__name__,'EXC '+repr(e)[:80]),[]).append(ops); continue
        calls=[x for x in CALLS if x[0] not in('bitflip',)]
        real=[x for x in calls]
        if len(real)!=len(ops): problems.setdefault((C.__name__,'count'),[]).append((ops,real)); continue
        for (kind,qs),(name,args) in zip(ops,real):
            tagged=[a for a in args if a>=1000]
            for a in tagged:
                base,own=owner(a)
                if not set(own)<=set(qs): problems.setdefault((C.__name__,name,'foreign param'),[]).append((qs,args))
            if kind=='2q':
                # reversed factories (slot order): params must follow slot order; forward: ctr/trg order
                ctr,trg=qs
                lo,hi=min(qs),max(qs)
                first,second = (ctr,trg) if name in('CNOT','ECR','CNOT_inv') else (lo,hi)
                exp=(6000+10*ctr+trg, 5000+10*ctr+trg, 3000+first,3000+second,1000+first,2000+first,1000+second,2000+second)
                if tuple(args[2:])!=tuple(float(x) for x in exp): problems.setdefault((C.__name__,name,'order'),[]).append((qs,args))
for k,v in problems.items(): print(k,len(v),v[0])
print('done')
