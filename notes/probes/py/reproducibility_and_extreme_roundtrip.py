import numpy as np, sys, warnings, tempfile, io, contextlib
sys.path.insert(0,'/repo/src'); warnings.filterwarnings('ignore')
from quantum_gates._gates.gates import Gates, standard_gates, numerical_gates, ScaledNoiseGates
from quantum_gates._gates.pulse import GaussianPulse
from quantum_gates._utility.device_parameters import DeviceParameters
gp=Gates(GaussianPulse(0.4,0.3))
def seq(gs):
    out=[]
    out.append(gs.X(0.3,1e-3,1e-4,1.2e-4)); out.append(gs.SX(-1.1,2e-3,2e-4,1e-4))
    out.append(gs.CNOT(0.1,0.2,4e-7,1e-2,1e-3,1e-3,1e-4,1e-4,2e-4,2e-4)); out.append(gs.ECR_inv(0.5,-0.2,5e-7,1e-2,1e-3,1e-3,1e-4,1e-4,2e-4,2e-4))
    out.append(gs.relaxation(1e-7,1e-4,1e-4)); out.append(gs.depolarizing(1e-7,1e-3)); out.append(gs.bitflip(1e-6,1e-2))
    return b''.join(np.asarray(o).tobytes() for o in out)
for name,gs in [('standard',standard_gates),('numerical',numerical_gates),('gaussian',gp),('scaled',ScaledNoiseGates(0.3))]:
    np.random.seed(7); a=seq(gs)
    # disturb history / warm caches
    gs.X(1.0,1e-2,1e-4,1e-4); gs.CNOT(0.4,0.4,3e-7,1e-2,1e-3,1e-3,1e-4,1e-4,2e-4,2e-4)
    np.random.seed(7); b=seq(gs)
    print(name,'bitwise reproducible:', a==b)
# C15 extremes
vals=np.array([5e-324, 2.2250738585072014e-308, 1.7976931348623157e308, -0.0, 1/3, np.inf, -np.inf, np.nan, 1e-17, 123456789.123456789])
n=len(vals)
dp=DeviceParameters(list(range(n)))
dp.T1=vals.copy(); dp.T2=vals[::-1].copy(); dp.p=vals*1; dp.rout=vals*1; dp.tm=vals*1; dp.dt=np.array([vals[4]])
dp.p_int=np.outer(np.ones(n),vals); dp.t_int=np.outer(vals,np.ones(n)); dp.metadata={"x":1}
loc=tempfile.mkdtemp()+'/'
with contextlib.redirect_stdout(io.StringIO()):
    dp.save_to_texts(loc); dp.save_to_json(loc)
a=DeviceParameters(list(range(n))); a.load_from_texts(loc); b=DeviceParameters(list(range(n))); b.load_from_json(loc)
print('texts bytes equal', all(np.asarray(getattr(a,k)).tobytes()==np.asarray(getattr(dp,k),dtype=float).tobytes() for k in ['T1','T2','p','rout','tm','dt','p_int','t_int']), 'eq', a==dp)
print('json  bytes equal', all(np.asarray(getattr(b,k)).tobytes()==np.asarray(getattr(dp,k),dtype=float).tobytes() for k in ['T1','T2','p','rout','tm','dt','p_int','t_int']), 'eq', b==dp)
