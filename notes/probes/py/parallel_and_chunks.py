import numpy as np, sys, warnings, os, io, contextlib
sys.path.insert(0,'/repo/src'); warnings.filterwarnings('ignore')
from qiskit import QuantumCircuit
from quantum_gates._simulation.simulator import MrAndersonSimulator
from quantum_gates._simulation.circuit import EfficientCircuit
from quantum_gates._simulation.backend import EfficientBackend, StandardBackend, BackendForOnes
from quantum_gates._gates.gates import standard_gates
import tempfile
D=tempfile.mkdtemp()
class Spy(EfficientCircuit):
    def statevector(self, psi0):
        r=super().statevector(psi0)
        open(os.path.join(D,f"{os.getpid()}_{np.random.randint(1<<30)}"),'w').write(repr(np.abs(r)**2))
        return r
def devparam(n):
    return {"T1":np.full(n,1e-4),"T2":np.full(n,1e-4),"p":np.full(n,1e-4),"rout":np.full(n,1e-2),
            "p_int":np.full((n,n),1e-2),"t_int":np.full((n,n),4e-7),"tm":np.full(n,1e-6),"dt":np.array([2e-10])}
c=QuantumCircuit(2,2); c.sx(0); c.sx(1); c.cx(0,1); c.measure(0,0); c.measure(1,1)
sim=MrAndersonSimulator(gates=standard_gates, CircuitClass=Spy, parallel=True)
np.random.seed(1)
with contextlib.redirect_stdout(io.StringIO()):
    r=sim.run(t_qiskit_circ=c, qubits_layout=[0,1], psi0=np.eye(4)[0], shots=24, device_param=devparam(2), nqubit=2)
vals=[open(os.path.join(D,f)).read() for f in os.listdir(D)]
print('shots',len(vals),'distinct realisations',len(set(vals)))
# C01 chunk settings
A=np.array([[1,2],[3,4]]); CN=np.eye(4)[[0,1,3,2]]
n=9
mp=[[A]*7+[CN,1]]
psi=np.arange(2**n)*1.0
try:
    r=EfficientBackend(n,min_chunk_size=1,optimal_chunk_size=4).statevector(mp,psi); print('chunk ok')
except Exception as e: print('chunk EXC',repr(e))
r0=EfficientBackend(n).statevector(mp,psi)
# standard backend dtype
r=StandardBackend(2).statevector([[A,A]],np.array([1.,0,0,0])); print('standard dtype',r.dtype)
