import numpy as np, sys, warnings
sys.path.insert(0,'/repo/src'); warnings.filterwarnings('ignore')
from quantum_gates._gates.gates import Gates, standard_gates, numerical_gates, noise_free_gates, ScaledNoiseGates
from quantum_gates._gates.pulse import GaussianPulse, constant_pulse, constant_pulse_numerical
from quantum_gates._gates.integrator import Integrator
import scipy.integrate
tg=35e-9
# C05: determinant law for CNOT / CNOT_inv
g=standard_gates
def lawdet(name, t, T1c, T1t):
    G=getattr(g,name)(0.3,-0.7,t,1e-2,1e-3,2e-3,T1c,0.9*T1c,T1t,1.1*T1t)
    G0=getattr(noise_free_gates,name)(0.3,-0.7,t,0,0,0,0,0,0,0)
    return np.linalg.det(G)/np.linalg.det(G0)
for name in ["CNOT","CNOT_inv"]:
    t=4e-7
    d=lawdet(name,t,1e-4,3e-5)
    print(name,'det ratio',d,'expected',np.exp(-(2/2)*(t/1e-4+t/3e-5)), 'swapped-sx hypothesis', np.exp(-( (t)/1e-4 + (t)/3e-5) - tg/1e-4 + tg/3e-5))
for name,tau in [("ECR",lambda t:t-tg),("ECR_inv",lambda t:t+tg)]:
    t=4e-7
    d=lawdet(name,t,1e-4,3e-5)
    print(name,'det ratio',d,'expected',np.exp(-(tau(t)/1e-4+tau(t)/3e-5)))
# C12: gaussian pulse numeric a != 1
p=GaussianPulse(loc=0.5,scale=0.25); I=Integrator(p); F=p.get_parametrization()
for name,gfun in [("sin(theta/a)**2",lambda x:np.sin(x)**2),("sin(theta/a)",np.sin)]:
    for a in [1.0,3.7]:
        th=np.pi/4
        got=I.integrate(name,th,a)
        exp=scipy.integrate.quad(lambda t:gfun(th*F(t/a)),0,a)[0]
        print('C12',name,a,got,exp)
# theta = 0 analytic
I0=Integrator(constant_pulse); I1=Integrator(constant_pulse_numerical)
for name in Integrator._INTEGRAL_LOOKUP:
    print('theta0',name, I0.integrate(name,0.0,2.0), I1.integrate(name,0.0,2.0))
# C07: zero noise
for gs in [standard_gates, numerical_gates, Gates(p), ScaledNoiseGates(0.5,p)]:
    X=gs.X(0.3,0,0,0); X0=noise_free_gates.X(0.3,0,0,0)
    C=gs.CNOT(0.3,0.2,4e-7,0,0,0,0,0,0,0); C0=noise_free_gates.CNOT(0.3,0.2,4e-7,0,0,0,0,0,0,0)
    print('zero noise', np.abs(X-X0).max(), np.abs(C-C0).max())
# unitary with T1=0
X=standard_gates.X(0.3,1e-2,0,1e-4); print('unit', np.abs(X.conj().T@X-np.eye(2)).max())
C=standard_gates.CNOT(0.3,0.2,4e-7,1e-2,1e-3,1e-3,0,1e-4,0,2e-4); print('unit cnot', np.abs(C.conj().T@C-np.eye(4)).max())
C=standard_gates.CNOT(0.3,0.2,4e-7,0,1e-3,1e-3,0,1e-4,0,2e-4); print('p_cnot=0<singles', C[0,0])
