import numpy as np, sys, warnings, inspect
sys.path.insert(0,'/repo/src'); warnings.filterwarnings('ignore')
from qiskit_ibm_runtime import fake_provider
from qiskit_ibm_runtime.fake_provider.fake_backend import FakeBackendV2
from quantum_gates._utility.device_parameters import DeviceParameters
tot=0; neg=0; devs=[]
for nm in sorted(n for n in dir(fake_provider) if n.startswith('Fake') and inspect.isclass(getattr(fake_provider,n)) and issubclass(getattr(fake_provider,n),FakeBackendV2)):
    try:
        b=getattr(fake_provider,nm)(); n=b.num_qubits
        dp=DeviceParameters(list(range(n))); dp.load_from_backend(b)
    except Exception: continue
    p=np.array(dp.p); P=dp.p_int
    bad=0; cnt=0
    for i in range(n):
        for j in range(n):
            if P[i,j]>0:
                cnt+=1
                ratio=(1-.75*P[i,j])**2/((1-.75*p[i])**2*(1-.75*p[j]))
                if ratio>1: bad+=1
    tot+=cnt; neg+=bad
    if bad: devs.append((nm,bad,cnt))
print('pairs',tot,'with negative derived p_cr',neg); print(devs)
