import numpy as np, sys, warnings, random
sys.path.insert(0,'/tmp/scratch/repo/src'); warnings.filterwarnings('ignore')
from quantum_gates._simulation.backend import EfficientBackend, BackendForOnes
rng=np.random.default_rng(1); R=random.Random(2)
def rm(d): return rng.integers(-1,2,(d,d))+1j*rng.integers(-1,2,(d,d))
def apply_factors(n, mp, psi):
    t=psi.reshape([2]*n); q=0
    for m in mp:
        if isinstance(m,np.ndarray):
            k=int(np.log2(m.shape[0]))
            mt=m.reshape([2]*(2*k))
            t=np.tensordot(mt,t,axes=(list(range(k,2*k)),list(range(q,q+k))))
            t=np.moveaxis(t,list(range(k)),list(range(q,q+k)))
            q+=k
    return t.reshape(-1)
for n,pat in [(11,'N'*11),(14,'N'*14),(15,'I'+'N'*14),(19,'N'*19),(20,'N'*19+'I'),(20,'I'+'N'*11+'I'+'N'*7),(21,'N'*8+'I'+'N'*12),(22,'NC'+'N'*19+'I')]:
    mp=[]
    for ch in pat:
        if ch=='N': mp.append(rm(2))
        elif ch=='I': mp.append(np.eye(2))
        elif ch=='C': mp+= [rm(4),1]
    psi=(rng.integers(-1,2,2**n)+0j)
    ref=apply_factors(n,mp,psi)
    for B in [BackendForOnes, EfficientBackend]:
        r=B(n).statevector([mp],psi)
        print(n,pat,B.__name__, np.array_equal(r,ref))
