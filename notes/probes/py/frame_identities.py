import numpy as np, sys, warnings
sys.path.insert(0,'/repo/src'); warnings.filterwarnings('ignore')
from quantum_gates._gates.gates import noise_free_gates as g
def Rz(p): return np.diag([np.exp(-1j*p/2), np.exp(1j*p/2)])
X=np.array([[0,1],[1,0]],complex); SX=0.5*np.array([[1+1j,1-1j],[1-1j,1+1j]])
CX01=np.array([[1,0,0,0],[0,1,0,0],[0,0,0,1],[0,0,1,0]],complex)      # control = first (MSB) factor
CX10=np.array([[1,0,0,0],[0,0,0,1],[0,0,1,0],[0,1,0,0]],complex)      # control = second factor
ECR01=np.array([[0,0,1,1j],[0,0,1j,1],[1,-1j,0,0],[-1j,1,0,0]])/np.sqrt(2) # qiskit ECR with q0=MSB? check below
from qiskit.circuit.library import ECRGate
from qiskit.quantum_info import Operator
from qiskit import QuantumCircuit
def op_big_endian(build,n=2):
    c=QuantumCircuit(n); build(c); return Operator(c.reverse_bits()).data
ECR01=op_big_endian(lambda c:c.ecr(0,1)); ECR10=op_big_endian(lambda c:c.ecr(1,0))
assert np.allclose(CX01, op_big_endian(lambda c:c.cx(0,1)))
def phase_equal(A,B):
    k=np.argmax(np.abs(B)); lam=A.flat[k]/B.flat[k]
    return np.allclose(A,lam*B,atol=1e-12), lam
rng=np.random.default_rng(0)
for _ in range(3):
    a,b=rng.uniform(-4,4,2)
    print('X ', phase_equal(g.X(-a,0,0,0), Rz(-a)@X@Rz(a)))
    print('SX', phase_equal(g.SX(-a,0,0,0), Rz(-a)@SX@Rz(a)))
    # CNOT i<k : args (phi_i, phi_k); afterwards phi_i -= pi/2
    G=g.CNOT(a,b,4e-7,0,0,0,0,0,0,0)
    print('CNOT', phase_equal(G, np.kron(Rz(-(a-np.pi/2)),Rz(-b))@CX01@np.kron(Rz(a),Rz(b))))
    # CNOT_inv: i (control, higher index) phase a ; k (target, lower) phase b; slots (k,i); after: phi_i += 3pi/2, phi_k += pi/2
    G=g.CNOT_inv(a,b,4e-7,0,0,0,0,0,0,0)
    print('CNOT_inv', phase_equal(G, np.kron(Rz(-(b+np.pi/2)),Rz(-(a+3*np.pi/2)))@CX10@np.kron(Rz(b),Rz(a))))
    # ECR i<k: args (phi_i, phi_k), no update
    G=g.ECR(a,b,4e-7,0,0,0,0,0,0,0)
    print('ECR', phase_equal(G, np.kron(Rz(-a),Rz(-b))@ECR01@np.kron(Rz(a),Rz(b))))
    # ECR_inv: called with (phi[k], phi[i]) = (lower, higher) ; control is higher
    G=g.ECR_inv(a,b,4e-7,0,0,0,0,0,0,0)
    print('ECR_inv', phase_equal(G, np.kron(Rz(-a),Rz(-b))@ECR10@np.kron(Rz(a),Rz(b))))
