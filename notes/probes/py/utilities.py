import numpy as np, sys, warnings, os, tempfile, shutil
sys.path.insert(0,'/repo/src'); warnings.filterwarnings('ignore')
from quantum_gates._utility.simulations_utility import perform_parallel_simulation, mock_perform_parallel_simulation, perform_parallel_simulation_with_multiprocessing, post_process_split, fix_counts, compute_Hellinger_distance
from quantum_gates._utility.device_parameters import DeviceParameters
d=tempfile.mkdtemp()
def sim(arg):
    open(os.path.join(arg[0], f"m{arg[1]}_{os.getpid()}"),'a').write('x')
    return (0.1, arg[1])
for fn in [mock_perform_parallel_simulation, perform_parallel_simulation_with_multiprocessing, perform_parallel_simulation]:
    dd=tempfile.mkdtemp()
    try:
        fn([(dd,i) for i in range(5)], sim, 2); r='ok'
    except Exception as e: r='EXC '+repr(e)[:120]
    print(fn.__name__, r, sorted(f.split('_')[0] for f in os.listdir(dd)))
# merge with partially existing targets
dd=tempfile.mkdtemp()
src=[os.path.join(dd,f"s{i}.txt") for i in range(4)]
for i,s in enumerate(src): np.savetxt(s, np.arange(3)+i*1.0)
tg=[os.path.join(dd,"t0.txt"), os.path.join(dd,"t1.txt")]
np.savetxt(tg[1], np.array([9.,9,9]))
try:
    post_process_split(src,tg,2); print('merge accepted with existing target; t1 now', np.loadtxt(tg[1]))
except AssertionError as e: print('merge refused', e)
# device params 1 qubit text roundtrip
for layout in [[0],[5],[0,1],[3,7]]:
    dp=DeviceParameters(layout); n=len(layout); m=max(layout)+1
    dp.T1=np.arange(n)+1e-4; dp.T2=np.arange(n)+2e-4; dp.p=np.arange(n)+1e-3; dp.rout=np.arange(n)+1e-2
    dp.p_int=np.arange(m*m).reshape(m,m)*1e-3; dp.t_int=np.arange(m*m).reshape(m,m)*1e-7; dp.tm=np.arange(n)+1e-6; dp.dt=np.array([2.2e-10]); dp.metadata={"a":1}
    loc=tempfile.mkdtemp()+'/'
    import io, contextlib
    with contextlib.redirect_stdout(io.StringIO()):
        dp.save_to_texts(loc); dp.save_to_json(loc)
    a=DeviceParameters(layout); a.load_from_texts(loc); b=DeviceParameters(layout); b.load_from_json(loc)
    print(layout,'texts eq',a==dp, a.p_int.shape, dp.p_int.shape,'json eq', b==dp)
print(fix_counts({'01':3,'11':1},2), fix_counts({'1':2},1))
print(compute_Hellinger_distance(np.array([.5,.5,0,0]),np.array([0,0,.3,.7]),2), compute_Hellinger_distance(np.array([.1,.2,.3,.4]),np.array([.1,.2,.3,.4]),2))
