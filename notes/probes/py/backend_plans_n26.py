import numpy as np, sys, warnings, time
sys.path.insert(0,'/repo/src'); warnings.filterwarnings('ignore')
import quantum_gates._simulation.backend as B
rec=[]
def fake_contract(cs,*ops):
    rec.append((cs,[o.shape for o in ops]))
    return np.broadcast_to(np.float64(0), ops[-1].shape)
B.oe.contract=fake_contract
A=np.array([[1,2],[3,4]]); I=np.eye(2); CN=np.eye(4)[[0,1,3,2]]
for n in [20,24,26]:
    psi=np.broadcast_to(np.float64(0),(2**n,))
    mp=[A]*19+[I]*(n-19)
    t=time.time()
    out=B.BackendForOnes(n)._opt_einsum_ignoring_ones(mp,psi)
    print(n,'ones',rec[-1], round(time.time()-t,3))
    mp=[A]*(n-2)+[CN,1]
    t=time.time()
    be=B.EfficientBackend(n)
    a_list_raw=be._chunk_list(mp,3,4); 
    print(n,'chunks',[len(c) for c in a_list_raw])
# value-level at n=19 for real
B.oe.contract=__import__('opt_einsum').contract
n=19; psi=np.arange(2**n)%7*1.0
t=time.time(); r=B.BackendForOnes(n).statevector([[A]*19],psi); print('n=19 value', r[:3], round(time.time()-t,2))
