import numpy as np, sys, warnings, inspect
sys.path.insert(0,'/repo/src'); warnings.filterwarnings('ignore')
from qiskit_ibm_runtime import fake_provider
from qiskit_ibm_runtime.fake_provider.fake_backend import FakeBackendV2
from quantum_gates._utility.device_parameters import DeviceParameters
names=[n for n in dir(fake_provider) if n.startswith('Fake') and n.endswith('V2') or (n.startswith('Fake') and inspect.isclass(getattr(fake_provider,n)) and issubclass(getattr(fake_provider,n),FakeBackendV2))]
names=sorted(set(names)); print(len(names))
res={}
for nm in names:
    cls=getattr(fake_provider,nm)
    try:
        b=cls()
    except Exception as e:
        res[nm]='ctor '+repr(e)[:60]; continue
    try:
        nq=b.num_qubits
        layout=[0] if nq==1 else [nq-1,0]
        dp=DeviceParameters(layout); dp.load_from_backend(b)
        res[nm]=('ok',nq,b.configuration().basis_gates if hasattr(b,'configuration') else None, np.count_nonzero(dp.p_int))
    except Exception as e:
        res[nm]=('EXC',type(e).__name__, str(e)[:80])
for k,v in res.items(): print(k,v)
