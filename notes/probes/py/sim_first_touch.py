import sys; sys.argv=['x']; exec(open('/tmp/exp/sim3.py').read().split("seen=set()")[0])
def show(C,n,ops,meas=None,psi0=None):
    c=ops_to_circ(n,ops,meas)
    try:
        got=run(c,C,n,psi0)
        print(C.__name__, ops, 'meas',meas, {k:round(float(v),4) for k,v in got.items() if v>1e-9}, 'ideal', {k:round(float(v),4) for k,v in ideal_probs(c,list(meas if meas is not None else range(n))).items() if v>1e-9})
    except Exception as e: print(C.__name__, ops, 'EXC', repr(e)[:200])
for C in [EfficientCircuit, BinaryCircuit]:
    show(C,2,[('x',1),('sx',0),('sx',0),('sx',0),('sx',0)])
    show(C,2,[('x',1),('rz',0.1,0)])
    show(C,2,[('x',1),('delay',10,0)])
    show(C,2,[('x',0),('x',0),('x',1)], meas=[1,0])
    show(C,2,[('x',0),('x',0),('x',1)], meas=[1])
    show(C,3,[('x',2),('x',0),('x',0), ('x',1),('x',1)])
    show(C,3,[('x',0),('x',0),('x',1),('x',1),('x',2)], meas=[2,0])
