import numpy as np, sys, warnings, pickle
sys.path.insert(0,'/repo/src'); warnings.filterwarnings('ignore')
from quantum_gates._gates.gates import Gates, standard_gates, numerical_gates, noise_free_gates, almost_noise_free_gates, ScaledNoiseGates
from quantum_gates._gates.pulse import GaussianPulse, Pulse, constant_pulse, constant_pulse_numerical, gaussian_pulse
import scipy.integrate
for name,obj in [('constant_pulse',constant_pulse),('constant_numerical',constant_pulse_numerical),('gaussian_pulse',gaussian_pulse),('GaussianPulse(1,2)',GaussianPulse(1,2)),
                 ('standard_gates',standard_gates),('numerical_gates',numerical_gates),('Gates(gauss)',Gates(gaussian_pulse)),('scaled',ScaledNoiseGates(0.5,gaussian_pulse)),('noise_free',noise_free_gates)]:
    try:
        o2=pickle.loads(pickle.dumps(obj))
        if hasattr(obj,'X'):
            np.random.seed(3); a=obj.X(0.2,1e-3,1e-4,1e-4); np.random.seed(3); b=o2.X(0.2,1e-3,1e-4,1e-4)
            print(name,'pickle ok, same sample', np.array_equal(a,b))
        else:
            print(name,'pickle ok, same values', obj.get_pulse()(0.3)==o2.get_pulse()(0.3) and obj.get_parametrization()(0.3)==o2.get_parametrization()(0.3))
    except Exception as e: print(name,'EXC',repr(e)[:100])
# validation accepts valid pairs / rejects invalid
def ok(f,F):
    try: Pulse(f,F,perform_checks=True); return True
    except AssertionError as e: return False
print('valid const', ok(lambda x:1.0, lambda x:x), 'valid quad', ok(lambda x:2*x, lambda x:x*x), 'valid gaussian', ok(gaussian_pulse.get_pulse(), gaussian_pulse.get_parametrization()))
print('unnormalised', ok(lambda x:2.0, lambda x:2*x), 'F not 0..1', ok(lambda x:1.0, lambda x:x+0.5), 'F not integral', ok(lambda x:1.0, lambda x:x*x), 'negative', ok(lambda x:3*(x-1/3.)*1.0*2 , lambda x:3*x*x-2*x))
# left-tail accuracy

for loc,scale in [(0.5,0.25),(-3,1),(-6,1),(-8,1),(9,1),(-8.5,1)]:
    try:
        p=GaussianPulse(loc,scale)
        I=scipy.integrate.quad(p.get_pulse(),0,1,epsabs=0,epsrel=1e-13)[0]
        import scipy.stats as st
        Z=(st.norm.sf(0,loc,scale)-st.norm.sf(1,loc,scale)) if loc<0.5 else (st.norm.cdf(1,loc,scale)-st.norm.cdf(0,loc,scale))
        exact=st.norm.pdf(0.5,loc,scale)/Z
        print(loc,scale,'integral',I,'rel err of waveform at 0.5', abs(p.get_pulse()(0.5)-exact)/exact)
    except AssertionError as e: print(loc,scale,'rejected')
