import numpy as np, sys, warnings, scipy.linalg
sys.path.insert(0,'/repo/src'); warnings.filterwarnings('ignore')
import quantum_gates._gates.factories as F
from quantum_gates._gates.integrator import Integrator
from quantum_gates._gates.pulse import constant_pulse
X=np.array([[0,1],[1,0]],complex);Y=np.array([[0,-1j],[1j,0]]);Z=np.diag([1,-1]).astype(complex);Sm=np.array([[0,1],[0,0]],complex);I2=np.eye(2,dtype=complex)
tg=35e-9
class Inject:
    def __init__(self, which, comp): self.which=which; self.comp=comp; self.k=0
    def mvn(self, mean, cov, size=None):
        d=len(mean); v=np.zeros((1,d))
        if self.k==self.which: v[0,self.comp]=1.0
        self.k+=1; return v
    def normal(self, m, s=1.0):
        v = 1.0 if (self.k==self.which and self.comp==0) else 0.0
        self.k+=1; return v
def capture(fn, inj):
    caps=[]
    orig=scipy.linalg.expm
    def fake(A): caps.append(np.array(A)); return orig(A)
    F.scipy.linalg.expm=fake; 
    om, on = np.random.multivariate_normal, np.random.normal
    np.random.multivariate_normal=inj.mvn; np.random.normal=inj.normal
    try: fn()
    finally:
        F.scipy.linalg.expm=orig; np.random.multivariate_normal=om; np.random.normal=on
    return caps
integ=Integrator(constant_pulse)
sq=F.SingleQubitGateFactory(integ)
def Us(th,phi): 
    N=np.cos(phi)*X+np.sin(phi)*Y
    return scipy.linalg.expm(-1j*th/2*N)
theta,phi=1.234,-0.77
p,T1,T2=0.04,1e-4,0.7e-4
ed=np.sqrt(p/4); e1=np.sqrt(tg/T1); ep=np.sqrt(0.5*(tg/T2-tg/T1/2))
# draws: 0:Idx(3) 1:Idy(3) 2:Idz(2) 3:Ir(3) 4:Ip(2)
spec=[(X,ed,['sin','s2','one']),(Y,ed,['sin','s2','one']),(Z,ed,['cos','sin']),(Sm,e1,['sin','s2','one']),(Z,ep,['cos','sin'])]
fb={'sin':np.sin,'s2':lambda t:np.sin(t/2)**2,'one':lambda t:1.0+0*t,'cos':np.cos}
print("single-qubit generator decomposition (max abs error over random times)")
for w,(L,st,fs) in enumerate(spec):
    Ms=[]
    for c in range(len(fs)):
        caps=capture(lambda: sq.construct(theta,phi,p,T1,T2), Inject(w,c))
        Ms.append(caps[1]/1j)   # strength*M_c
    err=0
    for t in np.linspace(0,theta,7):
        Lt=Us(t,phi).conj().T@L@Us(t,phi)*st
        rec=sum(fb[f](t)*M for f,M in zip(fs,Ms))
        err=max(err,np.abs(Lt-rec).max())
    print(w, err)
# drift
caps=capture(lambda: sq.construct(theta,phi,p,T1,T2), Inject(99,0))
ts=np.linspace(0,1,20001)
P1=np.array([[0,0],[0,1]],complex)  # L^dag L - L^2 = sigma+ sigma- = |1><1|
acc=sum((Us(theta*t,phi).conj().T@P1@Us(theta*t,phi)) for t in ts[:-1]+np.diff(ts)/2)*(ts[1]-ts[0])
print('drift err', np.abs(caps[0]-(-e1**2/2*acc)).max())
# CR
cr=F.CRFactory(integ)
def Ucr(th,phi):
    N=np.cos(phi)*X+np.sin(phi)*Y
    return scipy.linalg.expm(-1j*th/2*np.kron(Z,N))
t_cr=2.3e-7; a=t_cr/tg; pcr=0.03; T1c,T2c,T1t,T2t=1e-4,0.8e-4,2e-4,1.1e-4
edc=np.sqrt(pcr/(4*a)); e1c=np.sqrt(tg/T1c); e1t=np.sqrt(tg/T1t); epc=np.sqrt(.5*(tg/T2c-tg/T1c/2)); ept=np.sqrt(.5*(tg/T2t-tg/T1t/2))
k=np.kron
# draw order in CR.construct: Ir_ctr(2) Ir_trg(3) Wp_ctr(normal) Ip_trg(2) Idx_ctr(2) Idy_ctr(2) Wdz_ctr(normal) Idx_trg(3) Idy_trg(3) Idz_trg(2)
specCR=[(k(Sm,I2),e1c,['cos','sin']),(k(I2,Sm),e1t,['sin','s2','one']),(k(Z,I2),epc,['one']),(k(I2,Z),ept,['cos','sin']),
        (k(X,I2),edc,['cos','sin']),(k(Y,I2),edc,['cos','sin']),(k(Z,I2),edc,['one']),(k(I2,X),edc,['sin','s2','one']),(k(I2,Y),edc,['sin','s2','one']),(k(I2,Z),edc,['cos','sin'])]
print("CR generator decomposition")
for w,(L,st,fs) in enumerate(specCR):
    Ms=[]
    for c in range(len(fs)):
        caps=capture(lambda: cr.construct(theta,phi,t_cr,pcr,T1c,T2c,T1t,T2t), Inject(w,c))
        Ms.append(caps[1]/1j)
    err=0
    for t in np.linspace(0,theta,7):
        Lt=Ucr(t,phi).conj().T@L@Ucr(t,phi)*st
        rec=sum(fb[f](t)*M for f,M in zip(fs,Ms))
        err=max(err,np.abs(Lt-rec).max())
    print(w, err)
caps=capture(lambda: cr.construct(theta,phi,t_cr,pcr,T1c,T2c,T1t,T2t), Inject(99,0))
ts=np.linspace(0,a,20001); mid=ts[:-1]+np.diff(ts)/2
acc=sum(e1c**2*(Ucr(theta*t/a,phi).conj().T@k(P1,I2)@Ucr(theta*t/a,phi))+e1t**2*(Ucr(theta*t/a,phi).conj().T@k(I2,P1)@Ucr(theta*t/a,phi)) for t in mid)*(ts[1]-ts[0])
print('CR drift err', np.abs(caps[0]-(-0.5*acc)).max())
