# sympy feasibility: CNOT / CNOT_inv / ECR / ECR_inv frame identities as polynomial identities
import sympy as sp, time
z,u,ub,v,vb=sp.symbols('z u ub v vb')   # z=e^{i pi/8}; u=e^{i phi_c/2}; v=e^{i phi_t/2}
I=z**4; zb=-z**7
rels=[z**8+1, u*ub-1, v*vb-1]; gens=(z,u,ub,v,vb)
def red(x):
    x=sp.expand(x)
    q,r=sp.reduced(x,rels,*gens,order='lex')
    return r
def cexp(k_c,k_t,k_pi8=0):
    # exp(i*(k_c*phi_c/2 + k_t*phi_t/2 + k_pi8*pi/8))
    e=sp.Integer(1)
    e*= u**k_c if k_c>=0 else ub**(-k_c)
    e*= v**k_t if k_t>=0 else vb**(-k_t)
    k=k_pi8%16
    e*= z**k
    return e
def cos8(k): return (z**(k%16)+ (zb)**(k%16))/2     # cos(k*pi/8)
def sin8(k): return -I*(z**(k%16)-(zb)**(k%16))/2
def U1(th8, ph):   # theta = th8*pi/8 *2?  we pass theta/2 in units of pi/8 ; ph=(kc,kt,kpi8) phase phi = kc*phi_c/2*... 
    c=cos8(th8); s=sin8(th8)
    ep=cexp(*ph); em=cexp(*[-a for a in ph])
    return sp.Matrix([[c,-I*s*em],[-I*s*ep,c]])
def CR(th8, ph):
    c=cos8(th8); s=sin8(th8); ep=cexp(*ph); em=cexp(*[-a for a in ph])
    return sp.Matrix([[c,-I*s*em,0,0],[-I*s*ep,c,0,0],[0,0,c,I*s*em],[0,0,I*s*ep,c]])
def kron(A,B): return sp.kronecker_product(A,B)
def Rz(ph):  # diag(e^{-i phi/2}, e^{i phi/2}) with phi given as (kc,kt,kpi8) meaning phi = kc*phi_c + kt*phi_t + kpi8*pi/4 -> half-angles
    kc,kt,k=ph
    return sp.diag(cexp(-kc,-kt,-k), cexp(kc,kt,k))
# phases are given in "half units": phi = (kc*phi_c + kt*phi_t + k*pi/4)  => e^{i phi} = cexp(2kc,2kt,2k)
def ph_full(kc,kt,k): return (2*kc,2*kt,2*k)
Id=sp.eye(2)
# noise-free CNOT(phi_c, phi_t) from gates.py:151-166 ; theta/2: -pi/8 -> th8=-1 ; pi/8 -> 1 ; X: theta/2 = pi/2 -> th8=4 ; SX: pi/4 -> 2 ; Y_Rz: theta=-pi -> th8=-4
first_cr=CR(-1, ph_full(0,-1,0)); second_cr=CR(1, ph_full(0,-1,0))
x_gate=U1(4, ph_full(-1,0,2))            # -phi_c + pi/2
sx_gate=U1(2, ph_full(0,-1,0))
Y_Rz=U1(-4, ph_full(-1,0,4))             # -phi_c + pi
G=first_cr*kron(x_gate,Id)*second_cr*kron(Y_Rz,sx_gate)
CX=sp.Matrix([[1,0,0,0],[0,1,0,0],[0,0,0,1],[0,0,1,0]])
lam=z**6   # e^{3 i pi/4}
# Rz(-phi_c+pi/2) (x) Rz(-phi_t)  * CX * Rz(phi_c) (x) Rz(phi_t); Rz takes phi in units (kc,kt,k*pi/4)->half angle exponent uses pi/8 units: k*pi/4 /2 = k*pi/8 
RHS=lam*kron(Rz((-1,0,2)),Rz((0,-1,0)))*CX*kron(Rz((1,0,0)),Rz((0,1,0)))
t=time.time()
D=(G-RHS).applyfunc(red)
print('CNOT remainder zero:', D==sp.zeros(4,4), round(time.time()-t,2),'s')
