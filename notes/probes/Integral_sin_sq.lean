import Mathlib.Analysis.SpecialFunctions.Integrals.Basic
open Real intervalIntegral
theorem int_sin_sq (θ a : ℝ) (hθ : θ ≠ 0) (ha : 0 < a) :
    ∫ t in (0:ℝ)..a, sin (θ * t / a) ^ 2 = a * (2*θ - sin (2*θ)) / (4*θ) := by
  have h1 : ∀ t, θ * t / a = (θ / a) * t := by intro t; ring
  simp_rw [h1]
  have hk : θ / a ≠ 0 := div_ne_zero hθ ha.ne'
  rw [intervalIntegral.integral_comp_mul_left (fun x => sin x ^ 2) hk]
  rw [integral_sin_sq]
  have : θ / a * a = θ := by field_simp
  simp only [mul_zero, sin_zero, cos_zero, this, smul_eq_mul]
  rw [sin_two_mul]
  field_simp
  ring
