"""IR (gen/factories.py) -> lean/QG/Gen/Factories.lean : definitions of every factory's formulas.

Two renderings of scalar IR:
 * poly mode (SingleQubitGateFactory, CRFactory): matrices over a generic field `K`, with the trigonometric /
   exponential atoms of the drive replaced by the *variables* of an environment record
       c = cos(theta/2)   s = sin(theta/2)   e = exp(i phi)   eb = exp(-i phi)   i = 1J
   by the fixed table `to_poly` below (cos theta = c^2-s^2, sin theta = 2 s c, sin phi = -i (e-eb)/2,
   cos phi = (e+eb)/2, exp(k i phi) = e^k / eb^k).  Named scalars (noise strengths, drift integrals) and the
   Gaussian samples are further fields of the record, so "for all sample values" is "for all records".
   The table is validated on every run: the poly-mode IR is evaluated numerically at the actual values of
   c, s, e, eb, i and compared with the real code (harness/qgv/tv_factories.py: `compare_poly`).
 * literal mode (Bitflip, Depolarizing, Relaxation and all real-valued named scalars): rendered literally
   over the reals / complex numbers with Real.sqrt, Real.exp, Complex.exp, ...

Anything outside the table raises pyexpr.Unsupported (fail closed).
"""
import os, re
from fractions import Fraction
from qgv import core, pyexpr
from qgv.pyexpr import Unsupported, num, is_num
from qgv.pymat import Mat
from gen import factories as gf

# ------------------------------------------------------------------------------------ constant folding
def fold(e):
    if isinstance(e, Mat):
        return e.map(fold)
    if not isinstance(e, tuple):
        return e
    t = e[0]
    if t in ("num", "var", "sample", "I", "pi", "mvar", "gate", "str"):
        return e
    if t == "pow":
        a = fold(e[1])
        if is_num(a) and (a[1] != 0 or e[2] >= 0):
            return ("num", a[1] ** e[2])
        return ("pow", a, e[2])
    if t == "npow":
        a, b = fold(e[1]), fold(e[2])
        if is_num(a) and is_num(b) and b[1].denominator == 1 and (a[1] != 0 or b[1] >= 0):
            return ("num", a[1] ** int(b[1]))
        return ("npow", a, b)
    args = tuple(fold(x) if isinstance(x, (tuple, Mat)) else x for x in e[1:])
    if t == "neg" and is_num(args[0]):
        return ("num", -args[0][1])
    if t in ("add", "sub", "mul", "div") and is_num(args[0]) and is_num(args[1]):
        a, b = args[0][1], args[1][1]
        if t == "div" and b == 0:
            return (t,) + args
        return ("num", {"add": a + b, "sub": a - b, "mul": a * b, "div": a / b if t == "div" else None}[t])
    return (t,) + args


# ------------------------------------------------------------------------------------ small polynomials (for argument matching)
def poly(e):
    """dict monomial(tuple of sorted symbol names) -> Fraction, for polynomial scalar IR in the symbols; None if not polynomial"""
    t = e[0]
    if t == "num":
        return {(): e[1]} if e[1] != 0 else {}
    if t == "var":
        return {(e[1],): Fraction(1)}
    if t == "I":
        return {("I",): Fraction(1)}
    if t == "pi":
        return {("pi",): Fraction(1)}
    if t == "neg":
        a = poly(e[1])
        return None if a is None else {k: -v for k, v in a.items()}
    if t in ("add", "sub"):
        a, b = poly(e[1]), poly(e[2])
        if a is None or b is None:
            return None
        out = dict(a)
        for k, v in b.items():
            out[k] = out.get(k, 0) + (v if t == "add" else -v)
        return {k: v for k, v in out.items() if v != 0}
    if t == "mul":
        a, b = poly(e[1]), poly(e[2])
        if a is None or b is None:
            return None
        out = {}
        for k1, v1 in a.items():
            for k2, v2 in b.items():
                k = tuple(sorted(k1 + k2))
                out[k] = out.get(k, 0) + v1 * v2
        return {k: v for k, v in out.items() if v != 0}
    if t == "div":
        a, b = poly(e[1]), poly(e[2])
        if a is None or b is None or list(b.keys()) != [()]:
            return None
        return {k: v / b[()] for k, v in a.items()}
    return None


def to_poly(e, theta="theta", phi="phi"):
    """replace the drive's trigonometric atoms by the environment variables c s e eb i (fixed table)"""
    if isinstance(e, Mat):
        return e.map(lambda x: to_poly(x, theta, phi))
    t = e[0]
    if t == "I":
        return ("var", "i")
    if t in ("num", "var", "sample"):
        return e
    if t == "fn":
        p = poly(fold(e[2]))
        c, s, E, Eb, i = (("var", x) for x in ("c", "s", "e", "eb", "i"))
        if e[1] in ("cos", "sin") and p == {(theta,): Fraction(1, 2)}:
            return c if e[1] == "cos" else s
        if e[1] == "cos" and p == {(theta,): Fraction(1)}:
            return ("sub", ("pow", c, 2), ("pow", s, 2))
        if e[1] == "sin" and p == {(theta,): Fraction(1)}:
            return ("mul", ("mul", num(2), s), c)
        if e[1] == "cos" and p == {(phi,): Fraction(1)}:
            return ("div", ("add", E, Eb), num(2))
        if e[1] == "sin" and p == {(phi,): Fraction(1)}:
            return ("div", ("mul", ("neg", i), ("sub", E, Eb)), num(2))
        if e[1] == "exp" and p is not None and list(p.keys()) == [tuple(sorted(("I", phi)))]:
            k = p[tuple(sorted(("I", phi)))]
            if k.denominator == 1 and k != 0:
                return ("pow", E, int(k)) if k > 0 else ("pow", Eb, int(-k))
        raise Unsupported(f"poly mode: atom {e[1]}({pyexpr_str(e[2])}) is not in the table")
    if t in ("neg",):
        return (t, to_poly(e[1], theta, phi))
    if t in ("add", "sub", "mul", "div"):
        return (t, to_poly(e[1], theta, phi), to_poly(e[2], theta, phi))
    if t == "pow":
        return ("pow", to_poly(e[1], theta, phi), e[2])
    raise Unsupported(f"poly mode: node {t}")


def pyexpr_str(e):
    return str(e)[:80]


def free(e, acc=None):
    """names of ("var", x) and ("sample", x) occurring"""
    acc = acc if acc is not None else []
    if isinstance(e, Mat):
        for r in e.rows:
            for x in r:
                free(x, acc)
        return acc
    if isinstance(e, tuple):
        if e and e[0] in ("var", "sample"):
            if (e[0], e[1]) not in acc:
                acc.append((e[0], e[1]))
            return acc
        for x in e[1:]:
            if isinstance(x, (tuple, Mat, list)):
                free(x, acc)
    if isinstance(e, list):
        for x in e:
            free(x, acc)
    return acc


# ------------------------------------------------------------------------------------ renderers
def lean_K(e, pre="v."):
    t = e[0]
    P = lambda x: lean_K(x, pre)
    if t == "num":
        f = e[1]
        if f.denominator == 1:
            return f"({f.numerator} : K)" if f >= 0 else f"(-{-f.numerator} : K)"
        s = f"(({abs(f.numerator)} : K) / {f.denominator})"
        return s if f > 0 else f"(-{s})"
    if t in ("var", "sample"):
        return pre + e[1]
    if t == "neg":
        return f"(-{P(e[1])})"
    if t in ("add", "sub", "mul", "div"):
        return f"({P(e[1])} {dict(add='+', sub='-', mul='*', div='/')[t]} {P(e[2])})"
    if t == "pow":
        if e[2] < 0:
            raise Unsupported("negative power in poly mode")
        return f"({P(e[1])} ^ {e[2]})"
    raise Unsupported(f"lean_K: {t}")


def mat_K(m, pre="v."):
    return "!![" + "; ".join(", ".join(lean_K(x, pre) for x in r) for r in m.rows) + "]"


class RealRender:
    """literal rendering over ℝ of named scalars; named scalars are Lean functions of their parameters"""

    def __init__(self, ns, scalars, integ_names):
        self.ns, self.scalars, self.integ_names = ns, scalars, integ_names   # scalars: name -> (params, ir)

    def params_of(self, ir, own_params):
        ps = []
        for kind, n in free(ir):
            if kind == "sample":
                raise Unsupported("sample inside a real-valued named scalar")
            if n in self.scalars:
                for p in self.scalars[n][0]:
                    if p not in ps:
                        ps.append(p)
            elif n not in ps:
                ps.append(n)
        if self.uses_integ(ir) and "F" not in ps:
            ps.insert(0, "F")
        return ps

    def uses_integ(self, e):
        if isinstance(e, tuple):
            if e and e[0] == "integ":
                return True
            if e and e[0] == "var" and e[1] in self.scalars and "F" in self.scalars[e[1]][0]:
                return True
            return any(self.uses_integ(x) for x in e[1:] if isinstance(x, tuple))
        return False

    def r(self, e):
        t = e[0]
        R = self.r
        if t == "num":
            f = e[1]
            if f.denominator == 1:
                return f"({f.numerator} : ℝ)" if f >= 0 else f"(-{-f.numerator} : ℝ)"
            s = f"(({abs(f.numerator)} : ℝ) / {f.denominator})"
            return s if f > 0 else f"(-{s})"
        if t == "pi":
            return "Real.pi"
        if t == "var":
            if e[1] in self.scalars:
                ps = self.scalars[e[1]][0]
                return f"({self.ns}.{e[1]} {' '.join(ps)})" if ps else f"{self.ns}.{e[1]}"
            return e[1]
        if t == "neg":
            return f"(-{R(e[1])})"
        if t in ("add", "sub", "mul", "div"):
            return f"({R(e[1])} {dict(add='+', sub='-', mul='*', div='/')[t]} {R(e[2])})"
        if t == "pow":
            return f"({R(e[1])} ^ {e[2]})" if e[2] >= 0 else f"(({R(e[1])}) ^ {-e[2]})⁻¹"
        if t == "fn":
            return f"({dict(sqrt='Real.sqrt', sin='Real.sin', cos='Real.cos', exp='Real.exp', abs='abs')[e[1]]} {R(e[2])})"
        if t == "ite":
            c = e[1]
            if c[0] != "cmp":
                raise Unsupported("condition")
            op = {"==": "=", "!=": "≠", "<": "<", "<=": "≤", ">": ">", ">=": "≥"}[c[1]]
            return f"(if {R(c[2])} {op} {R(c[3])} then {R(e[2])} else {R(e[3])})"
        if t == "integ":
            if e[1] not in self.integ_names:
                raise Unsupported(f"unknown integrand key {e[1]!r}")
            return f"(QG.Spec.integ F QG.Gen.{self.integ_names[e[1]]} {R(e[2])} {R(e[3])})"
        raise Unsupported(f"real render: {t}")


def lean_C(e, rr, sample_pre="w."):
    """literal rendering over ℂ (literal-mode matrices)"""
    t = e[0]
    C = lambda x: lean_C(x, rr, sample_pre)
    if t == "num":
        f = e[1]
        if f.denominator == 1:
            return f"({f.numerator} : ℂ)" if f >= 0 else f"(-{-f.numerator} : ℂ)"
        s = f"(({abs(f.numerator)} : ℂ) / {f.denominator})"
        return s if f > 0 else f"(-{s})"
    if t == "I":
        return "Complex.I"
    if t == "var":
        return f"(({rr.r(e)} : ℝ) : ℂ)"
    if t == "sample":
        return f"(({sample_pre}{e[1]} : ℝ) : ℂ)"
    if t == "neg":
        return f"(-{C(e[1])})"
    if t in ("add", "sub", "mul", "div"):
        return f"({C(e[1])} {dict(add='+', sub='-', mul='*', div='/')[t]} {C(e[2])})"
    if t == "pow":
        if e[2] < 0:
            raise Unsupported("negative power")
        return f"({C(e[1])} ^ {e[2]})"
    if t == "fn" and e[1] in ("exp", "sin", "cos"):
        return f"(Complex.{e[1]} {C(e[2])})"
    raise Unsupported(f"complex render: {t}")


# ------------------------------------------------------------------------------------ integrand table (integrator.py)
INTEG_SRC = "src/quantum_gates/_gates/integrator.py"


def integrand_table():
    """key -> IR of g(x) := lambda(theta := x, a := 1) from Integrator._INTEGRAL_LOOKUP (source text)"""
    import ast
    tree = ast.parse(open(os.path.join(core.REPO, INTEG_SRC), encoding="utf-8").read())
    cls = [n for n in tree.body if isinstance(n, ast.ClassDef) and n.name == "Integrator"]
    if not cls:
        raise Unsupported("class Integrator not found")
    for st in cls[0].body:
        if isinstance(st, ast.Assign) and len(st.targets) == 1 and isinstance(st.targets[0], ast.Name) \
                and st.targets[0].id == "_INTEGRAL_LOOKUP" and isinstance(st.value, ast.Dict):
            out = {}
            for k, v in zip(st.value.keys, st.value.values):
                if not (isinstance(k, ast.Constant) and isinstance(k.value, str) and isinstance(v, ast.Lambda)):
                    raise Unsupported("_INTEGRAL_LOOKUP entry shape")
                ps = [a.arg for a in v.args.args]
                if len(ps) != 2:
                    raise Unsupported("integrand lambda arity")
                ex = pyexpr.SymExec({})
                ex.env = {ps[0]: ("var", "x"), ps[1]: num(1)}
                out[k.value] = fold(ex.ev(v.body))
            return out
    raise Unsupported("_INTEGRAL_LOOKUP not found")


# ------------------------------------------------------------------------------------ per-factory generation
POLY = {"SingleQubitGateFactory": ("SingleQubit", 2), "CRFactory": ("CR", 4)}
LITERAL = {"BitflipFactory": "Bitflip", "DepolarizingFactory": "Depolarizing", "RelaxationFactory": "Relaxation"}
COMPOSITE = {"XFactory": "X", "SXFactory": "SX", "CNOTFactory": "CNOT", "CNOTInvFactory": "CNOTInv", "ECRFactory": "ECR",
             "ECRInvFactory": "ECRInv"}
ENVVARS = ["c", "s", "e", "eb", "i"]


def split_program(rec):
    scal = [(n, fold(v)) for n, k, v in rec["named"] if k == "scalar"]
    mats = [(n, fold(v) if isinstance(v, Mat) else v) for n, k, v in rec["named"] if k == "matrix"]
    return scal, mats


def real_scalars(ns, scal, integ_names, params):
    """Lean text of the real-valued named scalars + the table name -> (params, ir)"""
    table, text = {}, ""
    rr = RealRender(f"QG.Gen.{ns}", table, integ_names)
    for n, ir in scal:
        ps = rr.params_of(ir, params)
        body = rr.r(ir)
        sig = " ".join(f"({p} : ℝ → ℝ)" if p == "F" else f"({p} : ℝ)" for p in ps)
        text += f"noncomputable def {n} {sig} : ℝ :=\n  {body}\n\n" if ps else f"noncomputable def {n} : ℝ :=\n  {body}\n\n"
        table[n] = (ps, ir)
    return rr, table, text


def result_shape(rec, mats):
    """the top-level composition must be  U @ expm(D) @ expm(A)  (poly-mode gates)"""
    res = dict(mats).get("result") if rec["result"] == ("mvar", "result") else rec["result"]
    ok = isinstance(res, tuple) and res[0] == "matmul" and isinstance(res[1], tuple) and res[1][0] == "matmul" \
        and res[1][1][0] == "mvar" and res[1][2][0] == "expm" and res[2][0] == "expm"
    if not ok:
        raise Unsupported(f"{rec['class']}: result is not U @ expm(D) @ expm(A)")
    return res[1][1][1], res[1][2][1], res[2][1]


def mexpr_K(e, ns):
    """matrix expression over named matrices (poly mode)"""
    t = e[0]
    if t == "mvar":
        return f"({e[1]} v)"
    if t == "madd":
        return f"({mexpr_K(e[1], ns)} + {mexpr_K(e[2], ns)})"
    if t == "smul":
        return f"({lean_K(to_poly(fold(e[1])))} • {mexpr_K(e[2], ns)})"
    raise Unsupported(f"matrix expression {t} in poly mode")


def gen_poly(rec, integ_names):
    ns, dim = POLY[rec["class"]]
    scal, mats = split_program(rec)
    rr, table, rtext = real_scalars(ns, scal, integ_names, rec["params"])
    pm = [(n, to_poly(m)) for n, m in mats if isinstance(m, Mat)]
    fields = []
    for n, m in pm:
        for kind, x in free(m):
            if x not in ENVVARS and x not in fields:
                fields.append(x)
    sample_names = [x for d in rec["draws"] for x in ([d["name"]] if d["kind"] == "normal" else d["names"])]
    for x in fields:
        if x not in sample_names and x not in table and x not in rec["params"]:
            raise Unsupported(f"{ns}: free variable {x} of a matrix is neither sample, named scalar nor parameter")
    U, D, A = result_shape(rec, mats)
    out = f"namespace {ns}\n\n" + rtext
    out += "/-- environment: drive atoms `c s e eb i` (see file header), named scalars and Gaussian samples used by the matrices -/\n"
    out += "structure Env (K : Type) where\n" + "".join(f"  {x} : K\n" for x in ENVVARS + fields) + "\n"
    out += "section\nvariable {K : Type} [Field K]\n\n"
    for n, m in pm:
        out += f"def {n} (v : Env K) : Matrix (Fin {dim}) (Fin {dim}) K :=\n  {mat_K(m)}\n\n"
    out += f"/-- argument of the first `expm` (deterministic drift), literally as in the source -/\ndef driftArg (v : Env K) : Matrix (Fin {dim}) (Fin {dim}) K :=\n  {mexpr_K(D, ns)}\n\n"
    out += f"/-- argument of the second `expm` (i times the stochastic generator), literally as in the source -/\ndef noiseArg (v : Env K) : Matrix (Fin {dim}) (Fin {dim}) K :=\n  {mexpr_K(A, ns)}\n\nend\n\n"
    # samples record + instantiation at ℂ
    out += "/-- the Gaussian samples drawn by one call, in draw-script order -/\nstructure Samples where\n" + \
        "".join(f"  {x} : ℝ\n" for x in sample_names) + "\n"
    ps = rec["params"]
    sig = " ".join(f"({p} : ℝ)" for p in ps)
    inst = {"c": "Complex.cos ((theta : ℂ) / 2)", "s": "Complex.sin ((theta : ℂ) / 2)",
            "e": "Complex.exp (Complex.I * (phi : ℂ))", "eb": "Complex.exp (-(Complex.I * (phi : ℂ)))", "i": "Complex.I"}
    rows = []
    for x in ENVVARS + fields:
        if x in inst:
            rows.append(f"    {x} := {inst[x]}")
        elif x in sample_names:
            rows.append(f"    {x} := ((w.{x} : ℝ) : ℂ)")
        elif x in table:
            a = " ".join(table[x][0])
            rows.append(f"    {x} := (({x} {a} : ℝ) : ℂ)" if a else f"    {x} := (({x} : ℝ) : ℂ)")
        else:
            rows.append(f"    {x} := (({x} : ℝ) : ℂ)")
    out += f"/-- the environment of one call `construct({', '.join(ps)})` with pulse parametrisation `F` and samples `w` -/\n"
    out += f"noncomputable def envOf (F : ℝ → ℝ) {sig} (w : Samples) : Env ℂ :=\n  {{\n" + ",\n".join(rows) + " }\n\n"
    out += "open scoped ComplexConjugate in\n/-- reality conditions every actual call satisfies: `c s`, strengths, drift integrals and samples are real, `e* = eb`, `i* = -i` -/\n"
    out += "structure IsReal (v : Env ℂ) : Prop where\n"
    for x in ENVVARS + fields:
        rhs = {"e": "v.eb", "eb": "v.e", "i": "-v.i"}.get(x, f"v.{x}")
        out += f"  {x} : conj v.{x} = {rhs}\n"
    out += "\n"
    out += "open scoped Matrix.Norms.Operator in\n/-- the sampled gate: `U @ expm(driftArg) @ expm(noiseArg)` (the composition is read off the source) -/\n"
    out += f"noncomputable def gate (v : Env ℂ) : Matrix (Fin {dim}) (Fin {dim}) ℂ :=\n  {U} v * NormedSpace.exp (driftArg v) * NormedSpace.exp (noiseArg v)\n\n"
    out += f"noncomputable def construct (F : ℝ → ℝ) {sig} (w : Samples) : Matrix (Fin {dim}) (Fin {dim}) ℂ :=\n  gate (envOf F {' '.join(ps)} w)\n\n"
    # draw script
    out += "/-! draw script (np.random calls in order):\n"
    for d in rec["draws"]:
        if d["kind"] == "normal":
            out += f"  normal   {d['name']}  std = {rr.r(fold(d['std']))}\n"
        else:
            out += f"  mvn      {', '.join(d['names'])}\n"
    out += "-/\n\n"
    # covariance tables
    for k, d in enumerate(rec["draws"]):
        if d["kind"] == "mvn":
            n = len(d["names"])
            fr = []
            for r in d["cov"]:
                for x in r:
                    for kind, nm in free(fold(x)):
                        for p in (table[nm][0] if nm in table else [nm]):
                            if p not in fr and p != "F":
                                fr.append(p)
            sigc = " ".join(f"({p} : ℝ)" for p in fr)
            body = "!![" + "; ".join(", ".join(rr.r(fold(x)) for x in r) for r in d["cov"]) + "]"
            out += f"/-- covariance handed to `multivariate_normal` for ({', '.join(d['names'])}) -/\n"
            out += f"noncomputable def cov_{d['names'][0]} (F : ℝ → ℝ) {sigc} : Matrix (Fin {n}) (Fin {n}) ℝ :=\n  {body}\n\n"
        else:
            fr = [nm for kind, nm in free(fold(d["std"]))]
            fr2 = []
            for nm in fr:
                for p in (table[nm][0] if nm in table else [nm]):
                    if p not in fr2:
                        fr2.append(p)
            sigc = " ".join(f"({p} : ℝ → ℝ)" if p == "F" else f"({p} : ℝ)" for p in fr2)
            out += f"/-- standard deviation handed to `np.random.normal` for {d['name']} -/\n"
            out += f"noncomputable def std_{d['name']} {sigc} : ℝ :=\n  {rr.r(fold(d['std']))}\n\n"
    out += f"end {ns}\n\n"
    meta = {"ns": ns, "dim": dim, "fields": fields, "samples": sample_names, "matrices": [n for n, _ in pm],
            "scalars": {n: table[n][0] for n in table}, "U": U, "params": ps,
            "draws": [d["names"] if d["kind"] == "mvn" else [d["name"]] for d in rec["draws"]]}
    return out, meta


def gen_literal(rec, integ_names):
    ns = LITERAL[rec["class"]]
    scal, mats = split_program(rec)
    rr, table, rtext = real_scalars(ns, scal, integ_names, rec["params"])
    sample_names = [x for d in rec["draws"] for x in ([d["name"]] if d["kind"] == "normal" else d["names"])]
    out = f"namespace {ns}\n\n" + rtext
    out += "structure Samples where\n" + "".join(f"  {x} : ℝ\n" for x in sample_names) + "\n"
    ps = rec["params"]
    sig = " ".join(f"({p} : ℝ)" for p in ps)
    lits = {}

    def mexpr_C(e):
        if isinstance(e, Mat):
            return "!![" + "; ".join(", ".join(lean_C(x, rr) for x in r) for r in e.rows) + "]"
        if e[0] == "mvar" and e[1] in lits:
            return f"({e[1]}Mat {' '.join(ps)} w)"
        if e[0] == "madd":
            return f"({mexpr_C(e[1])} + {mexpr_C(e[2])})"
        if e[0] == "smul":
            return f"({lean_C(fold(e[1]), rr)} • {mexpr_C(e[2])})"
        raise Unsupported(f"{ns}: matrix expression {e[0]}")

    def dim_of(e):
        if isinstance(e, Mat):
            return e.n
        if e[0] == "mvar":
            return lits[e[1]]
        if e[0] in ("madd",):
            return dim_of(e[1])
        if e[0] in ("smul", ):
            return dim_of(e[2])
        if e[0] == "expm":
            return dim_of(e[1])
        raise Unsupported(f"{ns}: dimension of {e[0]}")

    shape = None
    for n, m in mats:
        if n == "result" and isinstance(m, tuple) and m[0] == "expm":
            dim = dim_of(m[1])
            out += f"/-- argument of `expm`, literally as in the source -/\nnoncomputable def noiseArg {sig} (w : Samples) : Matrix (Fin {dim}) (Fin {dim}) ℂ :=\n  {mexpr_C(m[1])}\n\n"
            out += "open scoped Matrix.Norms.Operator in\n"
            out += f"noncomputable def construct {sig} (w : Samples) : Matrix (Fin {dim}) (Fin {dim}) ℂ :=\n  NormedSpace.exp (noiseArg {' '.join(ps)} w)\n\n"
            shape = "expm"
            continue
        dim = dim_of(m)
        out += f"noncomputable def {n}Mat {sig} (w : Samples) : Matrix (Fin {dim}) (Fin {dim}) ℂ :=\n  {mexpr_C(m)}\n\n"
        lits[n] = dim
        if n == "result":
            out += f"noncomputable def construct {sig} (w : Samples) : Matrix (Fin {dim}) (Fin {dim}) ℂ :=\n  resultMat {' '.join(ps)} w\n\n"
            shape = "literal"
    if shape is None or rec["result"] != ("mvar", "result"):
        raise Unsupported(f"{ns}: unsupported result shape")
    for d in rec["draws"]:
        if d["kind"] != "normal":
            raise Unsupported(f"{ns}: multivariate draw in a literal-mode factory")
        fr2 = []
        for kind, nm in free(fold(d["std"])):
            for p in (table[nm][0] if nm in table else [nm]):
                if p not in fr2:
                    fr2.append(p)
        sigc = " ".join(f"({p} : ℝ)" for p in fr2)
        out += f"/-- standard deviation handed to `np.random.normal` for {d['name']} -/\n"
        out += f"noncomputable def std_{d['name']} {sigc} : ℝ :=\n  {rr.r(fold(d['std']))}\n\n"
    out += f"end {ns}\n\n"
    return out, {"ns": ns, "samples": sample_names, "shape": shape, "params": ps, "scalars": {n: table[n][0] for n in table}}


HEADER = """import Mathlib.Analysis.Normed.Algebra.MatrixExponential
import Mathlib.Analysis.SpecialFunctions.Trigonometric.Basic
import Mathlib.Analysis.SpecialFunctions.Sqrt
import Mathlib.LinearAlgebra.Matrix.Notation
import QG.Spec.Integ
import QG.Spec.Kron2
import QG.Spec.Attr
/-! GENERATED on every run by harness/gen/factories_lean.py from
  {src}  (classes {classes})  and  {isrc}  (`_INTEGRAL_LOOKUP`).
Source text -> IR (harness/gen/factories.py) -> these definitions.  Do not edit.
Conventions: see the docstring of harness/gen/factories_lean.py (environment variables c s e eb i). -/
set_option linter.unusedVariables false
namespace QG.Gen
open Matrix

"""


def generate():
    ir = gf.extract()
    table = integrand_table()
    integ_names = {k: f"g{idx}" for idx, k in enumerate(table)}
    out = HEADER.format(src=gf.SRC, classes=", ".join(gf.ALL), isrc=INTEG_SRC)
    out += "/-! integrands `g_k(x)` = the k-th lambda of `_INTEGRAL_LOOKUP` at `(theta, a) = (x, 1)` -/\n"
    rr = RealRender("QG.Gen", {}, {})
    for k, g in table.items():
        out += f"/-- key `{k}` -/\nnoncomputable def {integ_names[k]} (x : ℝ) : ℝ :=\n  {rr.r(g)}\n\n"
    meta = {"integrands": {k: integ_names[k] for k in table}}
    for cname in gf.ELEMENTARY:
        if cname in POLY:
            t, m = gen_poly(ir[cname], integ_names)
        else:
            t, m = gen_literal(ir[cname], integ_names)
        out += t
        meta[cname] = m
    takesF = {}
    for cname in gf.ELEMENTARY:
        takesF[meta[cname]["ns"]] = cname in POLY
        meta[cname].setdefault("dim", 2)
    for cname in gf.WRAPPERS + gf.COMPOSITE:
        t, m = gen_composite(ir[cname], ir, integ_names, meta, takesF)
        out += t
        meta[cname] = m
        takesF[m["ns"]] = True
    out += "end QG.Gen\n"
    out = tag_defs(out)
    core.write_if_changed(os.path.join(core.LEAN, "QG", "Gen", "Factories.lean"), out)
    return ir, meta


def poly_records(ir):
    """copies of the poly-mode factories' records in which every literal matrix went through `to_poly`; evaluating them
    with c, s, e, eb, i bound to their actual values validates the rendering table numerically"""
    out = dict(ir)
    for cname in POLY:
        rec = dict(ir[cname])
        rec["named"] = [(n, k, to_poly(fold(v)) if isinstance(v, Mat) else v) for n, k, v in rec["named"]]
        rec["poly"] = True
        out[cname] = rec
    return out


# ------------------------------------------------------------------------------------ composite factories
def gen_composite(rec, ir, integ_names, metas, takesF):
    ns = COMPOSITE[rec["class"]]
    scal, mats = split_program(rec)
    rr, table, rtext = real_scalars(ns, scal, integ_names, rec["params"])
    ps = rec["params"]
    sig = " ".join(f"({p} : ℝ)" for p in ps)
    fields, callexpr = [], []
    for k, c in enumerate(rec["calls"]):
        sub = rec["attrs"].get(c["attr"])
        if sub is None or c["method"] != "construct":
            raise Unsupported(f"{ns}: call self.{c['attr']}.{c['method']}")
        subns = {**{k2: v[0] for k2, v in POLY.items()}, **LITERAL, **COMPOSITE}[sub]
        fname = c["target"] if c["target"] and re.fullmatch(r"[A-Za-z_][A-Za-z0-9_]*", c["target"]) else f"g{k}"
        if fname in [f for f, _ in fields]:
            fname = f"{fname}_{k}"
        fields.append((fname, subns))
        if len(c["args"]) != len(ir[sub]["params"]):
            raise Unsupported(f"{ns}: arity of call {k}")
        args = " ".join(rr.r(fold(a)) for a in c["args"])
        callexpr.append(f"({subns}.construct {'F ' if takesF[subns] else ''}{args} w.{fname})")
    dims = {}

    def mexpr(e):
        t = e[0]
        if t == "gate":
            return callexpr[e[1]]
        if t == "matmul":
            return f"({mexpr(e[1])} * {mexpr(e[2])})"
        if t == "kron":
            return f"(QG.Spec.kron2 {mexpr(e[1])} {mexpr(e[2])})"
        if t == "smul":
            return f"({lean_C(fold(e[1]), rr)} • {mexpr(e[2])})"
        raise Unsupported(f"{ns}: composite expression {t}")

    md = dict(mats)

    def inline(e):
        if isinstance(e, Mat):
            raise Unsupported(f"{ns}: literal matrix in a composite factory")
        if e[0] == "mvar":
            return inline(md[e[1]])
        if e[0] in ("matmul", "kron"):
            return (e[0], inline(e[1]), inline(e[2]))
        if e[0] == "smul":
            return ("smul", e[1], inline(e[2]))
        return e

    res = inline(rec["result"])

    def dim(e):
        t = e[0]
        if t == "gate":
            return metas[rec["attrs"][rec["calls"][e[1]]["attr"]]]["dim"]
        if t == "matmul":
            a, b = dim(e[1]), dim(e[2])
            if a != b:
                raise Unsupported(f"{ns}: product of {a}x{a} with {b}x{b}")
            return a
        if t == "kron":
            if dim(e[1]) != 2 or dim(e[2]) != 2:
                raise Unsupported(f"{ns}: kron of non-2x2")
            return 4
        if t == "smul":
            return dim(e[2])
        raise Unsupported(f"{ns}: composite expression {t}")

    d = dim(res)
    out = f"namespace {ns}\n\n" + rtext
    out += "/-- the samples of the constituent pulses, one record per constituent call (in call order) -/\nstructure Samples where\n" + \
        "".join(f"  {f} : {s}.Samples\n" for f, s in fields) + "\n"
    out += f"/-- `{rec['class']}.construct`: the product is read off the source; every constituent call with its argument expressions -/\n"
    out += f"noncomputable def construct (F : ℝ → ℝ) {sig} (w : Samples) : Matrix (Fin {d}) (Fin {d}) ℂ :=\n  {mexpr(res)}\n\n"
    out += f"end {ns}\n\n"
    meta = {"ns": ns, "dim": d, "params": ps, "fields": fields, "scalars": {n: table[n][0] for n in table},
            "calls": [{"field": f, "sub": s, "attr": c["attr"], "src": c["src"]} for (f, s), c in zip(fields, rec["calls"])]}
    return out, meta


def tag_defs(text):
    """append `attribute [qg_unfold] ...` for every definition, namespace by namespace"""
    out, stack, names = [], [], {}
    for line in text.split("\n"):
        m = re.match(r"namespace (\S+)", line)
        if m:
            stack.append(m.group(1)); names.setdefault(tuple(stack), [])
        m2 = re.match(r"(?:noncomputable )?def (\S+)", line)
        if m2 and stack:
            names[tuple(stack)].append(m2.group(1))
        m3 = re.match(r"end (\S+)", line)
        if m3 and stack and stack[-1] == m3.group(1):
            ns = names.get(tuple(stack), [])
            if ns:
                out.append("attribute [qg_unfold] " + " ".join(ns) + "\n")
            stack.pop()
        out.append(line)
    return "\n".join(out)
