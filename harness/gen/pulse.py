"""Translator instance for C13: source text of src/quantum_gates/_gates/pulse.py -> IR -> lean/QG/Gen/Pulse.lean.

Never imports the repository (stdlib `ast` on the source text + qgv.pyexpr).  What comes from the AST:
  * which methods `GaussianPulse.__init__` hands to `Pulse.__init__` as `pulse=` / `parametrization=`, and how
    `self._loc` / `self._scale` are bound to the constructor arguments,
  * the complete expression of those two methods (what is divided by what; `cdf(1) - cdf(0)` in the denominators,
    `cdf(x) - cdf(0)` in the numerator), with calls to other methods / module functions inlined,
  * the denominator expression and the asserted condition of `GaussianPulse._validate_inputs`, the variables whose
    `type(...)` is asserted and the list of accepted types,
  * the functions handed over by `ConstantPulse` / `ConstantPulseNumerical`, the class attributes `Pulse.epsilon`
    and `Pulse.check_n_points`, the slack of the sampled monotonicity comparison in `_parametrization_is_valid`
    (0 on the pinned tree; `self.epsilon**2` after the repair of D17), and the arguments of the bundled `gaussian_pulse`.

TRUSTED MAPPING TABLE (Python callable -> Lean; the only part that is not structural):
    scipy.stats.norm.pdf(x, loc, scale)  ->  normPdf x loc scale   (= gaussianPDFReal loc (scale^2) x)
    scipy.stats.norm.cdf(x, loc, scale)  ->  normCdf x loc scale   (= cdf (gaussianReal loc (scale^2)) x)
    scipy.stats.norm.sf(x, loc, scale)   ->  normSf x loc scale    (= 1 - normCdf x loc scale)
(exactly three positional arguments, no keywords; definitions and their justification: lean/QG/Lemmas/NormalDist.lean).
Everything else inside the anchored functions makes the translator fail closed (`pyexpr.Unsupported`).
"""
import ast, os
from fractions import Fraction
from qgv import core, pyexpr
from qgv.pyexpr import Unsupported

SRC = "src/quantum_gates/_gates/pulse.py"
NORM = {"scipy.stats.norm.pdf": "npdf", "scipy.stats.norm.cdf": "ncdf", "scipy.stats.norm.sf": "nsf"}
LEAN_NORM = {"npdf": "normPdf", "ncdf": "normCdf", "nsf": "normSf"}
INIT_ORDER = ["pulse", "parametrization", "perform_checks", "use_lookup"]     # Pulse.__init__ signature, checked below


# ------------------------------------------------------------------------------------------ IR helpers
def lower(e, fn):
    """rebuild the IR bottom-up, replacing ("npdf"|"ncdf"|"nsf", x, loc, scale) nodes by fn(tag, [x, loc, scale])"""
    if isinstance(e, tuple) and e and isinstance(e[0], str):
        kids = tuple(lower(x, fn) for x in e[1:])
        if e[0] in LEAN_NORM:
            return fn(e[0], list(kids))
        return (e[0],) + kids
    return e


def to_lean(e):
    return pyexpr.lean_real(lower(e, lambda tag, a: ("var", "(" + " ".join([LEAN_NORM[tag]] + [pyexpr.lean_real(x) for x in a]) + ")")))


def cond_to_lean(c):
    if c[0] != "cmp":
        raise Unsupported("asserted condition is not a comparison")
    l = lower(c, lambda tag, a: ("var", "(" + " ".join([LEAN_NORM[tag]] + [pyexpr.lean_real(x) for x in a]) + ")"))
    return pyexpr.lean_cond(l, None)


def evaluate(e, env, norm):
    """numeric value of the IR; `norm`: {"npdf": f(x, loc, scale), "ncdf": ..., "nsf": ...} supplied by the caller"""
    env = dict(env)

    def leaf(tag, a):
        name = f"__n{len(env)}"
        env[name] = norm[tag](*[pyexpr.evaluate(x, env) for x in a])
        return ("var", name)
    return pyexpr.evaluate(lower(e, leaf), env)


def exact(e):
    """exact value of a constant IR expression"""
    t = e[0]
    if t == "num":
        return Fraction(e[1])
    if t == "neg":
        return -exact(e[1])
    if t in ("add", "sub", "mul", "div"):
        a, b = exact(e[1]), exact(e[2])
        return a + b if t == "add" else a - b if t == "sub" else a * b if t == "mul" else a / b
    if t == "pow":
        return exact(e[1]) ** e[2]
    raise Unsupported(f"not a constant expression: {t}")


def nodes(e):
    if isinstance(e, tuple) and e and isinstance(e[0], str):
        yield e
        for x in e[1:]:
            yield from nodes(x)


# ------------------------------------------------------------------------------------------ extraction
def normalize(stmts):
    """`if c: ...; return A` followed by more statements  ==  `if c: ...; return A  else: <the rest>` (early return)"""
    stmts = list(stmts)
    for i, st in enumerate(stmts):
        if isinstance(st, ast.If):
            body, orelse = normalize(st.body), normalize(st.orelse)
            if body and isinstance(body[-1], ast.Return) and not orelse and stmts[i + 1:]:
                orelse = normalize(stmts[i + 1:])
                return stmts[:i] + [ast.If(test=st.test, body=body, orelse=orelse)]
            stmts[i] = ast.If(test=st.test, body=body, orelse=orelse)
    return stmts


class Extractor:
    def __init__(self, tree):
        self.tree = tree
        self.depth = 0

    def cls(self, name):
        c = [n for n in self.tree.body if isinstance(n, ast.ClassDef) and n.name == name]
        if len(c) != 1:
            raise Unsupported(f"class {name} not found exactly once")
        return c[0]

    def method(self, cls, name):
        f = [n for n in self.cls(cls).body if isinstance(n, ast.FunctionDef) and n.name == name]
        if len(f) != 1:
            raise Unsupported(f"method {cls}.{name} not found exactly once")
        return f[0]

    def module_function(self, name):
        f = [n for n in self.tree.body if isinstance(n, ast.FunctionDef) and n.name == name]
        if len(f) != 1:
            raise Unsupported(f"module function {name} not found exactly once")
        return f[0]

    @staticmethod
    def plain_params(fn):
        a = fn.args
        if a.vararg or a.kwarg or a.kwonlyargs or a.posonlyargs:
            raise Unsupported(f"signature of {fn.name}")
        return [x.arg for x in a.args]

    @staticmethod
    def is_static(fn):
        d = [ast.unparse(x) for x in fn.decorator_list]
        if d not in ([], ["staticmethod"]):
            raise Unsupported(f"decorators {d} on {fn.name}")
        return d == ["staticmethod"]

    def symexec(self, cls, params, attrs):
        """SymExec whose hooks know scipy.stats.norm.*, `self._attr` and calls to sibling methods / module functions"""
        def attr_hook(ex, node):
            if isinstance(node.value, ast.Name) and node.value.id == "self" and node.attr in attrs:
                return attrs[node.attr]
            return None

        def call_hook(ex, node, f):
            if node.keywords:
                raise Unsupported(f"keyword arguments in call {f}")
            if f in NORM:
                if len(node.args) != 3:
                    raise Unsupported(f"{f} with {len(node.args)} arguments (mapping table: exactly x, loc, scale)")
                return (NORM[f],) + tuple(ex.ev(a) for a in node.args)
            fn = None
            if cls and (f.startswith("self.") or f.startswith(cls + ".")) and f.count(".") == 1:
                fn = self.method(cls, f.split(".")[1])
                params_ = self.plain_params(fn)
                if not self.is_static(fn):
                    if not f.startswith("self."):
                        raise Unsupported(f"unbound call {f}")
                    params_ = params_[1:]
            elif "." not in f:
                fn = self.module_function(f)
                params_ = self.plain_params(fn)
            if fn is None:
                return None
            if fn.args.defaults or len(params_) != len(node.args):
                raise Unsupported(f"call {f}: arity / defaults")
            self.depth += 1
            if self.depth > 6:
                raise Unsupported("call depth")
            sub = self.symexec(cls, dict(zip(params_, [ex.ev(a) for a in node.args])), attrs)
            r = sub.run(normalize(fn.body))
            self.depth -= 1
            if r is None or not isinstance(r, tuple):
                raise Unsupported(f"{f} does not return a scalar expression")
            return r
        return pyexpr.SymExec(params, call_hook, attr_hook)

    # ---- Pulse base class ----------------------------------------------------------------------------
    def pulse_constants(self):
        out = {}
        for st in self.cls("Pulse").body:
            if isinstance(st, ast.Assign) and len(st.targets) == 1 and isinstance(st.targets[0], ast.Name) \
                    and st.targets[0].id in ("epsilon", "check_n_points"):
                v = pyexpr.SymExec({}).ev(st.value)
                if not pyexpr.is_num(v):
                    raise Unsupported("Pulse." + st.targets[0].id + " is not a literal")
                out[st.targets[0].id] = v[1]
        if set(out) != {"epsilon", "check_n_points"} or out["check_n_points"].denominator != 1 or out["check_n_points"] < 0 \
                or out["epsilon"] <= 0:
            raise Unsupported(f"Pulse.epsilon / Pulse.check_n_points: {out}")
        init = self.method("Pulse", "__init__")
        if self.plain_params(init) != ["self"] + INIT_ORDER:
            raise Unsupported("signature of Pulse.__init__ changed")
        return out

    def mono_tolerance(self, eps):
        """slack of the sampled monotonicity comparison in Pulse._parametrization_is_valid:
             all(parametrization(x + self.epsilon) >= parametrization(x)          for x in np.linspace(0, 1-self.epsilon, n))  -> 0
             all(parametrization(x + self.epsilon) >= parametrization(x) - <tol>  for x in ...)   -> <tol>, a constant in self.epsilon
        (the rest of the validators is hand-modelled and tied by correspondence; this one number is read from the source)"""
        fn = self.method("Pulse", "_parametrization_is_valid")
        params = self.plain_params(fn)
        if len(params) != 2:
            raise Unsupported("signature of _parametrization_is_valid")
        pname = params[1]
        for st in fn.body:
            if isinstance(st, ast.Assign) and len(st.targets) == 1 and ast.unparse(st.targets[0]) == "is_monotone":
                v = st.value
                if not (isinstance(v, ast.Call) and ast.unparse(v.func) == "all" and len(v.args) == 1 and isinstance(v.args[0], ast.GeneratorExp)):
                    raise Unsupported("is_monotone is not all(<generator>)")
                g = v.args[0]
                if len(g.generators) != 1 or g.generators[0].ifs or not isinstance(g.generators[0].target, ast.Name) or \
                        ast.unparse(g.generators[0].iter) != "np.linspace(0, 1 - self.epsilon, self.check_n_points)":
                    raise Unsupported("is_monotone: grid " + ast.unparse(g.generators[0].iter))
                x, c = g.generators[0].target.id, g.elt
                if not (isinstance(c, ast.Compare) and len(c.ops) == 1 and isinstance(c.ops[0], ast.GtE)
                        and ast.unparse(c.left) == f"{pname}({x} + self.epsilon)"):
                    raise Unsupported("is_monotone: comparison " + ast.unparse(c))
                rhs = c.comparators[0]
                if ast.unparse(rhs) == f"{pname}({x})":
                    return Fraction(0)
                if isinstance(rhs, ast.BinOp) and isinstance(rhs.op, ast.Sub) and ast.unparse(rhs.left) == f"{pname}({x})":
                    hook = lambda ex, node: pyexpr.num(eps) if ast.unparse(node) == "self.epsilon" else None    # noqa
                    tol = exact(pyexpr.SymExec({}, attr_hook=hook).ev(rhs.right))
                    if tol < 0:
                        raise Unsupported("negative monotonicity slack")
                    return tol
                raise Unsupported("is_monotone: right-hand side " + ast.unparse(rhs))
        raise Unsupported("_parametrization_is_valid: no is_monotone")

    def super_init_call(self, cls, init, _params):
        """the single `super().__init__(...)` call of `init`: returns {pulse, parametrization, perform_checks, use_lookup} as AST"""
        calls = [st for st in init.body if isinstance(st, ast.Expr) and isinstance(st.value, ast.Call)
                 and ast.unparse(st.value.func) in ("super().__init__", f"super({cls}, self).__init__")]
        if len(calls) != 1:
            raise Unsupported(f"{cls}.__init__: expected exactly one super().__init__ call")
        c = calls[0].value
        got = dict(zip(INIT_ORDER, c.args))
        for k in c.keywords:
            if k.arg not in INIT_ORDER or k.arg in got:
                raise Unsupported(f"{cls}.__init__: argument {k.arg}")
            got[k.arg] = k.value
        if "pulse" not in got or "parametrization" not in got:
            raise Unsupported(f"{cls}.__init__: pulse / parametrization not passed")
        return calls[0], got

    # ---- GaussianPulse -------------------------------------------------------------------------------
    def gaussian(self):
        cls = "GaussianPulse"
        init = self.method(cls, "__init__")
        params = self.plain_params(init)
        if params[:3] != ["self", "loc", "scale"] or params[3:] not in ([], ["perform_checks"]):
            raise Unsupported(f"GaussianPulse.__init__ signature {params}")
        sup, got = self.super_init_call(cls, init, params)
        attrs, validated_before, seen_super = {}, False, False
        ex0 = pyexpr.SymExec({"loc": "scalar", "scale": "scalar"})
        for st in init.body:
            if isinstance(st, ast.Expr) and isinstance(st.value, ast.Constant) and isinstance(st.value.value, str):
                continue
            if st is sup:
                seen_super = True
                continue
            if isinstance(st, ast.Expr) and isinstance(st.value, ast.Call) and \
                    ast.unparse(st.value) in ("self._validate_inputs(loc, scale)", "GaussianPulse._validate_inputs(loc, scale)"):
                if attrs or seen_super:
                    raise Unsupported("_validate_inputs is not the first action of the constructor")
                validated_before = True
                continue
            if isinstance(st, ast.Assign) and len(st.targets) == 1 and isinstance(st.targets[0], ast.Attribute) \
                    and isinstance(st.targets[0].value, ast.Name) and st.targets[0].value.id == "self" and not seen_super:
                attrs[st.targets[0].attr] = ex0.ev(st.value)
                continue
            raise Unsupported("GaussianPulse.__init__: statement " + ast.unparse(st)[:60])
        if not validated_before:
            raise Unsupported("GaussianPulse.__init__ does not call _validate_inputs(loc, scale) first")
        meth = {}
        for k in ("pulse", "parametrization"):
            v = got[k]
            if not (isinstance(v, ast.Attribute) and isinstance(v.value, ast.Name) and v.value.id == "self"):
                raise Unsupported(f"GaussianPulse passes {ast.unparse(v)} as {k}")
            meth[k] = v.attr
        if "perform_checks" in got and ast.unparse(got["perform_checks"]) not in ("perform_checks", "False"):
            raise Unsupported("perform_checks is not passed through")
        irs = {}
        for k, m in meth.items():
            fn = self.method(cls, m)
            if self.is_static(fn) or self.plain_params(fn) != ["self", "x"]:
                raise Unsupported(f"signature of {m}")
            r = self.symexec(cls, {"x": "scalar"}, attrs).run(normalize(fn.body))
            if r is None or not isinstance(r, tuple):
                raise Unsupported(f"{m} does not return a scalar expression")
            irs[k] = r
        return {"methods": meth, "waveform": irs["pulse"], "param": irs["parametrization"],
                "lines": {k: self.method(cls, m).lineno for k, m in meth.items()}, **self.validate_inputs()}

    def validate_inputs(self):
        cls = "GaussianPulse"
        fn = self.method(cls, "_validate_inputs")
        if not self.is_static(fn) or self.plain_params(fn) != ["loc", "scale"]:
            raise Unsupported("signature of _validate_inputs")
        ex = self.symexec(cls, {"loc": "scalar", "scale": "scalar"}, {})
        valid_types, type_checked, cond, den = None, [], None, None
        domain, den_assigned = None, False
        for st in fn.body:
            if isinstance(st, ast.Expr) and isinstance(st.value, ast.Constant) and isinstance(st.value.value, str):
                continue
            if isinstance(st, ast.Assign) and len(st.targets) == 1 and isinstance(st.targets[0], ast.Name):
                name = st.targets[0].id
                if isinstance(st.value, (ast.List, ast.Tuple)) and name == "valid_types":
                    valid_types = [ast.unparse(x) for x in st.value.elts]
                    continue
                if cond is not None:
                    raise Unsupported("assignment after the denominator assertion")
                ex.env[name] = ex.ev(st.value)
                den_assigned = True
                continue
            if isinstance(st, ast.Assert):
                t = st.test
                if isinstance(t, ast.Compare) and len(t.ops) == 1 and isinstance(t.ops[0], ast.In) and \
                        isinstance(t.left, ast.Call) and ast.unparse(t.left.func) == "type" and len(t.left.args) == 1 \
                        and isinstance(t.left.args[0], ast.Name) and t.left.args[0].id in ("loc", "scale") \
                        and ast.unparse(t.comparators[0]) == "valid_types" and valid_types is not None and cond is None:
                    type_checked.append(t.left.args[0].id)
                    continue
                # the domain guard: a conjunction of `np.isfinite(v)` and `v > 0` / `0 < v` terms over loc / scale, before the denominator
                if cond is None and den_assigned is False and isinstance(t, ast.BoolOp) and isinstance(t.op, ast.And) and domain is None:
                    fin, pos = [], []
                    for term in t.values:
                        if isinstance(term, ast.Call) and ast.unparse(term.func) == "np.isfinite" and len(term.args) == 1 \
                                and isinstance(term.args[0], ast.Name) and term.args[0].id in ("loc", "scale"):
                            fin.append(term.args[0].id)
                        elif isinstance(term, ast.Compare) and len(term.ops) == 1 and ast.unparse(term) in ("scale > 0", "0 < scale", "loc > 0", "0 < loc"):
                            pos.append("scale" if "scale" in ast.unparse(term) else "loc")
                        else:
                            raise Unsupported("_validate_inputs: term of the domain guard " + ast.unparse(term)[:60])
                    domain = {"finite": fin, "positive": pos, "after_type_checks": len(type_checked)}
                    continue
                if cond is None and isinstance(t, ast.Compare):
                    cond = ex.ev(t)
                    continue
            raise Unsupported("_validate_inputs: statement " + ast.unparse(st)[:60])
        if cond is None or valid_types is None:
            raise Unsupported("_validate_inputs: no denominator assertion / valid_types")
        if not (cond[0] == "cmp" and cond[1] == "!=" and pyexpr.is_num(cond[3], 0)):
            raise Unsupported("_validate_inputs: asserted condition is not `<denominator> != 0`")
        return {"valid_types": valid_types, "type_checked": type_checked, "accept_cond": cond, "denominator": cond[2],
                "domain": domain or {"finite": [], "positive": [], "after_type_checks": len(type_checked)}}

    # ---- constant pulses -----------------------------------------------------------------------------
    def constant(self, cls):
        init = self.method(cls, "__init__")
        if self.plain_params(init) != ["self"]:
            raise Unsupported(f"{cls}.__init__ signature")
        sup, got = self.super_init_call(cls, init, [])
        for st in init.body:
            if st is sup or (isinstance(st, ast.Expr) and isinstance(st.value, ast.Constant)):
                continue
            raise Unsupported(f"{cls}.__init__: statement " + ast.unparse(st)[:60])
        out = {}
        for k in ("pulse", "parametrization"):
            if not isinstance(got[k], ast.Name):
                raise Unsupported(f"{cls} passes {ast.unparse(got[k])} as {k}")
            fn = self.module_function(got[k].id)
            if self.plain_params(fn) != ["x"] or fn.decorator_list:
                raise Unsupported(f"signature of {fn.name}")
            r = self.symexec(None, {"x": "scalar"}, {}).run(normalize(fn.body))
            if r is None or not isinstance(r, tuple):
                raise Unsupported(f"{fn.name} does not return a scalar expression")
            out[k] = r
            out[k + "_name"] = fn.name
        for k in ("perform_checks", "use_lookup"):
            out[k] = ast.unparse(got[k]) if k in got else "False"
        return out

    def bundled(self):
        out = {}
        for st in self.tree.body:
            if isinstance(st, ast.Assign) and len(st.targets) == 1 and isinstance(st.targets[0], ast.Name) \
                    and isinstance(st.value, ast.Call) and ast.unparse(st.value.func) == "GaussianPulse":
                c = st.value
                got = dict(zip(["loc", "scale", "perform_checks"], c.args))
                for k in c.keywords:
                    got[k.arg] = k.value
                vals = {}
                for k in ("loc", "scale"):
                    v = pyexpr.SymExec({}).ev(got[k]) if k in got else None
                    if v is None or not pyexpr.is_num(v):
                        raise Unsupported(f"bundled {st.targets[0].id}: {k} is not a literal")
                    vals[k] = v[1]
                out[st.targets[0].id] = vals
        return out


def extract():
    path = os.path.join(core.REPO, SRC)
    tree = ast.parse(open(path, encoding="utf-8").read())
    ex = Extractor(tree)
    consts = ex.pulse_constants()
    consts["mono_tol"] = ex.mono_tolerance(consts["epsilon"])
    ir = {"constants": consts, "gaussian": ex.gaussian(),
          "constant_classes": {c: ex.constant(c) for c in ("ConstantPulse", "ConstantPulseNumerical")},
          "bundled": ex.bundled()}
    # the generated definitions may only mention x, loc, scale and the three mapped callables
    g = ir["gaussian"]
    for key, allowed in (("waveform", {"x", "loc", "scale"}), ("param", {"x", "loc", "scale"}), ("denominator", {"loc", "scale"})):
        for n in nodes(g[key]):
            if n[0] == "var" and n[1] not in allowed:
                raise Unsupported(f"{key} mentions {n[1]}")
            if n[0] in ("idx", "sum", "mat", "matmul", "kron", "expm", "I", "npow"):
                raise Unsupported(f"{key}: node {n[0]}")
    return ir


def lean_name(cls):
    return cls[0].lower() + cls[1:]


def frac(q, ty="ℝ"):
    q = Fraction(q)
    return f"(({q.numerator} : {ty}) / {q.denominator})" if q.denominator != 1 else f"({q.numerator} : {ty})"


def generate():
    ir = extract()
    g, k = ir["gaussian"], ir["constants"]
    dom = g.get("domain") or {"finite": [], "positive": []}
    eps, tol = Fraction(k["epsilon"]), Fraction(k["mono_tol"])
    parts = [f"""import QG.Lemmas.NormalDist
/-! GENERATED on every run by harness/gen/pulse.py from the source text of {SRC}.  Do not edit.
Mapping table (trusted, three rows): scipy.stats.norm.pdf/cdf/sf(x, loc, scale) ↦ normPdf/normCdf/normSf x loc scale
(QG/Lemmas/NormalDist.lean).  Everything else is a literal rendering of the Python AST. -/
set_option linter.unusedVariables false
namespace QG.Gen.Pulse
open QG.Lemmas.NormalDist

/-- `GaussianPulse.{g['methods']['pulse']}` (line {g['lines']['pulse']}), handed to `Pulse.__init__` as `pulse=` -/
noncomputable def gaussianWaveform (loc scale x : ℝ) : ℝ :=
  {to_lean(g['waveform'])}

/-- `GaussianPulse.{g['methods']['parametrization']}` (line {g['lines']['parametrization']}), handed over as `parametrization=` -/
noncomputable def gaussianParam (loc scale x : ℝ) : ℝ :=
  {to_lean(g['param'])}

/-- the `denominator` computed by `GaussianPulse._validate_inputs` -/
noncomputable def gaussianDenominator (loc scale : ℝ) : ℝ :=
  {to_lean(g['denominator'])}

/-- the condition `_validate_inputs` asserts about it -/
def gaussianInputsAccepted (loc scale : ℝ) : Prop :=
  {cond_to_lean(g['accept_cond'])}

/-- the domain guard `_validate_inputs` asserts before computing the denominator: `np.isfinite` of {dom['finite']} (true of every real
number) and positivity of {dom['positive']}; `True` when the source has no such assertion -/
def gaussianDomainOk (loc scale : ℝ) : Prop :=
  {' ∧ '.join(f'0 < {v}' for v in dom['positive']) if dom['positive'] else 'True'}

/-- `Pulse.epsilon = {eps.numerator}/{eps.denominator}` and `Pulse.check_n_points` -/
def pulseEpsilonNum : ℕ := {eps.numerator}
def pulseEpsilonDen : ℕ := {eps.denominator}
def pulseCheckNPoints : ℕ := {int(k['check_n_points'])}
/-- slack of the sampled monotonicity comparison of `Pulse._parametrization_is_valid` (`F(x+ε) >= F(x) - slack`) -/
def pulseMonoTolNum : ℕ := {tol.numerator}
def pulseMonoTolDen : ℕ := {tol.denominator}
"""]
    for cls, c in ir["constant_classes"].items():
        n = lean_name(cls)
        parts.append(f"""
/-- `{cls}`: `pulse={c['pulse_name']}`, `parametrization={c['parametrization_name']}`, `perform_checks={c['perform_checks']}`, `use_lookup={c['use_lookup']}` -/
noncomputable def {n}Waveform (x : ℝ) : ℝ := {to_lean(c['pulse'])}
noncomputable def {n}Param (x : ℝ) : ℝ := {to_lean(c['parametrization'])}
""")
    for name, v in ir["bundled"].items():
        n = "".join(w.capitalize() for w in name.split("_"))
        parts.append(f"""
/-- bundled instance `{name} = GaussianPulse(loc={v['loc']}, scale={v['scale']})` -/
noncomputable def bundled{n}Loc : ℝ := {frac(v['loc'])}
noncomputable def bundled{n}Scale : ℝ := {frac(v['scale'])}
""")
    parts.append("\nend QG.Gen.Pulse\n")
    core.write_if_changed(os.path.join(core.LEAN, "QG", "Gen", "Pulse.lean"), "".join(parts))
    return ir
