"""Translator instance for C17: compute_Hellinger_distance (source text) -> IR -> lean/QG/Gen/Hellinger.lean"""
import ast, os
from qgv import core, pyexpr

SRC = "src/quantum_gates/_utility/simulations_utility.py"


def extract():
    path = os.path.join(core.REPO, SRC)
    tree = ast.parse(open(path, encoding="utf-8").read())
    fn = pyexpr.find_function(tree, "compute_Hellinger_distance")
    args = [a.arg for a in fn.args.args]
    if len(args) != 3:
        raise pyexpr.Unsupported(f"signature changed: {args}")
    ex = pyexpr.SymExec({args[0]: "vec", args[1]: "vec", args[2]: "nat"})
    ir = ex.run(fn.body)
    if ir is None or isinstance(ir, pyexpr.Vec):
        raise pyexpr.Unsupported("function does not return a scalar expression")
    return args, ir, fn.lineno


def generate():
    args, ir, line = extract()
    body = pyexpr.lean_real(ir)
    text = f"""import Mathlib.Analysis.SpecialFunctions.Sqrt
import Mathlib.Algebra.BigOperators.Group.Finset.Basic
/-! GENERATED on every run by harness/gen/hellinger.py from {SRC}:{line}
(`compute_Hellinger_distance`, source text -> IR -> this definition).  Do not edit. -/
namespace QG.Gen
open Finset

noncomputable def hellinger ({args[0]} {args[1]} : ℕ → ℝ) ({args[2]} : ℕ) : ℝ :=
  {body}

end QG.Gen
"""
    core.write_if_changed(os.path.join(core.LEAN, "QG", "Gen", "Hellinger.lean"), text)
    return args, ir
