"""IR of gates.py (gen/gatesets.py) -> lean/QG/Gen/GateSets.lean : the `Gates`, `NoiseFreeGates` and `ScaledNoiseGates`
classes as Lean definitions on top of QG.Gen (factories)."""
import os, re
from qgv import core
from qgv.pyexpr import Unsupported
from qgv.pymat import Mat
from gen import factories as gf, gatesets as gs
from gen import factories_lean as fl

FACT_NS = {**{k: v[0] for k, v in fl.POLY.items()}, **fl.LITERAL, **fl.COMPOSITE}


def generate(fmeta=None):
    if fmeta is None:
        _, fmeta = fl.generate()
    g = gs.extract()
    out = f"""import QG.Gen.Factories
/-! GENERATED on every run by harness/gen/gatesets_lean.py from {gs.SRC}
(classes Gates, NoiseFreeGates, ScaledNoiseGates; source text -> IR -> these definitions).  Do not edit. -/
set_option linter.unusedVariables false
namespace QG.Gen
open Matrix

"""
    takesF = {fmeta[c]["ns"]: (c in fl.POLY or c in fl.COMPOSITE) for c in gf.ALL}
    meta = {"Gates": {}, "NoiseFree": {}, "Scaled": {}}
    # ---- Gates: pass-through to the factories
    out += "namespace GatesCls\n\n"
    G = g["Gates"]
    for m, r in G["methods"].items():
        if len(r["calls"]) != 1 or r["result"] != ("gate", 0) or r["named"]:
            raise Unsupported(f"Gates.{m} is not a pass-through")
        c = r["calls"][0]
        sub = G["attrs"].get(c["attr"])
        if sub not in FACT_NS or c["method"] != "construct":
            raise Unsupported(f"Gates.{m}: call self.{c['attr']}.{c['method']}")
        ns = FACT_NS[sub]
        rr = fl.RealRender("QG.Gen.GatesCls", {}, {})
        if len(c["args"]) != len(fmeta[sub]["params"]):
            raise Unsupported(f"Gates.{m}: arity")
        sig = " ".join(f"({p} : ℝ)" for p in r["params"])
        args = " ".join(rr.r(fl.fold(a)) for a in c["args"])
        d = fmeta[sub].get("dim", 2)
        fpar = "(F : ℝ → ℝ) " if takesF[ns] else ""
        out += f"/-- `Gates.{m}` -> `{sub}.construct` -/\nnoncomputable def {m} {fpar}{sig} (w : {ns}.Samples) : Matrix (Fin {d}) (Fin {d}) ℂ :=\n  {ns}.construct {'F ' if takesF[ns] else ''}{args} w\n\n"
        meta["Gates"][m] = {"factory": sub, "ns": ns, "dim": d, "takesF": takesF[ns], "params": r["params"]}
    out += "end GatesCls\n\n"
    # ---- NoiseFreeGates
    out += "namespace NoiseFree\n\n"
    NF = g["NoiseFreeGates"]
    dims = {}
    for m, r in NF["methods"].items():
        ns = f"QG.Gen.NoiseFree.{m}_"
        scal = [(n, fl.fold(v)) for n, k, v in r["named"] if k == "scalar"]
        mats = {n: (fl.fold(v) if isinstance(v, Mat) else v) for n, k, v in r["named"] if k == "matrix"}
        rr, table, rtext = fl.real_scalars(f"NoiseFree.{m}_", scal, {}, r["params"])
        rtext = rtext.replace("noncomputable def ", f"noncomputable def {m}_.")
        out += rtext
        sig = " ".join(f"({p} : ℝ)" for p in r["params"])

        def dim(e):
            if isinstance(e, Mat):
                return e.n
            t = e[0]
            if t == "mvar":
                return dim(mats[e[1]])
            if t == "gate":
                return dims[r["calls"][e[1]]["method"]]
            if t == "matmul":
                return dim(e[1])
            if t == "kron":
                return 4
            if t == "smul":
                return dim(e[2])
            raise Unsupported(f"NoiseFree.{m}: {t}")

        def mexpr(e):
            if isinstance(e, Mat):
                return "!![" + "; ".join(", ".join(fl.lean_C(x, rr) for x in row) for row in e.rows) + "]"
            t = e[0]
            if t == "mvar":
                return mexpr(mats[e[1]])
            if t == "gate":
                c = r["calls"][e[1]]
                if c["attr"] is not None or c["method"] not in NF["methods"]:
                    raise Unsupported(f"NoiseFree.{m}: call {c['src']}")
                if len(c["args"]) != len(NF["methods"][c["method"]]["params"]):
                    raise Unsupported(f"NoiseFree.{m}: arity of {c['src']}")
                return f"(NoiseFree.{c['method']} {' '.join(rr.r(fl.fold(a)) for a in c['args'])})"
            if t == "matmul":
                return f"({mexpr(e[1])} * {mexpr(e[2])})"
            if t == "kron":
                return f"(QG.Spec.kron2 {mexpr(e[1])} {mexpr(e[2])})"
            if t == "smul":
                return f"({fl.lean_C(fl.fold(e[1]), rr)} • {mexpr(e[2])})"
            raise Unsupported(f"NoiseFree.{m}: {t}")

        d = dim(r["result"])
        dims[m] = d
        out += f"/-- `NoiseFreeGates.{m}` -/\nnoncomputable def {m} {sig} : Matrix (Fin {d}) (Fin {d}) ℂ :=\n  {mexpr(r['result'])}\n\n"
        meta["NoiseFree"][m] = {"dim": d, "params": r["params"], "calls": [c["method"] for c in r["calls"]]}
    out += "end NoiseFree\n\n"
    # ---- ScaledNoiseGates
    out += "namespace Scaled\n\n"
    SC = g["ScaledNoiseGates"]
    for m, r in SC["methods"].items():
        if len(r["calls"]) != 1 or r["result"] != ("gate", 0) or r["named"]:
            raise Unsupported(f"ScaledNoiseGates.{m} is not a pass-through")
        c = r["calls"][0]
        if SC["attrs"].get(c["attr"]) != "Gates" or c["method"] not in meta["Gates"]:
            raise Unsupported(f"ScaledNoiseGates.{m}: call {c['src']}")
        tm = meta["Gates"][c["method"]]
        if len(c["args"]) != len(tm["params"]):
            raise Unsupported(f"ScaledNoiseGates.{m}: arity")
        rr = fl.RealRender("QG.Gen.Scaled", {}, {})
        sig = " ".join(f"({p} : ℝ)" for p in r["params"])
        args = " ".join(rr.r(fl.fold(a)) for a in c["args"])
        fpar = "(F : ℝ → ℝ) " if tm["takesF"] else ""
        out += f"/-- `ScaledNoiseGates.{m}` -> `Gates.{c['method']}` with scaled noise arguments -/\n"
        out += f"noncomputable def {m} {fpar}(noise_scaling : ℝ) {sig} (w : {tm['ns']}.Samples) : Matrix (Fin {tm['dim']}) (Fin {tm['dim']}) ℂ :=\n  GatesCls.{c['method']} {'F ' if tm['takesF'] else ''}{args} w\n\n"
        meta["Scaled"][m] = {"target": c["method"]}
    out += "end Scaled\n\nend QG.Gen\n"
    out = fl.tag_defs(out)
    core.write_if_changed(os.path.join(core.LEAN, "QG", "Gen", "GateSets.lean"), out)
    return g, meta
