"""Translator instance for C12: src/quantum_gates/_gates/integrator.py (source text, `ast`; the repo is never imported)
-> IR -> lean/QG/Gen/Integrator.lean.

Extracted, per key of the two lookup tables (keys are strings; a FIXED name table maps them to Lean identifiers, an
unknown / missing / duplicated key fails closed):
  integrand_<i>  theta a          the `_INTEGRAL_LOOKUP` lambda body, rendered literally
  result_<i>     theta a          the `_RESULT_LOOKUP` lambda body
  analytic_<i>   theta a          the value `_analytical_integration` returns (symbolic execution of its body, the
                                  table lambdas applied to the argument expressions the code passes)
  numeric_integrand_<i> F theta a t   the function handed to `scipy.integrate.quad` by `_numerical_integration`
                                  (closures `scaled_param`, `integrand_p` composed symbolically; `F` stands for
                                  `self.pulse_parametrization`), and the two bounds
  integrate_<i>  use_lookup F theta a     the dispatch of `integrate` (asserts, branch on `self.use_lookup`)
  *_defined_<i>                   the conjunction of `denominator ≠ 0` over every division the expression performs
                                  (numpy returns nan for 0/0; Lean's `x / 0 = 0` must not hide that)
plus the cache key of `integrate` (`cache_key_fields()`, for C10), the attribute hand-off in `__init__`, and from
pulse.py the facts "ConstantPulse = (identity, use_lookup=True)", "ConstantPulseNumerical = (identity, False)",
"GaussianPulse = (its own parametrisation, False)": the lookup is only requested together with F = identity.
Anything unexpected raises `pyexpr.Unsupported`.
"""
import ast, os
from qgv import core, pyexpr
from qgv.pyexpr import Unsupported

SRC = "src/quantum_gates/_gates/integrator.py"
SRC_PULSE = "src/quantum_gates/_gates/pulse.py"

# fixed table: key string in the source -> identifier suffix (order = order of the theorems in Props/C12.lean)
KEYS = {
    "sin(theta/a)**2": "sin_sq",
    "sin(theta/(2*a))**4": "sin_half_pow4",
    "sin(theta/a)*sin(theta/(2*a))**2": "sin_mul_sin_half_sq",
    "sin(theta/(2*a))**2": "sin_half_sq",
    "cos(theta/a)**2": "cos_sq",
    "sin(theta/a)*cos(theta/a)": "sin_mul_cos",
    "sin(theta/a)": "sin",
    "cos(theta/(2*a))**2": "cos_half_sq",
}
ALLOWED_FUNCS = {"sin", "cos"}          # the only transcendental functions the `defined` predicate knows to be total


# ------------------------------------------------------------------------------------ small IR helpers
def subst(e, m):
    """replace ("var", n) by m[n] in a scalar IR"""
    if not isinstance(e, tuple):
        return e
    if e[0] == "var":
        return m.get(e[1], e)
    return tuple(subst(x, m) if isinstance(x, tuple) else x for x in e)


def check_funcs(e):
    if not isinstance(e, tuple):
        return
    if e[0] == "fn" and e[1] not in ALLOWED_FUNCS:
        raise Unsupported(f"function {e[1]} outside the supported set {sorted(ALLOWED_FUNCS)}")
    if e[0] in ("I", "idx", "sum", "mat", "matmul", "kron", "expm", "npow"):
        raise Unsupported(f"IR node {e[0]} is not a real scalar expression")
    for x in e[1:]:
        check_funcs(x)


def defined_conj(e, lean):
    """list of Lean propositions, whose conjunction says: every division evaluated by `e` has a non-zero denominator.
    `lean` renders a scalar IR."""
    t = e[0]
    if t in ("num", "pi", "var"):
        return []
    if t == "div":
        return defined_conj(e[1], lean) + defined_conj(e[2], lean) + [f"{lean(e[2])} ≠ 0"]
    if t == "pow":
        return defined_conj(e[1], lean) + ([f"{lean(e[1])} ≠ 0"] if e[2] < 0 else [])
    if t == "fn":
        return defined_conj(e[2], lean)
    if t == "neg":
        return defined_conj(e[1], lean)
    if t in ("add", "sub", "mul"):
        return defined_conj(e[1], lean) + defined_conj(e[2], lean)
    if t == "ite":
        c = e[1]
        if c[0] != "cmp":
            raise Unsupported("condition")
        pre = defined_conj(c[2], lean) + defined_conj(c[3], lean)
        a, b = defined_conj(e[2], lean), defined_conj(e[3], lean)
        if not a and not b:
            return pre
        conj = lambda l: " ∧ ".join(l) if l else "True"
        return pre + [f"(if {pyexpr.lean_cond(c, None)} then {conj(a)} else {conj(b)})"]
    raise Unsupported(f"defined: {t}")


def conj_text(l):
    out = []
    for x in l:
        if x not in out:
            out.append(x)
    return " ∧ ".join(out) if out else "True"


# ------------------------------------------------------------------------------------ extraction
class Closure:
    def __init__(self, params, body):
        self.params, self.body = params, body


class TableRef:
    """`self._INTEGRAL_LOOKUP[<key parameter>]` / `self._RESULT_LOOKUP[<key parameter>]`"""
    def __init__(self, table):
        self.table = table


class ParamRef:
    """`self.pulse_parametrization`"""


class QuadResult:
    def __init__(self, fn, lo, hi, component):
        self.fn, self.lo, self.hi, self.component = fn, lo, hi, component


def _lambda_params(lam, n=None):
    a = lam.args
    if a.vararg or a.kwarg or a.kwonlyargs or a.defaults or a.posonlyargs or a.kw_defaults:
        raise Unsupported("lambda with non-plain parameters")
    ps = [x.arg for x in a.args]
    if n is not None and len(ps) != n:
        raise Unsupported(f"lambda with {len(ps)} parameters, expected {n}")
    return ps


def _tables(cls):
    tabs = {}
    for st in cls.body:
        if isinstance(st, ast.Assign) and len(st.targets) == 1 and isinstance(st.targets[0], ast.Name) \
                and st.targets[0].id in ("_INTEGRAL_LOOKUP", "_RESULT_LOOKUP"):
            name = st.targets[0].id
            if name in tabs:
                raise Unsupported(f"{name} assigned twice")
            if not isinstance(st.value, ast.Dict):
                raise Unsupported(f"{name} is not a dict literal")
            d = {}
            for k, v in zip(st.value.keys, st.value.values):
                if not (isinstance(k, ast.Constant) and isinstance(k.value, str)):
                    raise Unsupported(f"{name}: key is not a string literal")
                if k.value in d:
                    raise Unsupported(f"{name}: duplicate key {k.value!r}")
                if k.value not in KEYS:
                    raise Unsupported(f"{name}: unknown key {k.value!r} (not in the fixed name table)")
                if not isinstance(v, ast.Lambda):
                    raise Unsupported(f"{name}[{k.value!r}] is not a lambda")
                d[k.value] = (Closure(_lambda_params(v, 2), v.body), v.lineno)
            missing = [k for k in KEYS if k not in d]
            if missing:
                raise Unsupported(f"{name}: missing key(s) {missing}")
            tabs[name] = d
    for name in ("_INTEGRAL_LOOKUP", "_RESULT_LOOKUP"):
        if name not in tabs:
            raise Unsupported(f"{name} not found in class Integrator")
    return tabs


class MethodExec:
    """symbolic execution of one of the two integration routines for ONE key.
    Environment values: scalar IR tuples, Closure, TableRef, ParamRef, QuadResult."""

    def __init__(self, tabs, key, fn):
        self.tabs, self.key = tabs, key
        args = [a.arg for a in fn.args.args]
        if len(args) != 4 or args[0] != "self" or fn.args.vararg or fn.args.kwarg or fn.args.kwonlyargs or fn.args.defaults:
            raise Unsupported(f"{fn.name}: signature changed: {args}")
        self.keyparam = args[1]
        # the method's parameters are named theta / a in the generated text, whatever the source calls them
        self.env = {args[2]: ("var", "theta"), args[3]: ("var", "a")}
        self.assigned = set(args)
        self.placeholders = {}          # placeholder variable -> IR of the argument of F
        self.fn = fn

    # -- expressions
    def sx(self, env):
        s = pyexpr.SymExec({}, call_hook=self.call_hook, attr_hook=self.attr_hook)
        s.env = env
        return s

    def attr_hook(self, s, node):
        if ast.unparse(node) == "self.pulse_parametrization":
            return ParamRef()
        return None

    def value(self, node, env):
        """evaluate an expression node that may denote a closure / table entry / scalar"""
        if isinstance(node, ast.Lambda):
            return Closure(_lambda_params(node), node.body)
        if isinstance(node, ast.Subscript) and ast.unparse(node.value) in ("self._INTEGRAL_LOOKUP", "self._RESULT_LOOKUP"):
            if not (isinstance(node.slice, ast.Name) and node.slice.id == self.keyparam):
                raise Unsupported("lookup table indexed by something else than the key parameter: " + ast.unparse(node))
            return TableRef(ast.unparse(node.value)[5:])
        if isinstance(node, ast.Attribute) and ast.unparse(node) == "self.pulse_parametrization":
            return ParamRef()
        if isinstance(node, ast.Name) and isinstance(env.get(node.id), (Closure, TableRef, ParamRef, QuadResult)):
            return env[node.id]
        v = self.sx(env).ev(node)
        if not isinstance(v, tuple):
            raise Unsupported("expression is not a scalar: " + ast.unparse(node))
        return v

    def call_hook(self, s, node, f):
        if node.keywords:
            raise Unsupported("keyword arguments in call " + f)
        callee = self.value(node.func, s.env) if not isinstance(node.func, ast.Name) else s.env.get(node.func.id)
        args = [self.value(x, s.env) for x in node.args]
        if any(not isinstance(x, tuple) for x in args):
            raise Unsupported("non-scalar argument in call " + f)
        return self.apply(callee, args, f)

    def apply(self, callee, args, what):
        if isinstance(callee, TableRef):
            clo = self.tabs[callee.table][self.key][0]
            return self.sx(dict(zip(clo.params, args))).ev(clo.body)     # table lambdas close over nothing
        if isinstance(callee, Closure):
            if len(args) != len(callee.params):
                raise Unsupported("arity mismatch in call " + what)
            env = dict(self.env)            # closures of the method see the method's (single-assignment) variables
            env.update(zip(callee.params, args))
            v = self.value(callee.body, env)
            if not isinstance(v, tuple):
                raise Unsupported("closure does not return a scalar: " + what)
            return v
        if isinstance(callee, ParamRef):
            if len(args) != 1:
                raise Unsupported("parametrization called with != 1 argument")
            name = f"__F{len(self.placeholders)}"
            self.placeholders[name] = args[0]
            return ("var", name)
        raise Unsupported("call of " + what)

    # -- statements
    def bind(self, name, val):
        if name in self.assigned:
            raise Unsupported(f"{self.fn.name}: variable {name} assigned twice (closures would see the later value)")
        self.assigned.add(name)
        self.env[name] = val

    def run(self, stmts):
        """returns the IR / QuadResult returned by the statement list (None if it falls through)"""
        for k, st in enumerate(stmts):
            if isinstance(st, ast.Expr) and isinstance(st.value, ast.Constant) and isinstance(st.value.value, str):
                continue
            if isinstance(st, ast.Assign) and len(st.targets) == 1:
                tg = st.targets[0]
                if isinstance(tg, ast.Name):
                    self.bind(tg.id, self.value(st.value, self.env))
                    continue
                if isinstance(tg, ast.Tuple) and len(tg.elts) == 2 and all(isinstance(x, ast.Name) for x in tg.elts) \
                        and isinstance(st.value, ast.Call) and ast.unparse(st.value.func) == "scipy.integrate.quad":
                    c = st.value
                    if len(c.args) != 3 or c.keywords:
                        raise Unsupported("quad called with options / other than (f, lower, upper)")
                    f = self.value(c.args[0], self.env)
                    if not isinstance(f, Closure) or len(f.params) != 1:
                        raise Unsupported("quad integrand is not a one-parameter closure")
                    lo, hi = self.value(c.args[1], self.env), self.value(c.args[2], self.env)
                    if not (isinstance(lo, tuple) and isinstance(hi, tuple)):
                        raise Unsupported("quad bounds are not scalars")
                    self.bind(tg.elts[0].id, QuadResult(f, lo, hi, 0))
                    self.bind(tg.elts[1].id, QuadResult(f, lo, hi, 1))
                    continue
                raise Unsupported("assignment " + ast.unparse(st)[:80])
            if isinstance(st, ast.Return) and st.value is not None:
                if k != len(stmts) - 1:
                    raise Unsupported("code after return")
                return self.value(st.value, self.env)
            if isinstance(st, ast.If) and not st.orelse:
                # guard: `if c: return x` followed by the rest of the function
                cond = self.sx(dict(self.env)).ev(st.test)
                if not (isinstance(cond, tuple) and cond[0] == "cmp"):
                    raise Unsupported("if condition is not a comparison")
                saved_env, saved_as = dict(self.env), set(self.assigned)
                a = self.run(st.body)
                self.env, self.assigned = saved_env, saved_as
                b = self.run(stmts[k + 1:])
                if not (isinstance(a, tuple) and isinstance(b, tuple)):
                    raise Unsupported("guarded return of a non-scalar")
                return ("ite", cond, a, b)
            raise Unsupported(f"{self.fn.name}: statement {type(st).__name__}: {ast.unparse(st)[:80]}")
        return None


def _extract_integrate(fn):
    """shape of `integrate`: cache lookup, asserts, dispatch on self.use_lookup, cache store, return"""
    args = [a.arg for a in fn.args.args]
    if len(args) != 4 or args[0] != "self":
        raise Unsupported(f"integrate: signature changed: {args}")
    keys, asserts, dispatch, stored, ret = [], [], None, None, None
    coercion, first = None, True
    key_of = lambda n: tuple(ast.unparse(x) for x in n.elts) if isinstance(n, ast.Tuple) else None
    for st in fn.body:
        if isinstance(st, ast.Expr) and isinstance(st.value, ast.Constant) and isinstance(st.value.value, str):
            continue
        if ret is not None:
            raise Unsupported("integrate: code after return")
        was_first, first = first, False
        if isinstance(st, ast.Assign) and isinstance(st.targets[0], (ast.Tuple, ast.Name)) and len(st.targets) == 1 \
                and "float(" in ast.unparse(st.value):
            # the ONLY accepted form: `theta, a = float(theta), float(a)` as the first statement (repair of C10/D22: the cache
            # key and the computation see Python floats).  float(x) is the identity on the real number x denotes (int, bool,
            # numpy scalars of lower precision convert exactly), so the definitions over the reals are unchanged.
            if not was_first:
                raise Unsupported(f"integrate: argument coercion is not the first statement: {ast.unparse(st)[:80]}")
            tg, val = st.targets[0], st.value
            if not (isinstance(tg, ast.Tuple) and isinstance(val, ast.Tuple) and len(tg.elts) == len(val.elts) == 2
                    and all(isinstance(c, ast.Call) and isinstance(c.func, ast.Name) and c.func.id == "float" and len(c.args) == 1
                            and not c.keywords and isinstance(c.args[0], ast.Name) and isinstance(t, ast.Name)
                            and c.args[0].id == t.id for t, c in zip(tg.elts, val.elts))
                    and [t.id for t in tg.elts] == [args[2], args[3]]):
                raise Unsupported(f"integrate: argument coercion has an unexpected form: {ast.unparse(st)[:80]}")
            coercion = f"{args[2]}, {args[3]} = float({args[2]}), float({args[3]})"
            continue
        if isinstance(st, ast.If) and isinstance(st.test, ast.Compare) and len(st.test.ops) == 1 \
                and isinstance(st.test.ops[0], ast.In) and ast.unparse(st.test.comparators[0]) == "self._cache":
            k = key_of(st.test.left)
            b = st.body
            if k is None or st.orelse or len(b) != 1 or not isinstance(b[0], ast.Return) or \
                    not (isinstance(b[0].value, ast.Subscript) and ast.unparse(b[0].value.value) == "self._cache"
                         and key_of(b[0].value.slice) == k):
                raise Unsupported("integrate: cache lookup has an unexpected shape")
            if dispatch is not None:
                raise Unsupported("integrate: cache lookup after the computation")
            keys.append(k)
        elif isinstance(st, ast.Assert):
            if dispatch is not None:
                raise Unsupported("integrate: assert after the computation")
            asserts.append(ast.unparse(st.test))
        elif isinstance(st, ast.If) and ast.unparse(st.test) == "self.use_lookup":
            def call_of(body):
                if len(body) != 1 or not isinstance(body[0], ast.Assign) or len(body[0].targets) != 1 \
                        or not isinstance(body[0].targets[0], ast.Name) or not isinstance(body[0].value, ast.Call):
                    raise Unsupported("integrate: dispatch branch has an unexpected shape")
                c = body[0].value
                if c.keywords or [ast.unparse(x) for x in c.args] != args[1:]:
                    raise Unsupported("integrate: integration routine not called with (integrand, theta, a) in order")
                return body[0].targets[0].id, ast.unparse(c.func)
            (v1, f1), (v2, f2) = call_of(st.body), call_of(st.orelse)
            if v1 != v2 or dispatch is not None:
                raise Unsupported("integrate: dispatch assigns different variables / occurs twice")
            dispatch = {"var": v1, "then": f1, "else": f2}
        elif isinstance(st, ast.Assign) and len(st.targets) == 1 and isinstance(st.targets[0], ast.Subscript) \
                and ast.unparse(st.targets[0].value) == "self._cache":
            if dispatch is None or not isinstance(st.value, ast.Name) or st.value.id != dispatch["var"] or stored:
                raise Unsupported("integrate: cache store has an unexpected shape")
            stored = key_of(st.targets[0].slice)
            keys.append(stored)
        elif isinstance(st, ast.Return):
            if dispatch is None or not isinstance(st.value, ast.Name) or st.value.id != dispatch["var"]:
                raise Unsupported("integrate: does not return the computed value")
            ret = True
        else:
            raise Unsupported(f"integrate: statement {type(st).__name__}: {ast.unparse(st)[:80]}")
    if dispatch is None or ret is None:
        raise Unsupported("integrate: no dispatch / return found")
    if dispatch["then"] != "self._analytical_integration" or dispatch["else"] != "self._numerical_integration":
        raise Unsupported(f"integrate: dispatch {dispatch}")
    if keys and (len(set(keys)) != 1 or any(k is None for k in keys)):
        raise Unsupported(f"integrate: the cache is read and written under different keys {keys}")
    for f in (keys[0] if keys else ()):
        if f not in args[1:]:
            raise Unsupported(f"integrate: cache key field {f} is not a parameter")
    expected = [f"{args[1]} in self._INTEGRAL_LOOKUP.keys()", f"{args[3]} > 0"]
    if asserts != expected:
        raise Unsupported(f"integrate: input validation changed: {asserts} (expected {expected})")
    return {"args": args[1:], "cache_key": keys[0] if keys else (), "cache_reads_and_writes": len(keys),
            "asserts": asserts, "dispatch": dispatch, "line": fn.lineno, "coercion": coercion}


def _extract_init(fn):
    got = {}
    for st in fn.body:
        if isinstance(st, ast.Expr) and isinstance(st.value, ast.Constant):
            continue
        if isinstance(st, ast.Assign) and len(st.targets) == 1 and isinstance(st.targets[0], ast.Attribute) \
                and ast.unparse(st.targets[0].value) == "self":
            got[st.targets[0].attr] = ast.unparse(st.value)
        else:
            raise Unsupported("Integrator.__init__: statement " + ast.unparse(st)[:80])
    expected = {"pulse_parametrization": "pulse.get_parametrization()", "use_lookup": "pulse.use_lookup", "_cache": "dict()"}
    if got != expected:
        raise Unsupported(f"Integrator.__init__ changed: {got}")
    return got


def _extract_pulse_facts():
    """from pulse.py: what the constant pulses hand to the integrator (F = identity; use_lookup True / False)"""
    tree = ast.parse(open(os.path.join(core.REPO, SRC_PULSE), encoding="utf-8").read())
    facts = {}
    ident = pyexpr.find_function(tree, "identity")
    body = [s for s in ident.body if not (isinstance(s, ast.Expr) and isinstance(s.value, ast.Constant))]
    if len(ident.args.args) != 1 or len(body) != 1 or not isinstance(body[0], ast.Return) \
            or ast.unparse(body[0].value) != ident.args.args[0].arg:
        raise Unsupported("pulse.identity is not `return x`")
    getp = pyexpr.find_function(tree, "get_parametrization", cls="Pulse")
    body = [s for s in getp.body if not (isinstance(s, ast.Expr) and isinstance(s.value, ast.Constant))]
    if len(body) != 1 or not isinstance(body[0], ast.Return) or ast.unparse(body[0].value) != "self.parametrization":
        raise Unsupported("Pulse.get_parametrization does not return self.parametrization")
    init = pyexpr.find_function(tree, "__init__", cls="Pulse")
    stores = {ast.unparse(s.targets[0]): ast.unparse(s.value) for s in init.body if isinstance(s, ast.Assign) and len(s.targets) == 1}
    if stores.get("self.parametrization") != "parametrization" or stores.get("self.use_lookup") != "use_lookup":
        raise Unsupported(f"Pulse.__init__ does not store parametrization / use_lookup unchanged: {stores}")
    for cls, par, lookup in (("ConstantPulse", "identity", "True"), ("ConstantPulseNumerical", "identity", "False"),
                             ("GaussianPulse", "self._gaussian_parametrization", "False")):
        fn = pyexpr.find_function(tree, "__init__", cls=cls)
        calls = [s.value for s in fn.body if isinstance(s, ast.Expr) and isinstance(s.value, ast.Call)
                 and ast.unparse(s.value.func).endswith(".__init__")]
        if len(calls) != 1 or calls[0].args:
            raise Unsupported(f"{cls}.__init__ has an unexpected shape")
        kw = {k.arg: ast.unparse(k.value) for k in calls[0].keywords}
        if kw.get("parametrization") != par or kw.get("use_lookup") != lookup:
            raise Unsupported(f"{cls} is no longer ({par}, use_lookup={lookup}): {kw}")
        facts[cls] = {"parametrization": par, "use_lookup": lookup == "True"}
    return facts


def extract():
    path = os.path.join(core.REPO, SRC)
    tree = ast.parse(open(path, encoding="utf-8").read())
    cls = [n for n in tree.body if isinstance(n, ast.ClassDef) and n.name == "Integrator"]
    if len(cls) != 1:
        raise Unsupported("class Integrator not found")
    cls = cls[0]
    tabs = _tables(cls)
    out = {"keys": {}, "lines": {}}
    f_an = pyexpr.find_function(tree, "_analytical_integration", cls="Integrator")
    f_nu = pyexpr.find_function(tree, "_numerical_integration", cls="Integrator")
    for key, ident in KEYS.items():
        rec = {"ident": ident}
        for tab, nm in (("_INTEGRAL_LOOKUP", "integrand"), ("_RESULT_LOOKUP", "result")):
            clo, line = tabs[tab][key]
            s = pyexpr.SymExec({})
            s.env = {clo.params[0]: ("var", "theta"), clo.params[1]: ("var", "a")}
            ir = s.ev(clo.body)
            if not isinstance(ir, tuple):
                raise Unsupported(f"{tab}[{key!r}] is not a scalar expression")
            check_funcs(ir)
            rec[nm], rec[nm + "_line"] = ir, line
        m = MethodExec(tabs, key, f_an)
        ir = m.run(f_an.body)
        if not isinstance(ir, tuple) or m.placeholders:
            raise Unsupported("_analytical_integration does not return a scalar expression of (theta, a)")
        check_funcs(ir)
        rec["analytic"] = ir
        m = MethodExec(tabs, key, f_nu)
        q = m.run(f_nu.body)
        if not isinstance(q, QuadResult) or q.component != 0:
            raise Unsupported("_numerical_integration does not return the value component of scipy.integrate.quad")
        body = m.apply(q.fn, [("var", "t")], "quad integrand")
        check_funcs(body)
        for p in m.placeholders.values():
            check_funcs(p)
        check_funcs(q.lo); check_funcs(q.hi)
        for b in (q.lo, q.hi):
            if pyexpr.mentions(b, "t") or any(pyexpr.mentions(b, p) for p in m.placeholders):
                raise Unsupported("quad bound depends on the integration variable")
        rec["numeric_integrand"], rec["placeholders"], rec["lower"], rec["upper"] = body, dict(m.placeholders), q.lo, q.hi
        out["keys"][key] = rec
    los = {repr(r["lower"]) for r in out["keys"].values()}; his = {repr(r["upper"]) for r in out["keys"].values()}
    if len(los) != 1 or len(his) != 1:
        raise Unsupported("quad bounds depend on the key")
    out["integrate"] = _extract_integrate(pyexpr.find_function(tree, "integrate", cls="Integrator"))
    out["init"] = _extract_init(pyexpr.find_function(tree, "__init__", cls="Integrator"))
    out["pulse_facts"] = _extract_pulse_facts()
    out["lines"] = {"analytic": f_an.lineno, "numeric": f_nu.lineno}
    return out


def cache_key_fields():
    """names of the parameters of `integrate` that make up the cache key, in order (for C10)"""
    return tuple(extract()["integrate"]["cache_key"])


# ------------------------------------------------------------------------------------ printing
def lean_with_F(e, placeholders):
    """Lean text of an IR whose placeholder variables stand for `F (<argument>)`"""
    m = {}
    for name in sorted(placeholders, key=lambda s: int(s[3:])):       # inner placeholders first
        m[name] = ("var", f"(F {pyexpr.lean_real(subst(placeholders[name], m))})")
    return pyexpr.lean_real(subst(e, m))


def evaluate_with_F(e, placeholders, env, F):
    """numeric value of such an IR (used by the translation validation)"""
    env = dict(env)
    for name in sorted(placeholders, key=lambda s: int(s[3:])):
        env[name] = F(pyexpr.evaluate(placeholders[name], env))
    return pyexpr.evaluate(e, env)


def generate():
    ex = extract()
    L = []
    A = L.append
    integ = ex["integrate"]
    A("import Mathlib.Analysis.SpecialFunctions.Integrals.Basic")
    A(f"/-! GENERATED on every run by harness/gen/integrator.py from {SRC} (source text -> IR -> these definitions).")
    A("Do not edit.")
    A("")
    A(f"`integrate` (line {integ['line']}): parameters {tuple(integ['args'])}; cache key {tuple(integ['cache_key'])} "
      f"(read and written {integ['cache_reads_and_writes']}x under the same tuple; `cached = uncached` is C10);")
    A(f"input validation {integ['asserts']}; dispatch `if self.use_lookup` -> {integ['dispatch']['then']} else {integ['dispatch']['else']}.")
    if integ["coercion"]:
        A(f"First statement `{integ['coercion']}`: the identity on the real numbers the arguments denote (it only fixes the Python "
          "type seen by the cache key, C10).")
    A(f"`__init__`: {ex['init']}.")
    A(f"pulse.py: {ex['pulse_facts']}; `identity(x)` returns `x`; `get_parametrization` returns the stored callable.")
    A("`F` stands for `self.pulse_parametrization`.  `*_defined_*` is the conjunction of `denominator ≠ 0` over every division")
    A("the expression performs (numpy evaluates 0/0 to nan; Lean's `x / 0 = 0` must not hide that). -/")
    A("set_option linter.unusedVariables false")
    A("namespace QG.Gen.Integrator")
    A("noncomputable section")
    A("")
    lean = pyexpr.lean_real
    for key, r in ex["keys"].items():
        i = r["ident"]
        lo, hi = lean(r["lower"]), lean(r["upper"])
        A(f"/-! ### key \"{key}\" -/")
        A(f"/-- `_INTEGRAL_LOOKUP[\"{key}\"]` ({SRC.split('/')[-1]}:{r['integrand_line']}) -/")
        A(f"def integrand_{i} (theta a : ℝ) : ℝ :=\n  {lean(r['integrand'])}")
        A(f"def integrand_defined_{i} (theta a : ℝ) : Prop :=\n  {conj_text(defined_conj(r['integrand'], lean))}")
        A(f"/-- `_RESULT_LOOKUP[\"{key}\"]` ({SRC.split('/')[-1]}:{r['result_line']}) -/")
        A(f"def result_{i} (theta a : ℝ) : ℝ :=\n  {lean(r['result'])}")
        A(f"def result_defined_{i} (theta a : ℝ) : Prop :=\n  {conj_text(defined_conj(r['result'], lean))}")
        A(f"/-- value returned by `_analytical_integration(\"{key}\", theta, a)` (line {ex['lines']['analytic']}) -/")
        A(f"def analytic_{i} (theta a : ℝ) : ℝ :=\n  {lean(r['analytic'])}")
        A(f"def analytic_defined_{i} (theta a : ℝ) : Prop :=\n  {conj_text(defined_conj(r['analytic'], lean))}")
        A(f"/-- the function `_numerical_integration(\"{key}\", theta, a)` (line {ex['lines']['numeric']}) hands to `scipy.integrate.quad`, at `t` -/")
        A(f"def numeric_integrand_{i} (F : ℝ → ℝ) (theta a t : ℝ) : ℝ :=\n  {lean_with_F(r['numeric_integrand'], r['placeholders'])}")
        lw = lambda e, r=r: lean_with_F(e, r["placeholders"])
        dc = defined_conj(r["numeric_integrand"], lw)
        for p in r["placeholders"].values():
            dc = defined_conj(p, lw) + dc
        A(f"def numeric_integrand_defined_{i} (F : ℝ → ℝ) (theta a t : ℝ) : Prop :=\n  {conj_text(dc)}")
        A(f"/-- the value component of `scipy.integrate.quad(<that function>, {lo}, {hi})`, read as the integral (assumption on scipy) -/")
        A(f"def numeric_{i} (F : ℝ → ℝ) (theta a : ℝ) : ℝ :=\n  ∫ t in ({lo})..({hi}), numeric_integrand_{i} F theta a t")
        A(f"/-- `integrate(\"{key}\", theta, a)` on a cold cache, for an input that passes the validation (`a > 0`) -/")
        A(f"def integrate_{i} (use_lookup : Bool) (F : ℝ → ℝ) (theta a : ℝ) : ℝ :=\n"
          f"  if use_lookup then analytic_{i} theta a else numeric_{i} F theta a")
        A("")
    A("/-- lower / upper bound handed to `quad` -/")
    r0 = next(iter(ex["keys"].values()))
    A(f"def quad_lower (theta a : ℝ) : ℝ := {lean(r0['lower'])}")
    A(f"def quad_upper (theta a : ℝ) : ℝ := {lean(r0['upper'])}")
    A("/-- the input validation of `integrate` on the real arguments (the membership assert is the fixed key table) -/")
    A("def precondition (theta a : ℝ) : Prop := a > 0")
    A("")
    A("end")
    A("end QG.Gen.Integrator")
    text = "\n".join(L) + "\n"
    core.write_if_changed(os.path.join(core.LEAN, "QG", "Gen", "Integrator.lean"), text)
    return ex
