"""Translator instance for the formula layer of the gate factories (C04, C05, C06, C07, C10).

`extract()` parses src/quantum_gates/_gates/factories.py (source text only) and symbolically executes
`construct` of every factory class into a *named program*: an ordered list of named scalar / matrix
definitions (let-abstraction of the top-level assignments), the result expression, the draw script
(every np.random call with its distribution parameters, in call order), the constituent-call table of
the composite factories (attribute, argument expressions in positional order) and the map
attribute -> factory class read off `__init__`.

`evaluate(...)` is the reference interpreter of that IR (numpy); the checks compare it with the real
`construct` under injected samples (translation validation of the translator).
"""
import ast, math, os
import numpy as np
from qgv import core, pyexpr, pymat
from qgv.pymat import Mat

SRC = "src/quantum_gates/_gates/factories.py"
ELEMENTARY = ["BitflipFactory", "DepolarizingFactory", "RelaxationFactory", "SingleQubitGateFactory", "CRFactory"]
WRAPPERS = ["XFactory", "SXFactory"]
COMPOSITE = ["CNOTFactory", "CNOTInvFactory", "ECRFactory", "ECRInvFactory"]
ALL = ELEMENTARY + WRAPPERS + COMPOSITE


def _attr_map(cls):
    """self.<attr> = <Class>(...) assignments of __init__"""
    out = {}
    init = [n for n in cls.body if isinstance(n, ast.FunctionDef) and n.name == "__init__"]
    if init:
        for st in init[0].body:
            if isinstance(st, ast.Assign) and len(st.targets) == 1 and isinstance(st.targets[0], ast.Attribute) \
                    and isinstance(st.value, ast.Call) and isinstance(st.value.func, ast.Name):
                out[st.targets[0].attr] = st.value.func.id
    return out


def rename_samples(v, alias):
    if isinstance(v, Mat):
        return v.map(lambda x: rename_samples(x, alias))
    if isinstance(v, tuple):
        if v and v[0] == "sample":
            return ("sample", alias.get(v[1], v[1]))
        return tuple(rename_samples(x, alias) for x in v)
    if isinstance(v, list):
        return [rename_samples(x, alias) for x in v]
    if isinstance(v, dict):
        return {k: rename_samples(x, alias) for k, x in v.items()}
    return v


def extract(repo=None):
    path = os.path.join(repo or core.REPO, SRC)
    tree = ast.parse(open(path, encoding="utf-8").read())
    out = {}
    for cname in ALL:
        cls = [n for n in tree.body if isinstance(n, ast.ClassDef) and n.name == cname]
        if not cls:
            raise pyexpr.Unsupported(f"class {cname} not found")
        cls = cls[0]
        fn = pyexpr.find_function(tree, "construct", cname)
        params = [a.arg for a in fn.args.args][1:]
        if fn.args.vararg or fn.args.kwarg or fn.args.kwonlyargs or fn.args.defaults:
            raise pyexpr.Unsupported(f"{cname}.construct: unsupported signature")
        ex = pymat.MatExec({p: "scalar" for p in params}, cls)
        ex.named = []
        res = ex.run(fn.body)
        if res is None:
            raise pyexpr.Unsupported(f"{cname}.construct returns nothing")
        alias = ex.sample_alias
        rec = {
            "class": cname, "params": params, "line": fn.lineno,
            "named": [(n, k, rename_samples(v, alias)) for n, k, v in ex.named],
            "result": rename_samples(res, alias),
            "draws": rename_samples(ex.rec.draws, alias),
            "calls": rename_samples(ex.rec.calls, alias),
            "asserts": ex.rec.asserts,
            "attrs": _attr_map(cls),
        }
        for d in rec["draws"]:
            if d["kind"] == "normal":
                d["name"] = alias.get(d["name"], d["name"])
            else:
                d["names"] = [alias.get(n, n) for n in d["names"]]
        out[cname] = rec
    return out


# ------------------------------------------------------------------------------------ reference interpreter
class Interp:
    """numeric evaluation of a named program; `samples`: name -> float; `integ`: (key, theta, a) -> float;
    `gates`: list of matrices for ("gate", k)"""

    def __init__(self, rec, args, samples, integ, gates=None):
        self.env = dict(zip(rec["params"], args))
        if rec.get("poly"):                      # poly-mode record: bind the drive atoms to their actual values
            import cmath
            th, ph = self.env["theta"], self.env["phi"]
            self.env.update(c=math.cos(th / 2), s=math.sin(th / 2), e=cmath.exp(1j * ph), eb=cmath.exp(-1j * ph), i=1j)
        self.menv = {}
        self.samples, self.integ, self.gates = samples, integ, gates or []
        for name, kind, v in rec["named"]:
            if kind == "scalar":
                self.env[name] = self.scalar(v)
            else:
                self.menv[name] = self.matrix(v)
        self.result = self.matrix(rec["result"])

    def scalar(self, e):
        t = e[0]
        if t == "sample":
            return self.samples[e[1]]
        if t == "integ":
            return self.integ(e[1], self.scalar(e[2]), self.scalar(e[3]))
        if t == "num":
            return float(e[1]) if e[1].denominator != 1 else int(e[1])
        if t == "I":
            return 1j
        if t == "pi":
            return math.pi
        if t == "var":
            return self.env[e[1]]
        S = self.scalar
        if t == "neg":
            return -S(e[1])
        if t == "add":
            return S(e[1]) + S(e[2])
        if t == "sub":
            return S(e[1]) - S(e[2])
        if t == "mul":
            return S(e[1]) * S(e[2])
        if t == "div":
            return S(e[1]) / S(e[2])
        if t == "pow":
            return S(e[1]) ** e[2]
        if t == "npow":
            return S(e[1]) ** S(e[2])
        if t == "fn":
            x = S(e[2])
            return complex(getattr(np, e[1])(x)) if isinstance(x, complex) else float(getattr(np, e[1])(x))
        if t == "ite":
            return S(e[2]) if S(e[1]) else S(e[3])
        if t == "cmp":
            a, b = S(e[2]), S(e[3])
            return {"==": a == b, "!=": a != b, "<": a < b, "<=": a <= b, ">": a > b, ">=": a >= b}[e[1]]
        raise pyexpr.Unsupported(f"interp scalar {t}")

    def matrix(self, v):
        import scipy.linalg
        if isinstance(v, Mat):
            return np.array([[self.scalar(x) for x in r] for r in v.rows], dtype=complex)
        t = v[0]
        M = self.matrix
        if t == "mvar":
            return self.menv[v[1]]
        if t == "gate":
            return self.gates[v[1]]
        if t == "matmul":
            return M(v[1]) @ M(v[2])
        if t == "kron":
            return np.kron(M(v[1]), M(v[2]))
        if t == "expm":
            return scipy.linalg.expm(M(v[1]))
        if t == "smul":
            return self.scalar(v[1]) * M(v[2])
        if t == "madd":
            return M(v[1]) + M(v[2])
        raise pyexpr.Unsupported(f"interp matrix {t}")


def evaluate(ir, cname, args, draw_source, integ):
    """evaluate factory `cname` at `args`; `draw_source(draw_spec, interp)` returns the sample value(s) for one draw
    in script order; constituent calls are evaluated recursively in call order (same order as the real code)."""
    rec = ir[cname]
    # the draw script and the calls are interleaved in *source* order; elementary factories have only draws,
    # composite ones only calls (checked here), so a simple two-phase evaluation reproduces the real draw order.
    if rec["draws"] and rec["calls"]:
        raise pyexpr.Unsupported(f"{cname}: draws and constituent calls interleaved")
    samples = {}
    pre = Interp.__new__(Interp)
    pre.env = dict(zip(rec["params"], args)); pre.menv = {}; pre.samples = samples; pre.integ = integ; pre.gates = []
    # scalars needed by draw parameters may be named defs: evaluate lazily by running named scalars in order, drawing
    # on demand is not needed because every draw's parameters only depend on earlier scalars.
    for d in rec["draws"]:
        # evaluate named scalar defs that do not depend on missing samples yet
        for name, kind, v in rec["named"]:
            if kind == "scalar" and name not in pre.env:
                try:
                    pre.env[name] = pre.scalar(v)
                except KeyError:
                    pass
        vals = draw_source(d, pre)
        if d["kind"] == "normal":
            samples[d["name"]] = vals
        else:
            for n, x in zip(d["names"], vals):
                samples[n] = x
    gates = []
    for c in rec["calls"]:
        for name, kind, v in rec["named"]:
            if kind == "scalar" and name not in pre.env:
                try:
                    pre.env[name] = pre.scalar(v)
                except KeyError:
                    pass
        sub = rec["attrs"].get(c["attr"])
        if sub is None or c["method"] != "construct":
            raise pyexpr.Unsupported(f"{cname}: call to self.{c['attr']}.{c['method']}")
        gates.append(evaluate(ir, sub, [pre.scalar(a) for a in c["args"]], draw_source, integ))
    return Interp(rec, args, samples, integ, gates).result


def generate():
    """(Lean generation is in gen/factories_lean.py; this module only extracts.)"""
    return None
