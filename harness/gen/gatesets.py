"""Translator instance for src/quantum_gates/_gates/gates.py: the three gate-set classes.

 * `Gates`: every method is a pass-through to a factory (`self.<attr>.construct(args)`); extracted: attribute -> factory class
   (from `__init__`) and the positional argument expressions.
 * `NoiseFreeGates`: literal matrices and products of `self.<method>(...)` calls (recorded, not inlined).
 * `ScaledNoiseGates`: pass-throughs `self.gates.<method>(scaled args)`.
"""
import ast, os
from qgv import core, pyexpr, pymat
from gen import factories as gf

SRC = "src/quantum_gates/_gates/gates.py"
METHODS = ["relaxation", "bitflip", "depolarizing", "single_qubit_gate", "X", "SX", "CR", "CNOT", "CNOT_inv", "ECR", "ECR_inv"]


def extract(repo=None):
    tree = ast.parse(open(os.path.join(repo or core.REPO, SRC), encoding="utf-8").read())
    out = {}
    for cname, selfcalls, scalars in (("Gates", False, ()), ("NoiseFreeGates", True, ()), ("ScaledNoiseGates", False, ("noise_scaling",))):
        cls = [n for n in tree.body if isinstance(n, ast.ClassDef) and n.name == cname]
        if not cls:
            raise pyexpr.Unsupported(f"class {cname} not found")
        cls = cls[0]
        recs = {}
        for m in METHODS:
            fn = [n for n in cls.body if isinstance(n, ast.FunctionDef) and n.name == m]
            if not fn:
                raise pyexpr.Unsupported(f"{cname}.{m} not found")
            fn = fn[0]
            params = [a.arg for a in fn.args.args][1:]
            ex = pymat.MatExec({p: "scalar" for p in params}, cls)
            ex.record_self_calls = selfcalls
            ex.self_scalars = scalars
            ex.named = []
            res = ex.run(fn.body)
            if res is None:
                raise pyexpr.Unsupported(f"{cname}.{m} returns nothing")
            if ex.rec.draws:
                raise pyexpr.Unsupported(f"{cname}.{m} draws samples itself")
            recs[m] = {"class": cname, "method": m, "params": params, "named": list(ex.named), "result": res,
                       "calls": ex.rec.calls, "draws": [], "asserts": ex.rec.asserts, "line": fn.lineno}
        out[cname] = {"methods": recs, "attrs": gf._attr_map(cls)}
    return out
