"""Translator instance for C03 (F): the noise-free gates of gates.py in *frame variables*.

Every method of `NoiseFreeGates` that the circuit classes call (X, SX, CNOT, CNOT_inv, ECR, ECR_inv) is symbolically executed
from source text with its `self.<method>` calls inlined, which yields a product tree of literal matrices whose entries contain
cos / sin / exp of arguments that are affine in the phases and pi.  These atoms are rendered over a generic field in the variables
    u = exp(i*phi_ctr/2)  ub = 1/u     v = exp(i*phi_trg/2)  vb = 1/v     z = exp(i*pi/8)  zb = 1/z      (1J = z^4)
by the fixed rule  exp(i(a*phi_c + b*phi_t + c*pi)) = u^(2a) v^(2b) z^(8c),  cos A = (E + 1/E)/2,  sin A = -i(E - 1/E)/2.
(One-qubit methods have a single phase `phi`, rendered with u.)  The rendering is validated numerically on every run
(`validate`: the poly-form product evaluated at actual values vs the real NoiseFreeGates).  Output: lean/QG/Gen/Frames.lean.
"""
import ast, cmath, json, math, os, subprocess
from fractions import Fraction
import numpy as np
from qgv import core, pyexpr, pymat
from qgv.pyexpr import Unsupported, num
from qgv.pymat import Mat
from gen import factories_lean as fl

SRC = "src/quantum_gates/_gates/gates.py"
METHODS = ["X", "SX", "CNOT", "CNOT_inv", "ECR", "ECR_inv"]
VARS = ["u", "ub", "v", "vb", "z", "zb"]


def extract(repo=None):
    tree = ast.parse(open(os.path.join(repo or core.REPO, SRC), encoding="utf-8").read())
    cls = [n for n in tree.body if isinstance(n, ast.ClassDef) and n.name == "NoiseFreeGates"]
    if not cls:
        raise Unsupported("class NoiseFreeGates not found")
    out = {}
    for m in METHODS:
        fn = [n for n in cls[0].body if isinstance(n, ast.FunctionDef) and n.name == m]
        if not fn:
            raise Unsupported(f"NoiseFreeGates.{m} not found")
        params = [a.arg for a in fn[0].args.args][1:]
        ex = pymat.MatExec({p: "scalar" for p in params}, cls[0])
        res = ex.run(fn[0].body)
        if res is None or ex.rec.draws:
            raise Unsupported(f"NoiseFreeGates.{m}: unexpected shape")
        out[m] = (params, res)
    return out


def mono(a, b, c):
    """u^(2a) v^(2b) z^(8c) as IR (negative powers through ub, vb, zb)"""
    fac = []
    for base, inv, k in (("u", "ub", 2 * a), ("v", "vb", 2 * b), ("z", "zb", 8 * c)):
        if k.denominator != 1:
            raise Unsupported(f"frame rendering: exponent {k} of {base} is not an integer")
        k = int(k)
        if k > 0:
            fac.append(("pow", ("var", base), k))
        elif k < 0:
            fac.append(("pow", ("var", inv), -k))
    if not fac:
        return num(1)
    e = fac[0]
    for f in fac[1:]:
        e = ("mul", e, f)
    return e


def coeffs(p, phis, with_I):
    """poly dict -> (a, b, c) for a*phi_c + b*phi_t + c*pi (each monomial optionally carrying the symbol I)"""
    a = b = c = Fraction(0)
    for monom, coef in p.items():
        m = list(monom)
        if with_I:
            if "I" not in m:
                raise Unsupported("exp argument without 1J")
            m.remove("I")
        if m == [phis[0]]:
            a += coef
        elif len(phis) > 1 and m == [phis[1]]:
            b += coef
        elif m == ["pi"]:
            c += coef
        else:
            raise Unsupported(f"frame rendering: monomial {monom} is not a phase or pi")
    return a, b, c


def to_frame(e, phis):
    if isinstance(e, Mat):
        return e.map(lambda x: to_frame(x, phis))
    t = e[0]
    I4 = ("pow", ("var", "z"), 4)
    if t == "I":
        return I4
    if t == "num":
        return e
    if t == "fn":
        p = fl.poly(fl.fold(e[2]))
        if p is None:
            raise Unsupported("frame rendering: non-polynomial argument")
        if e[1] == "exp":
            a, b, c = coeffs(p, phis, True)
            return mono(a, b, c)
        if e[1] in ("cos", "sin"):
            a, b, c = coeffs(p, phis, False)
            E, Eb = mono(a, b, c), mono(-a, -b, -c)
            if e[1] == "cos":
                return ("div", ("add", E, Eb), num(2))
            return ("div", ("mul", ("neg", I4), ("sub", E, Eb)), num(2))
        raise Unsupported(f"frame rendering: function {e[1]}")
    if t == "neg":
        return ("neg", to_frame(e[1], phis))
    if t in ("add", "sub", "mul", "div"):
        return (t, to_frame(e[1], phis), to_frame(e[2], phis))
    if t == "pow":
        return ("pow", to_frame(e[1], phis), e[2])
    raise Unsupported(f"frame rendering: node {t}")


def phis_of(params):
    return ["phi"] if "phi" in params else ["phi_ctr", "phi_trg"]


def tree_to_frame(v, phis):
    if isinstance(v, Mat):
        return to_frame(fl.fold(v), phis)
    t = v[0]
    if t in ("matmul", "kron"):
        return (t, tree_to_frame(v[1], phis), tree_to_frame(v[2], phis))
    if t == "smul":
        return ("smul", to_frame(fl.fold(v[1]), phis), tree_to_frame(v[2], phis))
    raise Unsupported(f"frame rendering: matrix node {t}")


def lean_tree(v):
    if isinstance(v, Mat):
        return fl.mat_K(v, pre="e.")
    t = v[0]
    if t == "matmul":
        return f"({lean_tree(v[1])} * {lean_tree(v[2])})"
    if t == "kron":
        return f"(QG.Spec.kron2 {lean_tree(v[1])} {lean_tree(v[2])})"
    if t == "smul":
        return f"({fl.lean_K(v[1], pre='e.')} • {lean_tree(v[2])})"
    raise Unsupported(t)


def dim_tree(v):
    if isinstance(v, Mat):
        return v.n
    if v[0] == "kron":
        return 4
    if v[0] == "matmul":
        return dim_tree(v[1])
    return dim_tree(v[2])


def factors(v):
    """the matrix product as a list of factors (left to right); scalars are attached to the factor they multiply"""
    if isinstance(v, tuple) and v[0] == "matmul":
        return factors(v[1]) + factors(v[2])
    return [v]


def eval_scalar(e, env):
    return pyexpr.evaluate(e, env)


def eval_tree(v, env):
    if isinstance(v, Mat):
        return np.array([[complex(eval_scalar(x, env)) for x in r] for r in v.rows])
    t = v[0]
    if t == "matmul":
        return eval_tree(v[1], env) @ eval_tree(v[2], env)
    if t == "kron":
        return np.kron(eval_tree(v[1], env), eval_tree(v[2], env))
    if t == "smul":
        return complex(eval_scalar(v[1], env)) * eval_tree(v[2], env)
    raise Unsupported(t)


def expand(v):
    """kron / scalar multiples of literal matrices -> literal matrices (np.kron index semantics: row 2*i1+i2, col 2*j1+j2)"""
    if isinstance(v, Mat):
        return v
    t = v[0]
    if t == "kron":
        A, B = expand(v[1]), expand(v[2])
        if not (isinstance(A, Mat) and isinstance(B, Mat)):
            raise Unsupported("kron of a non-literal matrix")
        rows = []
        for i1 in range(A.n):
            for i2 in range(B.n):
                rows.append([("mul", A.rows[i1][j1], B.rows[i2][j2]) for j1 in range(A.m) for j2 in range(B.m)])
        return Mat(rows)
    if t == "smul":
        M = expand(v[2])
        if not isinstance(M, Mat):
            raise Unsupported("scalar multiple of a non-literal matrix")
        return M.map(lambda x: ("mul", v[1], x))
    if t == "matmul":
        return ("matmul", expand(v[1]), expand(v[2]))
    raise Unsupported(f"frame rendering: matrix node {t}")


def py_expr(e):
    t = e[0]
    if t == "num":
        f = e[1]
        return f"({f.numerator})" if f.denominator == 1 else f"(({f.numerator})/{f.denominator})"
    if t == "var":
        return e[1]
    if t == "neg":
        return f"(-{py_expr(e[1])})"
    if t in ("add", "sub", "mul", "div"):
        return f"({py_expr(e[1])} {dict(add='+', sub='-', mul='*', div='/')[t]} {py_expr(e[2])})"
    if t == "pow":
        return f"({py_expr(e[1])}**{e[2]})"
    raise Unsupported(f"py_expr: {t}")


def parse_hint(sx):
    ex = pyexpr.SymExec({})
    ex.env = {v: ("var", v) for v in VARS}
    return ex.ev(ast.parse(sx, mode="eval").body)


def hints(fs):
    """closed forms of the partial products f0*...*fk from the untrusted sympy helper (python3-vt); None if unavailable"""
    req = {"factors": [[[py_expr(x) for x in r] for r in f.rows] for f in fs]}
    tool = os.path.join(core.VERIF, "harness", "tools", "frame_nf.py")
    try:
        p = subprocess.run([core.PY_TOOLS, tool], input=json.dumps(req), capture_output=True, text=True, timeout=600)
        if p.returncode != 0:
            raise Unsupported("frame_nf.py failed: " + p.stderr[-300:])
        chain = json.loads(p.stdout)["chain"]
        return [Mat([[parse_hint(x) for x in r] for r in m]) for m in chain]
    except (OSError, subprocess.TimeoutExpired, json.JSONDecodeError, KeyError) as e:
        raise Unsupported(f"hint generator unavailable: {e}")


STEP_PROOF = """  ext a b; fin_cases a <;> fin_cases b <;>
    simp [{names}, Matrix.mul_apply, Fin.sum_univ_{d}] <;> grind
"""


def generate():
    ex = extract()
    out = f"""import Mathlib.Tactic
import Mathlib.LinearAlgebra.Matrix.Notation
import QG.Spec.Attr
/-! GENERATED on every run by harness/gen/frames.py from {SRC} (class NoiseFreeGates, methods {', '.join(METHODS)};
`self.<method>` calls inlined, np.kron and scalar factors expanded to literal matrices).
Frame variables: u = exp(i phi_ctr/2) (or exp(i phi/2) for one-qubit gates), ub = 1/u, v = exp(i phi_trg/2), vb = 1/v,
z = exp(i pi/8), zb = 1/z; the imaginary unit is z^4.  `G_f<k>` are the factors of the product as written in the source,
`G_c<k>` the closed forms of the partial products (hints computed by sympy, re-checked here step by step with `grind`),
`G_closed : G e = G_c<last> e`.  Do not edit. -/
set_option linter.unusedVariables false
set_option linter.unusedSimpArgs false
namespace QG.Gen.Frames
open Matrix

structure Env (K : Type) where
  u : K
  ub : K
  v : K
  vb : K
  z : K
  zb : K

/-- the relations between the frame variables (satisfied by the actual values, `QG.Lemmas.Frames.actual_rel`) -/
structure Env.Rel {{K : Type}} [Field K] (e : Env K) : Prop where
  hu : e.u * e.ub = 1
  hv : e.v * e.vb = 1
  hz : e.z * e.zb = 1
  hz8 : e.z ^ 8 = -1

variable {{K : Type}} [Field K] [CharZero K]

"""
    trees = {}
    for m in METHODS:
        params, res = ex[m]
        tr = tree_to_frame(res, phis_of(params))
        trees[m] = (params, tr)
        fs = factors(expand(tr))
        if not all(isinstance(f, Mat) for f in fs):
            raise Unsupported(f"NoiseFreeGates.{m}: a factor is not a literal matrix")
        d = fs[0].n
        dn = {2: "two", 4: "four"}[d]
        for k, f in enumerate(fs):
            out += f"/-- factor {k} of `NoiseFreeGates.{m}` (left to right) -/\ndef {m}_f{k} (e : Env K) : Matrix (Fin {d}) (Fin {d}) K :=\n  {fl.mat_K(f, pre='e.')}\n\n"
        prod = " * ".join(f"{m}_f{k} e" for k in range(len(fs)))
        out += f"/-- `NoiseFreeGates.{m}` in frame variables: the product as written in the source -/\ndef {m} (e : Env K) : Matrix (Fin {d}) (Fin {d}) K :=\n  {prod}\n\n"
        if len(fs) == 1:
            out += f"def {m}_closed_form (e : Env K) : Matrix (Fin {d}) (Fin {d}) K := {m}_f0 e\n\n"
            out += f"theorem {m}_closed (e : Env K) (h : e.Rel) : {m} e = {m}_closed_form e := rfl\n\n"
            continue
        chain = hints(fs)
        prev = f"{m}_f0"
        for k, c in enumerate(chain, start=1):
            out += f"def {m}_c{k} (e : Env K) : Matrix (Fin {d}) (Fin {d}) K :=\n  {fl.mat_K(c, pre='e.')}\n\n"
            out += f"theorem {m}_step{k} (e : Env K) (h : e.Rel) : {prev} e * {m}_f{k} e = {m}_c{k} e := by\n"
            out += "  obtain ⟨hu, hv, hz, hz8⟩ := h\n"
            out += STEP_PROOF.format(names=f"{prev}, {m}_f{k}, {m}_c{k}", d=dn)
            out += "\n"
            prev = f"{m}_c{k}"
        out += f"def {m}_closed_form (e : Env K) : Matrix (Fin {d}) (Fin {d}) K := {prev} e\n\n"
        out += f"theorem {m}_closed (e : Env K) (h : e.Rel) : {m} e = {m}_closed_form e := by\n  unfold {m} {m}_closed_form\n"
        out += "  rw [" + ", ".join(f"{m}_step{k} e h" for k in range(1, len(fs))) + "]\n\n"
    out += "end QG.Gen.Frames\n"
    core.write_if_changed(os.path.join(core.LEAN, "QG", "Gen", "Frames.lean"), out)
    return trees


def validate(trees, rng, n=6):
    """poly-form products at actual values vs the real NoiseFreeGates; returns list of mismatch texts"""
    from quantum_gates._gates.gates import NoiseFreeGates
    nf = NoiseFreeGates()
    bad = []
    for m, (params, tr) in trees.items():
        for _ in range(n):
            pc, pt = rng.uniform(-7, 7), rng.uniform(-7, 7)
            env = {"u": cmath.exp(0.5j * pc), "ub": cmath.exp(-0.5j * pc), "v": cmath.exp(0.5j * pt), "vb": cmath.exp(-0.5j * pt),
                   "z": cmath.exp(1j * math.pi / 8), "zb": cmath.exp(-1j * math.pi / 8)}
            args = [pc] + [0.0] * (len(params) - 1) if len(params) == 4 else [pc, pt] + [1e-7] + [0.0] * (len(params) - 3)
            real = np.array(getattr(nf, m)(*args), dtype=complex)
            val = eval_tree(tr, env)
            if real.shape != val.shape or not np.allclose(real, val, atol=1e-12):
                bad.append(f"NoiseFreeGates.{m}: frame rendering differs from the implementation by {np.abs(real - val).max():.3e}")
                break
    return bad
