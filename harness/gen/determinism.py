"""Translator instance for C10 ("fixed numpy seed reproduces results; sampling has no hidden history").

Source text only (`ast`; the repository is never imported).  `extract()` collects, `generate()` prints lean/QG/Gen/Determinism.lean:

 (i)   `Integrator.integrate`: the cache key tuple, the parameters converted with `float(...)` before anything else happens,
       the arguments handed to the two integration routines (all via gen/integrator.py's `_extract_integrate`, which fixes the
       statement shapes of `integrate`, the leading coercion statement included), the `self.` attributes and global names the
       routines read;
 (ii)  where `_cache` is created (instance attribute assigned a fresh dict in `__init__` / class attribute / something aliased)
       and EVERY store, in any file of the package, to `_cache`, `pulse_parametrization`, `use_lookup` and the two lookup tables;
 (iii) per gate factory: the draw script (every `np.random.normal` / `multivariate_normal` call in call order with its dimension,
       from gen/factories.py, which fails closed on any other entropy source and on every name / attribute it cannot account
       for), the constituent calls of the composite factories, the `__init__` attribute tables of the factories and of the
       gate-set classes (who creates an `Integrator`, who is handed which), class-level and module-level state;
 (iv)  simulator.py: how `_perform_simulation` builds the per-shot arguments (deep copy / fresh object / caller's object), that
       the sequential loop calls nothing but `_single_shot`, what `_single_shot` reads, and a scan of the files on the shot path
       for entropy sources other than the modelled draw sites.
Anything the extraction cannot account for raises `pyexpr.Unsupported` (the check then treats the tie as broken) or is listed
in a table that a `decide`-theorem of QG.Props.C10 compares with the expected one.
"""
import ast, os, warnings
from qgv import core, pyexpr
from qgv.pyexpr import Unsupported
from gen import integrator as gi, factories as gf, gatesets as gg

PKG = "src/quantum_gates"
SRC_INT = PKG + "/_gates/integrator.py"
SRC_FAC = PKG + "/_gates/factories.py"
SRC_GAT = PKG + "/_gates/gates.py"
SRC_SIM = PKG + "/_simulation/simulator.py"
# files a sequential shot runs through (entropy scan); factories.py is handled by the symbolic execution
SHOT_PATH = [PKG + "/_gates/integrator.py", PKG + "/_gates/gates.py", PKG + "/_gates/pulse.py", PKG + "/_simulation/simulator.py",
             PKG + "/_simulation/circuit.py", PKG + "/_simulation/backend.py", PKG + "/_utility/circ_optimizer.py"]
FIELDS = ["integrand", "theta", "a"]                     # positional parameters of integrate after self -> Lean `Field`
WATCH = ["_cache", "pulse_parametrization", "use_lookup", "_INTEGRAL_LOOKUP", "_RESULT_LOOKUP"]
MUTATORS = {"update", "clear", "pop", "popitem", "setdefault", "__setitem__", "__delitem__"}
ENTROPY_ROOTS = {"random", "secrets", "uuid", "time", "datetime"}
ENTROPY_NAMES = {"default_rng", "RandomState", "SeedSequence", "urandom", "getpid", "getrandbits", "perf_counter", "time_ns",
                 "lru_cache", "cached_property"}
PURE_BUILTINS = {"float", "abs", "int"}


def _tree(rel, repo=None):
    with warnings.catch_warnings():
        warnings.simplefilter("ignore")                       # SyntaxWarnings of the parsed text (escapes in docstrings)
        return ast.parse(open(os.path.join(repo or core.REPO, rel), encoding="utf-8").read())


def _is_doc(st):
    return isinstance(st, ast.Expr) and isinstance(st.value, ast.Constant) and isinstance(st.value.value, str)


# ------------------------------------------------------------------------------------------------ (i) integrate
def _self_reads_and_globals(fn):
    params = {a.arg for a in fn.args.args}
    local = set(params)
    for n in ast.walk(fn):
        if isinstance(n, ast.Name) and isinstance(n.ctx, ast.Store):
            local.add(n.id)
        if isinstance(n, ast.Lambda):
            local |= {a.arg for a in n.args.args}
        if isinstance(n, (ast.Global, ast.Nonlocal)):
            raise Unsupported(f"{fn.name}: {type(n).__name__.lower()} statement")
    reads, free = [], []
    skip = set()                                               # type annotations are not evaluated reads of state
    for n in ast.walk(fn):
        for ann in ([n.annotation] if isinstance(n, (ast.arg, ast.AnnAssign)) and n.annotation is not None else []) + \
                ([n.returns] if isinstance(n, ast.FunctionDef) and n.returns is not None else []):
            skip |= {id(x) for x in ast.walk(ann)}
    for n in ast.walk(fn):
        if id(n) in skip:
            continue
        if isinstance(n, ast.Attribute) and isinstance(n.value, ast.Name) and n.value.id == "self" and n.attr not in reads:
            reads.append(n.attr)
        if isinstance(n, ast.Name) and isinstance(n.ctx, ast.Load) and n.id not in local and n.id != "self" and n.id not in free:
            free.append(n.id)
    return reads, free


def _integrate_facts(tree):
    fn = pyexpr.find_function(tree, "integrate", cls="Integrator")
    params = [a.arg for a in fn.args.args]
    if len(params) != 4 or params[0] != "self":
        raise Unsupported(f"integrate: signature changed: {params}")
    # gen/integrator.py fixes the statement shapes: [coercion `theta, a = float(theta), float(a)` as the very first statement,]
    # cache lookup, two asserts, dispatch with (integrand, theta, a) in order, cache store under the same tuple, return
    facts = gi._extract_integrate(fn)
    coerced = [params[2], params[3]] if facts.get("coercion") else []
    pos = {p: FIELDS[i] for i, p in enumerate(params[1:])}
    out = {"params": params[1:], "key_fields": [pos[k] for k in facts["cache_key"]],
           "key_source": list(facts["cache_key"]), "coerced": [pos[c] for c in coerced], "coerced_source": coerced,
           "compute_args": [pos[a] for a in facts["args"]],      # _extract_integrate: routines are called with args[1:] in order
           "asserts": facts["asserts"], "dispatch": facts["dispatch"], "line": fn.lineno,
           "cache_reads_and_writes": facts["cache_reads_and_writes"]}
    allowed = {"integrate": {"_cache", "_INTEGRAL_LOOKUP", "use_lookup", "_analytical_integration", "_numerical_integration"},
               "_analytical_integration": {"_INTEGRAL_LOOKUP", "_RESULT_LOOKUP"},
               "_numerical_integration": {"_INTEGRAL_LOOKUP", "pulse_parametrization"}}
    out["self_reads"] = {}
    for name, ok in allowed.items():
        f = pyexpr.find_function(tree, name, cls="Integrator")
        reads, free = _self_reads_and_globals(f)
        extra = [r for r in reads if r not in ok]
        if extra:
            raise Unsupported(f"Integrator.{name} reads self.{extra[0]} (state the cached value is not keyed by)")
        bad = [g for g in free if g not in ({"np", "scipy"} | PURE_BUILTINS)]
        if bad:
            raise Unsupported(f"Integrator.{name} reads the global name {bad[0]}")
        out["self_reads"][name] = reads
    # the known integrand names = keys of _INTEGRAL_LOOKUP (string literals; gen/integrator.py checks the table shape for C12)
    cls = [n for n in tree.body if isinstance(n, ast.ClassDef) and n.name == "Integrator"][0]
    known = None
    for st in cls.body:
        if isinstance(st, ast.Assign) and len(st.targets) == 1 and isinstance(st.targets[0], ast.Name) \
                and st.targets[0].id == "_INTEGRAL_LOOKUP":
            if not isinstance(st.value, ast.Dict) or not all(isinstance(k, ast.Constant) and isinstance(k.value, str) for k in st.value.keys):
                raise Unsupported("_INTEGRAL_LOOKUP is not a dict literal with string keys")
            known = [k.value for k in st.value.keys]
    if known is None:
        raise Unsupported("_INTEGRAL_LOOKUP not found")
    out["known"] = known
    return out


# ------------------------------------------------------------------------------------------------ (ii) state writers
class _Writers(ast.NodeVisitor):
    def __init__(self, rel):
        self.rel, self.scope, self.found = rel, [], []

    def _where(self):
        return ".".join(self.scope) if self.scope else "<module>"

    def _relevant(self, attr, through_self=True):
        """`_cache` is reported wherever it is stored; the other names only count as the Integrator's attributes: a store
        through `self.` (or in the class body) of ANOTHER class concerns that class's own objects (Pulse.use_lookup)"""
        return attr == "_cache" or not through_self or not self.scope or self.scope[0] == "Integrator"

    def visit_ClassDef(self, n):
        self.scope.append(n.name)
        for st in n.body:
            if isinstance(st, (ast.Assign, ast.AnnAssign, ast.AugAssign)):
                ts = st.targets if isinstance(st, ast.Assign) else [st.target]
                for t in ts:
                    if isinstance(t, ast.Name) and t.id in WATCH and self._relevant(t.id):
                        self.found.append((self.rel, self._where(), t.id, "class-body"))
        self.generic_visit(n)
        self.scope.pop()

    def visit_FunctionDef(self, n):
        self.scope.append(n.name); self.generic_visit(n); self.scope.pop()
    visit_AsyncFunctionDef = visit_FunctionDef

    def _target(self, t, kind):
        if isinstance(t, (ast.Tuple, ast.List)):
            for x in t.elts:
                self._target(x, kind)
        elif isinstance(t, ast.Starred):
            self._target(t.value, kind)
        elif isinstance(t, ast.Attribute) and t.attr in WATCH:
            if self._relevant(t.attr, isinstance(t.value, ast.Name) and t.value.id == "self"):
                self.found.append((self.rel, self._where(), t.attr, kind))
        elif isinstance(t, ast.Subscript) and isinstance(t.value, ast.Attribute) and t.value.attr in WATCH:
            if self._relevant(t.value.attr, isinstance(t.value.value, ast.Name) and t.value.value.id == "self"):
                self.found.append((self.rel, self._where(), t.value.attr, "setitem" if kind == "assign" else kind + "-item"))

    def visit_Assign(self, n):
        for t in n.targets:
            self._target(t, "assign")
        self.generic_visit(n)

    def visit_AugAssign(self, n):
        self._target(n.target, "assign"); self.generic_visit(n)

    def visit_AnnAssign(self, n):
        self._target(n.target, "assign"); self.generic_visit(n)

    def visit_Delete(self, n):
        for t in n.targets:
            self._target(t, "del")
        self.generic_visit(n)

    def visit_Call(self, n):
        f = n.func
        if isinstance(f, ast.Attribute) and f.attr in MUTATORS and isinstance(f.value, ast.Attribute) and f.value.attr in WATCH:
            self.found.append((self.rel, self._where(), f.value.attr, "call-" + f.attr))
        if isinstance(f, ast.Name) and f.id in ("setattr", "delattr"):
            nm = n.args[1].value if len(n.args) > 1 and isinstance(n.args[1], ast.Constant) else "?"
            if nm == "?" or nm in WATCH:
                self.found.append((self.rel, self._where(), str(nm), f.id))
        self.generic_visit(n)


def _package_files(repo=None):
    root = os.path.join(repo or core.REPO, PKG)
    out = []
    for d, _, fs in os.walk(root):
        for f in sorted(fs):
            if f.endswith(".py"):
                out.append(os.path.relpath(os.path.join(d, f), repo or core.REPO))
    return sorted(out)


def _state_facts(repo=None):
    writers = []
    for rel in _package_files(repo):
        if "/_legacy/" in rel:
            continue
        w = _Writers(rel.split("/")[-1])
        try:
            w.visit(_tree(rel, repo))
        except SyntaxError as e:
            raise Unsupported(f"{rel}: {e}")
        writers += w.found
    # where and how `_cache` is created
    tree = _tree(SRC_INT, repo)
    init = pyexpr.find_function(tree, "__init__", cls="Integrator")
    created = [st for st in init.body if isinstance(st, ast.Assign) and len(st.targets) == 1
               and ast.unparse(st.targets[0]) == "self._cache"]
    class_level = any(w[2] == "_cache" and w[3] == "class-body" for w in writers)
    fresh = len(created) == 1 and (
        (isinstance(created[0].value, ast.Call) and isinstance(created[0].value.func, ast.Name) and created[0].value.func.id == "dict"
         and not created[0].value.args and not created[0].value.keywords)
        or (isinstance(created[0].value, ast.Dict) and not created[0].value.keys))
    where = ("instance attribute, fresh dict in __init__" if fresh and not class_level else
             "class attribute" if class_level and not created else
             "class attribute shadowed in __init__" if class_level else
             f"instance attribute assigned `{ast.unparse(created[0].value)}` (not a fresh dict)" if created else "not created")
    return {"writers": writers, "cache_created": where, "instance_level": bool(fresh and not class_level)}


EXPECTED_WRITERS = [("integrator.py", "Integrator", "_INTEGRAL_LOOKUP", "class-body"),
                    ("integrator.py", "Integrator", "_RESULT_LOOKUP", "class-body"),
                    ("integrator.py", "Integrator.__init__", "pulse_parametrization", "assign"),
                    ("integrator.py", "Integrator.__init__", "use_lookup", "assign"),
                    ("integrator.py", "Integrator.__init__", "_cache", "assign"),
                    ("integrator.py", "Integrator.integrate", "_cache", "setitem")]


# ------------------------------------------------------------------------------------------------ (iii) factories, gate sets
def _init_table(cls, known_classes):
    """[(attr, (kind, ...))] of `__init__` in statement order; a class without `__init__` has the empty table"""
    init = [n for n in cls.body if isinstance(n, ast.FunctionDef) and n.name == "__init__"]
    if not init:
        return []
    init = init[0]
    params = [a.arg for a in init.args.args][1:]
    out, have_integrator = [], None
    for st in init.body:
        if _is_doc(st):
            continue
        if isinstance(st, ast.Assert):
            continue                                            # argument validation (ScaledNoiseGates)
        if not (isinstance(st, ast.Assign) and len(st.targets) == 1 and isinstance(st.targets[0], ast.Attribute)
                and isinstance(st.targets[0].value, ast.Name) and st.targets[0].value.id == "self"):
            raise Unsupported(f"{cls.name}.__init__: statement {ast.unparse(st)[:70]}")
        attr, v = st.targets[0].attr, st.value
        if isinstance(v, ast.Name) and v.id in params:
            if v.id == "integrator" and attr == "integrator":
                out.append((attr, ("integratorParam",))); have_integrator = "param"
            elif attr == v.id and v.id not in ("integrator", "pulse"):
                out.append((attr, ("scalar",)))
            else:
                raise Unsupported(f"{cls.name}.__init__: self.{attr} = {v.id}")
            continue
        if isinstance(v, ast.Call) and isinstance(v.func, ast.Name) and not v.keywords:
            c, args = v.func.id, [ast.unparse(a) for a in v.args]
            if c == "Integrator" and args == ["pulse"] and "pulse" in params and attr == "integrator":
                out.append((attr, ("newIntegrator",))); have_integrator = "new"
                continue
            if c in known_classes["factories"]:
                if args == []:
                    out.append((attr, ("factory", c, False))); continue
                if args in (["self.integrator"], ["integrator"]) and have_integrator:
                    out.append((attr, ("factory", c, True))); continue
            if c in known_classes["gatesets"] and args == ["pulse"] and "pulse" in params:
                out.append((attr, ("gateSet", c))); continue
        raise Unsupported(f"{cls.name}.__init__: self.{attr} = {ast.unparse(v)[:60]}")
    return out


def _class_level(cls, allow_assign=()):
    for st in cls.body:
        if isinstance(st, ast.FunctionDef):
            if st.decorator_list:
                raise Unsupported(f"{cls.name}.{st.name} is decorated ({ast.unparse(st.decorator_list[0])})")
            continue
        if _is_doc(st):
            continue
        if isinstance(st, ast.Assign) and len(st.targets) == 1 and isinstance(st.targets[0], ast.Name) and st.targets[0].id in allow_assign:
            continue
        raise Unsupported(f"class-level statement in {cls.name}: {ast.unparse(st)[:60]}")


def _factory_facts(repo=None):
    ir = gf.extract(repo)                                     # Unsupported on any other entropy source / unknown name / attribute
    tree = _tree(SRC_FAC, repo)
    classes = [n for n in tree.body if isinstance(n, ast.ClassDef)]
    for st in tree.body:
        if not isinstance(st, (ast.Import, ast.ImportFrom, ast.ClassDef)) and not _is_doc(st):
            raise Unsupported(f"module-level state in factories.py: {ast.unparse(st)[:60]}")
    if sorted(c.name for c in classes) != sorted(gf.ALL):
        raise Unsupported(f"factories.py defines {sorted(c.name for c in classes)}, expected {sorted(gf.ALL)}")
    known = {"factories": set(gf.ALL), "gatesets": set()}
    out = {}
    for cls in classes:
        _class_level(cls)
        rec = ir[cls.name]
        if rec["draws"] and rec["calls"]:
            raise Unsupported(f"{cls.name}: draws and constituent calls interleaved")
        init = _init_table(cls, known)
        attr_cls = {a: s[1] for a, s in init if s[0] == "factory"}
        calls = []
        for c in rec["calls"]:
            if c["method"] != "construct" or c["attr"] not in attr_cls:
                raise Unsupported(f"{cls.name}: call self.{c['attr']}.{c['method']} is not a constituent factory's construct")
            calls.append(attr_cls[c["attr"]])
        draws = [["normal"] if d["kind"] == "normal" else ["mvn", len(d["names"])] for d in rec["draws"]]
        integ_keys = sorted({k for k in _integ_keys(rec)})
        uses_integrator = bool(integ_keys)
        if uses_integrator and ("integrator", ("integratorParam",)) not in init:
            raise Unsupported(f"{cls.name} calls self.integrator.integrate but does not store the constructor's integrator")
        out[cls.name] = {"init": init, "draws": draws, "calls": calls, "integ_keys": integ_keys, "params": rec["params"],
                         "line": rec["line"]}
    for name in out:
        out[name]["script"] = _flatten(out, name, 0)
        out[name]["integ_keys_flat"] = sorted(_flat_keys(out, name, 0))
    # syntactic call sites of numpy's generator: every `np.random.<x>` in the file is one of the two modelled draws
    sites = []
    for n in ast.walk(tree):
        if isinstance(n, ast.Attribute) and ast.unparse(n).startswith("np.random"):
            s = ast.unparse(n)
            if s not in ("np.random", "np.random.normal", "np.random.multivariate_normal"):
                raise Unsupported(f"factories.py uses {s}")
            if s != "np.random":
                sites.append((s, n.lineno))
    return out, sorted(sites, key=lambda x: x[1]), ir


def _integ_keys(v):
    from qgv.pymat import Mat
    if isinstance(v, Mat):
        for r in v.rows:
            for x in r:
                yield from _integ_keys(x)
    elif isinstance(v, tuple):
        if v and v[0] == "integ":
            yield v[1]
        for x in v:
            yield from _integ_keys(x)
    elif isinstance(v, list):
        for x in v:
            yield from _integ_keys(x)
    elif isinstance(v, dict):
        for x in v.values():
            yield from _integ_keys(x)


def _flatten(tab, name, depth):
    if depth > 4:
        raise Unsupported("factory nesting too deep")
    rec = tab[name]
    if rec["calls"]:
        return [d for c in rec["calls"] for d in _flatten(tab, c, depth + 1)]
    return list(rec["draws"])


def _flat_keys(tab, name, depth):
    rec = tab[name]
    out = set(rec["integ_keys"])
    for c in rec["calls"]:
        out |= _flat_keys(tab, c, depth + 1)
    return out


def _gates_facts(repo=None):
    ext = gg.extract(repo)                                     # methods are pass-throughs, nothing draws itself
    tree = _tree(SRC_GAT, repo)
    known = {"factories": set(gf.ALL), "gatesets": {"Gates"}}
    init, instances = {}, []
    for st in tree.body:
        if isinstance(st, (ast.Import, ast.ImportFrom)) or _is_doc(st):
            continue
        if isinstance(st, ast.ClassDef):
            if st.name not in ("Gates", "NoiseFreeGates", "ScaledNoiseGates"):
                raise Unsupported(f"gates.py defines an unknown class {st.name}")
            _class_level(st)
            init[st.name] = _init_table(st, known)
            continue
        if isinstance(st, ast.Assign) and len(st.targets) == 1 and isinstance(st.targets[0], ast.Name) \
                and isinstance(st.value, ast.Call) and isinstance(st.value.func, ast.Name) and st.value.func.id in init:
            instances.append((st.targets[0].id, st.value.func.id))
            continue
        raise Unsupported(f"module-level statement in gates.py: {ast.unparse(st)[:60]}")
    # every method of Gates forwards to the construct of one of its own factories
    attr_cls = {a: s[1] for a, s in init["Gates"] if s[0] == "factory"}
    methods = {}
    for m, rec in ext["Gates"]["methods"].items():
        if len(rec["calls"]) != 1 or rec["calls"][0]["method"] != "construct" or rec["calls"][0]["attr"] not in attr_cls:
            raise Unsupported(f"Gates.{m} is not a pass-through to one factory")
        methods[m] = attr_cls[rec["calls"][0]["attr"]]
    for m, rec in ext["ScaledNoiseGates"]["methods"].items():
        if len(rec["calls"]) != 1 or rec["calls"][0]["attr"] != "gates" or rec["calls"][0]["method"] != m:
            raise Unsupported(f"ScaledNoiseGates.{m} is not a pass-through to self.gates.{m}")
    return {"init": init, "instances": instances, "methods": methods}


# ------------------------------------------------------------------------------------------------ (iv) simulator
def _int_expr(node, ints):
    if isinstance(node, ast.Constant):
        return isinstance(node.value, int) and not isinstance(node.value, bool)
    if isinstance(node, ast.Name):
        return node.id in ints
    if isinstance(node, ast.BinOp) and isinstance(node.op, (ast.Add, ast.Sub, ast.Mult)):
        return _int_expr(node.left, ints) and _int_expr(node.right, ints)
    if isinstance(node, ast.Call) and isinstance(node.func, ast.Name) and node.func.id == "len" and len(node.args) == 1:
        return True
    return False


def _deepcopy_of(node):
    if isinstance(node, ast.Call) and ast.unparse(node.func) == "copy.deepcopy" and len(node.args) == 1 and not node.keywords:
        return ast.unparse(node.args[0])
    return None


def _simulator_facts(repo=None):
    tree = _tree(SRC_SIM, repo)
    ps = pyexpr.find_function(tree, "_perform_simulation", cls="MrAndersonSimulator")
    ints = {a.arg for a in ps.args.args if a.annotation is not None and ast.unparse(a.annotation) == "int"}
    shot_args, comp = None, None
    stores = {}
    for st in ps.body:
        if isinstance(st, ast.Assign) and len(st.targets) == 1 and isinstance(st.targets[0], ast.Name):
            nm = st.targets[0].id
            stores[nm] = stores.get(nm, 0) + 1
            if nm == "arg_list":
                comp = st.value
            elif _int_expr(st.value, ints) and stores[nm] == 1:
                ints.add(nm)
    if stores.get("arg_list") != 1 or not (isinstance(comp, ast.ListComp) and isinstance(comp.elt, ast.Dict)
                                           and len(comp.generators) == 1 and not comp.generators[0].ifs
                                           and ast.unparse(comp.generators[0].iter) == "range(shots)"):
        raise Unsupported("_perform_simulation: arg_list is not `[ {...} for i in range(shots) ]`")
    shot_args = []
    for k, v in zip(comp.elt.keys, comp.elt.values):
        if not (isinstance(k, ast.Constant) and isinstance(k.value, str)):
            raise Unsupported("_perform_simulation: non-literal key in the shot arguments")
        d = _deepcopy_of(v)
        if d is not None:
            shot_args.append((k.value, ("deepcopy", d)))
        elif isinstance(v, ast.Call) and ast.unparse(v.func) == "self.CircuitClass" and not v.keywords:
            parts = []
            ok = True
            for a in v.args:
                da = _deepcopy_of(a)
                if da is not None:
                    parts.append("deepcopy(" + da + ")")
                elif isinstance(a, ast.Name) and a.id in ints:
                    parts.append("int " + a.id)
                else:
                    parts.append("SHARED " + ast.unparse(a)); ok = False
            shot_args.append((k.value, ("fresh", ok, parts)))
        else:
            shot_args.append((k.value, ("shared", ast.unparse(v)[:50])))
    # the parallel / sequential dispatch: `if self.parallel:` statements without an else only concern the parallel mode (C09)
    par = [st for st in ps.body if isinstance(st, ast.If) and ast.unparse(st.test) == "self.parallel"]
    branch = [st for st in par if st.orelse]
    if len(branch) != 1:
        raise Unsupported("_perform_simulation: `if self.parallel: ... else: ...` not found exactly once")
    if par.index(branch[0]) != len(par) - 1:
        raise Unsupported("_perform_simulation: parallel-only statements after the dispatch")
    seq = branch[0].orelse
    if len(seq) != 1 or not (isinstance(seq[0], ast.For) and ast.unparse(seq[0].iter) == "arg_list" and not seq[0].orelse):
        raise Unsupported("_perform_simulation: the sequential branch is not `for arg in arg_list`")
    loop_calls = sorted({ast.unparse(n.func) for st in seq[0].body for n in ast.walk(st) if isinstance(n, ast.Call)})
    if any(c not in ("_single_shot", "np.square") for c in loop_calls):
        raise Unsupported(f"_perform_simulation: the sequential loop calls {loop_calls}")
    # keys added to the shot arguments in parallel mode only
    parallel_only_keys = sorted({n.slice.value for st in par for b in st.body for n in ast.walk(b)
                                 if isinstance(n, ast.Subscript) and isinstance(n.ctx, ast.Store) and isinstance(n.slice, ast.Constant)
                                 and isinstance(n.value, ast.Name) and n.value.id == "arg"})
    # every call of the function outside the `if self.parallel` statements
    outside = sorted({ast.unparse(n.func) for st in ps.body if st not in par for n in ast.walk(st) if isinstance(n, ast.Call)})
    allowed_outside = {"np.zeros", "len", "copy.deepcopy", "self.CircuitClass", "range", "np.square"}
    if any(c not in allowed_outside for c in outside):
        raise Unsupported(f"_perform_simulation calls {[c for c in outside if c not in allowed_outside]} outside the shot loop")
    for st in ps.body:                                         # the shot arguments are not touched between construction and the loop
        if st in par:
            continue
        for n in ast.walk(st):
            if isinstance(n, ast.Subscript) and isinstance(n.ctx, ast.Store) and isinstance(n.value, ast.Name) and n.value.id in ("arg", "arg_list"):
                raise Unsupported("_perform_simulation: the shot arguments are modified outside the parallel-only statements")
    # _single_shot: which entries it reads and what it calls; `if "<k>" in args: np.random.seed(args["<k>"])` is a reseed that
    # only happens when the key is present, i.e. (checked) only in parallel mode
    ss = pyexpr.find_function(tree, "_single_shot")
    if [a.arg for a in ss.args.args] != ["args"]:
        raise Unsupported("_single_shot: signature changed")
    reseed_keys, guarded = [], set()
    for st in ss.body:
        if isinstance(st, ast.If) and isinstance(st.test, ast.Compare) and len(st.test.ops) == 1 and isinstance(st.test.ops[0], ast.In) \
                and isinstance(st.test.left, ast.Constant) and ast.unparse(st.test.comparators[0]) == "args" and not st.orelse \
                and len(st.body) == 1 and isinstance(st.body[0], ast.Expr) \
                and ast.unparse(st.body[0].value) == f"np.random.seed(args[{st.test.left.value!r}])":
            reseed_keys.append(st.test.left.value)
            guarded |= {id(x) for x in ast.walk(st)}
    reads = sorted({n.slice.value for n in ast.walk(ss) if isinstance(n, ast.Subscript) and isinstance(n.value, ast.Name)
                    and n.value.id == "args" and isinstance(n.slice, ast.Constant) and id(n) not in guarded})
    ss_calls = sorted({ast.unparse(n.func) for n in ast.walk(ss) if isinstance(n, ast.Call) and id(n) not in guarded})
    if any(c not in ("_apply_gates_on_circuit", "circ.statevector", "np.square", "np.absolute") for c in ss_calls):
        raise Unsupported(f"_single_shot calls {ss_calls}")
    if sorted(k for k, _ in shot_args) != reads:
        raise Unsupported(f"_single_shot reads {reads}, the shot arguments are {sorted(k for k, _ in shot_args)}")
    for k in reseed_keys:
        if k in [x for x, _ in shot_args] or k not in parallel_only_keys:
            raise Unsupported(f"_single_shot reseeds from args[{k!r}], which is not a parallel-only entry of the shot arguments")
    _, free = _self_reads_and_globals(ss)
    if any(g not in ("np", "_apply_gates_on_circuit") for g in free):
        raise Unsupported(f"_single_shot reads global names {free}")
    # module-level state of simulator.py
    for st in tree.body:
        if not isinstance(st, (ast.Import, ast.ImportFrom, ast.ClassDef, ast.FunctionDef)) and not _is_doc(st):
            raise Unsupported(f"module-level state in simulator.py: {ast.unparse(st)[:60]}")
    return {"shot_args": shot_args, "loop_calls": loop_calls, "single_shot_reads": reads, "single_shot_calls": ss_calls,
            "int_names": sorted(ints), "line": ps.lineno, "parallel_only_keys": parallel_only_keys, "reseed_keys": reseed_keys}


def _entropy_scan(repo=None, reseed_ok=None):
    """entropy sources / memo decorators in the files a sequential shot runs through (factories.py: symbolic execution)"""
    found = []
    for rel in SHOT_PATH:
        tree = _tree(rel, repo)
        short = rel.split("/")[-1]
        par_ok = set()
        if rel == SRC_SIM:      # parallel mode (C09): bodies of `if self.parallel:` and the reseed guarded by a parallel-only key
            for n in ast.walk(tree):
                if isinstance(n, ast.If) and ast.unparse(n.test) == "self.parallel":
                    for st in n.body:
                        par_ok |= {id(x) for x in ast.walk(st)}
                if isinstance(n, ast.If) and isinstance(n.test, ast.Compare) and len(n.test.ops) == 1 and isinstance(n.test.ops[0], ast.In) \
                        and isinstance(n.test.left, ast.Constant) and n.test.left.value in (reseed_ok or ()) \
                        and ast.unparse(n.test.comparators[0]) == "args":
                    par_ok |= {id(x) for x in ast.walk(n)}
        for n in ast.walk(tree):
            if isinstance(n, (ast.Import, ast.ImportFrom)):
                mods = [a.name for a in n.names] + ([n.module] if isinstance(n, ast.ImportFrom) and n.module else [])
                for m in mods:
                    root = m.split(".")[0]
                    if root in ENTROPY_ROOTS or m in ENTROPY_NAMES or (root == "multiprocessing" and id(n) not in par_ok):
                        found.append(f"{short}:{n.lineno} import {m}")
            elif isinstance(n, ast.Attribute):
                s = ast.unparse(n)
                if id(n) in par_ok:
                    continue
                if s.startswith(("np.random", "numpy.random")) or n.attr in ENTROPY_NAMES or \
                        (isinstance(n.value, ast.Name) and n.value.id in ENTROPY_ROOTS) or s.startswith("multiprocessing."):
                    found.append(f"{short}:{n.lineno} {s}")
            elif isinstance(n, ast.Call) and isinstance(n.func, ast.Name) and n.func.id in ({"hash", "id"} | ENTROPY_NAMES):
                found.append(f"{short}:{n.lineno} {n.func.id}(...)")
    return sorted(set(found))


# ------------------------------------------------------------------------------------------------ all
def extract(repo=None):
    tree = _tree(SRC_INT, repo)
    integ = _integrate_facts(tree)
    state = _state_facts(repo)
    fac, sites, ir = _factory_facts(repo)
    gates = _gates_facts(repo)
    sim = _simulator_facts(repo)
    ent = _entropy_scan(repo, sim["reseed_keys"])
    return {"integrate": integ, "state": state, "factories": fac, "draw_sites": sites, "gates": gates, "simulator": sim,
            "entropy": ent, "factories_ir": ir}


# ------------------------------------------------------------------------------------------------ printing
def _lstr(s):
    return '"' + s.replace("\\", "\\\\").replace('"', '\\"') + '"'


def _llist(items):
    return "[" + ", ".join(items) + "]"


def _init_src(s):
    if s[0] == "factory":
        return f".factory {_lstr(s[1])} {'true' if s[2] else 'false'}"
    if s[0] == "gateSet":
        return f".gateSet {_lstr(s[1])}"
    return "." + s[0]


def _draw(d):
    return ".normal" if d[0] == "normal" else f".mvn {d[1]}"


def generate(repo=None):
    ex = extract(repo)
    I, S, F, Gt, Sim = ex["integrate"], ex["state"], ex["factories"], ex["gates"], ex["simulator"]
    L = []
    A = L.append
    A("import QG.Model.IntegratorCache")
    A("/-! GENERATED on every run by harness/gen/determinism.py from the source text of")
    A(f"{SRC_INT}, {SRC_FAC}, {SRC_GAT}, {SRC_SIM} (and a scan of the package).  Do not edit.")
    A("")
    A(f"`integrate` (line {I['line']}): parameters {tuple(I['params'])}; coerced with `float(...)` first: {tuple(I['coerced_source'])};")
    A(f"cache key {tuple(I['key_source'])} (read and written {I['cache_reads_and_writes']}x under the same tuple); asserts {I['asserts']};")
    A(f"the two integration routines are called with {tuple(I['params'])} in this order; `self.` attributes read: {I['self_reads']}.")
    A(f"`_cache`: {S['cache_created']}.")
    A(f"generator call sites in factories.py: {[f'{s}:{l}' for s, l in ex['draw_sites']]}.")
    A(f"`_perform_simulation` (line {Sim['line']}): shot arguments {Sim['shot_args']}; sequential loop calls {Sim['loop_calls']};")
    A(f"`_single_shot` reads {Sim['single_shot_reads']} and calls {Sim['single_shot_calls']}; parallel-only shot arguments "
      f"{Sim['parallel_only_keys']}, reseed guarded by their presence: {Sim['reseed_keys']}. -/")
    A("namespace QG.Gen.Determinism")
    A("open QG.Model.IntegratorCache")
    A("")
    A("/-- key tuple, coerced parameters and known integrand names of `Integrator.integrate` -/")
    A("def config : Config :=")
    A(f"  {{ keyFields := {_llist(['.' + f for f in I['key_fields']])}")
    A(f"    coerced := {_llist(['.' + f for f in I['coerced']])}")
    A(f"    known := {_llist([_lstr(k) for k in I['known']])} }}")
    A("/-- the parameters handed to `_analytical_integration` / `_numerical_integration` -/")
    A(f"def computeArgs : List Field := {_llist(['.' + f for f in I['compute_args']])}")
    A("/-- `_cache` is an instance attribute that `__init__` binds to a fresh dict (and no class-level `_cache` exists) -/")
    A(f"def cacheInstanceLevel : Bool := {'true' if S['instance_level'] else 'false'}")
    A("/-- every store, anywhere in the package, to `_cache`, `pulse_parametrization`, `use_lookup` or a lookup table:")
    A("(file, enclosing scope, attribute, kind) -/")
    A("def stateWriters : List (String × String × String × String) :=")
    A("  " + _llist([f"({_lstr(a)}, {_lstr(b)}, {_lstr(c)}, {_lstr(d)})" for a, b, c, d in S["writers"]]))
    A("/-- the stores a per-instance, integrate-only cache and per-integrator constants amount to -/")
    A("def expectedStateWriters : List (String × String × String × String) :=")
    A("  " + _llist([f"({_lstr(a)}, {_lstr(b)}, {_lstr(c)}, {_lstr(d)})" for a, b, c, d in EXPECTED_WRITERS]))
    A("/-- entropy sources / memoising decorators found in the files a sequential shot runs through, other than the modelled")
    A("`np.random.normal` / `np.random.multivariate_normal` sites of factories.py (which the symbolic execution accounts for) -/")
    A(f"def otherEntropySources : List String := {_llist([_lstr(e) for e in ex['entropy']])}")
    A("")
    A("/-- `__init__` attribute tables: gate factories (factories.py) and gate-set classes (gates.py) -/")
    A("def initTable : InitTable :=")
    rows = []
    for name in gf.ALL:
        rows.append(f"({_lstr(name)}, {_llist([f'({_lstr(a)}, {_init_src(s)})' for a, s in F[name]['init']])})")
    for name in ("Gates", "NoiseFreeGates", "ScaledNoiseGates"):
        rows.append(f"({_lstr(name)}, {_llist([f'({_lstr(a)}, {_init_src(s)})' for a, s in Gt['init'][name]])})")
    A("  [" + ",\n   ".join(rows) + "]")
    A("/-- module-level gate-set instances of gates.py (each constructor call creates its own objects) -/")
    A(f"def moduleInstances : List (String × String) := {_llist([f'({_lstr(a)}, {_lstr(b)})' for a, b in Gt['instances']])}")
    A("")
    A("/-- draws an elementary factory's `construct` performs itself, in call order -/")
    A("def ownDraws : List (String × List Draw) :=")
    A("  [" + ",\n   ".join(f"({_lstr(n)}, {_llist([_draw(d) for d in F[n]['draws']])})" for n in gf.ALL) + "]")
    A("/-- constituent factories a composite factory's `construct` calls, in call order (class names) -/")
    A("def constituentCalls : List (String × List String) :=")
    A("  [" + ",\n   ".join(f"({_lstr(n)}, {_llist([_lstr(c) for c in F[n]['calls']])})" for n in gf.ALL) + "]")
    A("/-- number of draws of the flattened script, as computed by the generator (cross-checked in QG.Props.C10) -/")
    A("def scriptLengths : List (String × Nat) :=")
    A("  " + _llist([f"({_lstr(n)}, {len(F[n]['script'])})" for n in gf.ALL]))
    A("")
    A("/-- how `_perform_simulation` builds the entries of a shot's argument dict -/")
    A("def shotArgs : List (String × ShotArg) :=")
    rows = []
    for k, v in Sim["shot_args"]:
        rows.append(f"({_lstr(k)}, " + (".deepcopy" if v[0] == "deepcopy" else f".fresh {'true' if v[1] else 'false'}" if v[0] == "fresh" else ".shared") + ")")
    A("  " + _llist(rows))
    A("")
    A("end QG.Gen.Determinism")
    core.write_if_changed(os.path.join(core.LEAN, "QG", "Gen", "Determinism.lean"), "\n".join(L) + "\n")
    return ex
