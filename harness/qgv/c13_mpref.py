"""C13 reference values at 50 digits (runs under `python3-vt`: mpmath only; never imports the repo or the harness).

stdin : {"dps": 50, "cases": [{"loc": <float.hex>, "scale": <float.hex>, "xs": [<float.hex>, ...]}, ...]}
stdout: {"results": [{"Z": "<25 digits>", "log10Z": float, "w": ["..."], "F": ["..."], "pdf": ["..."]}, ...]}

The formulas are written down from the property statement, independently of the translator's IR:
    pdf(x)  = exp(-((x-loc)/scale)^2 / 2) / (scale * sqrt(2 pi))
    W(a,b)  = weight of N(loc, scale^2) on [a,b], evaluated with erfc on the side where it does not cancel
    w(x)    = pdf(x) / W(0,1)              (waveform)
    F(x)    = W(0,x) / W(0,1)              (parametrisation = running integral)
mpmath's exponent range is unbounded, so W(0,1) is obtained even where it underflows in double precision.
"""
import json, sys
import mpmath as mp


def weight(a, b, loc, scale):
    """P(a <= X <= b), X ~ N(loc, scale^2), a <= b"""
    s2 = mp.sqrt(2)
    ta, tb = (a - loc) / scale, (b - loc) / scale
    if ta >= 0:                       # interval right of the mean: upper tails
        return (mp.erfc(ta / s2) - mp.erfc(tb / s2)) / 2
    if tb <= 0:                       # interval left of the mean: lower tails
        return (mp.erfc(-tb / s2) - mp.erfc(-ta / s2)) / 2
    return (mp.erf(tb / s2) + mp.erf(-ta / s2)) / 2


def main():
    req = json.load(sys.stdin)
    mp.mp.dps = int(req.get("dps", 50))
    out = []
    for c in req["cases"]:
        loc, scale = mp.mpf(float.fromhex(c["loc"])), mp.mpf(float.fromhex(c["scale"]))
        xs = [mp.mpf(float.fromhex(h)) for h in c["xs"]]
        Z = weight(mp.mpf(0), mp.mpf(1), loc, scale)
        pdf = [mp.exp(-((x - loc) / scale) ** 2 / 2) / (scale * mp.sqrt(2 * mp.pi)) for x in xs]
        w = [p / Z for p in pdf]
        F = [(weight(mp.mpf(0), x, loc, scale) if x >= 0 else -weight(x, mp.mpf(0), loc, scale)) / Z for x in xs]
        out.append({"Z": mp.nstr(Z, 25), "log10Z": float(mp.log10(Z)), "w": [mp.nstr(v, 25) for v in w],
                    "F": [mp.nstr(v, 25) for v in F], "pdf": [mp.nstr(v, 25) for v in pdf]})
    json.dump({"results": out}, sys.stdout)


if __name__ == "__main__":
    main()
