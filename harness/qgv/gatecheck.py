"""Shared steps of the gate-formula checks (C04, C05, C06, C07): regenerate the Lean definitions from the
source text, validate the translator's IR against the real code (translation validation), build gate sets."""
import math, random
import numpy as np
from qgv import core, pyexpr
from qgv import tv_factories as tv
from gen import factories as gf, factories_lean as fl, gatesets_lean as gl


def regenerate():
    """returns (ir, fmeta, gmeta, error)"""
    try:
        ir, fmeta = fl.generate()
        g, gmeta = gl.generate(fmeta)
        return ir, fmeta, gmeta, None
    except (pyexpr.Unsupported, SyntaxError, OSError, KeyError, IndexError, AttributeError, TypeError) as e:
        return None, None, None, f"translator fails closed: {type(e).__name__}: {e}"


def build_pulse(desc):
    from quantum_gates._gates.pulse import constant_pulse, constant_pulse_numerical, GaussianPulse
    if desc[0] == "constant":
        return constant_pulse
    if desc[0] == "constant-numerical":
        return constant_pulse_numerical
    if desc[0] == "gaussian":
        return GaussianPulse(loc=desc[1], scale=desc[2])
    if desc[0] == "user-smooth":
        # a user-defined smooth pulse that passes the library's own validation: f = (1 - d) * 30 x^2 (1-x)^2, F its running integral,
        # so F(1) = 1 - d with d below the validator's tolerance (an un-renormalised waveform)
        from quantum_gates._gates.pulse import Pulse
        d = desc[1]
        return Pulse(pulse=lambda x, d=d: (1 - d) * 30 * x ** 2 * (1 - x) ** 2,
                     parametrization=lambda x, d=d: (1 - d) * x ** 3 * (10 - 15 * x + 6 * x ** 2), perform_checks=True)
    raise KeyError(desc)


def pulse_descs(rng, thorough=False):
    out = [["constant"], ["constant-numerical"], ["gaussian", 0.5, 0.3]]
    for _ in range(3 if thorough else 1):
        out.append(["gaussian", round(rng.uniform(-0.5, 1.5), 3), round(rng.uniform(0.08, 2.0), 3)])
    return out


def pulses(rng, thorough=False):
    return [(str(d), build_pulse(d)) for d in pulse_descs(rng, thorough)]


def build_gate_set(desc):
    from quantum_gates._gates.gates import Gates, ScaledNoiseGates, standard_gates, numerical_gates
    if desc[0] == "standard_gates":
        return standard_gates
    if desc[0] == "numerical_gates":
        return numerical_gates
    if desc[0] == "Gates":
        return Gates(build_pulse(desc[1]))
    if desc[0] == "ScaledNoiseGates":
        return ScaledNoiseGates(noise_scaling=desc[1], pulse=build_pulse(desc[2]))
    raise KeyError(desc)


def gate_set_descs(rng, thorough=False):
    out = [["standard_gates"], ["numerical_gates"]]
    for d in pulse_descs(rng, thorough)[2:]:
        out.append(["Gates", d])
    out.append(["ScaledNoiseGates", 0.37, ["constant"]])
    out.append(["ScaledNoiseGates", 2.5, ["gaussian", 0.4, 0.25]])
    out.append(["Gates", ["user-smooth", 5e-7]])
    return out


def translation_validation(ctx, ir, n_per=4):
    """IR (literal and poly-mode) vs the real construct under injected samples, all factories, several pulses.
    returns (cases, mismatches[list of text])"""
    from quantum_gates._gates.integrator import Integrator
    rng = ctx.rng
    mism, n = [], 0
    irp = fl.poly_records(ir)
    for pname, pulse in pulses(rng, ctx.thorough):
        integ = Integrator(pulse)
        for cname in gf.ALL:
            for k in range(n_per * (3 if ctx.thorough else 1)):
                args = tv.random_args(cname, ir[cname]["params"], rng, zero_noise=(k % 4 == 3))
                for which, I in (("literal", ir), ("poly", irp)):
                    try:
                        ok, why, _ = tv.compare(I, cname, args, integ, random.Random(rng.random()))
                    except Exception as e:                  # noqa
                        ok, why = False, [f"{type(e).__name__}: {e}"]
                    n += 1
                    if not ok:
                        mism.append(f"{cname} [{which} IR, pulse {pname}] args={args}: {why[:2]}")
    return n, mism


GATE_ARGS = {
    "relaxation": ["Dt", "T1", "T2"], "bitflip": ["tm", "rout"], "depolarizing": ["Dt", "p"],
    "single_qubit_gate": ["theta", "phi", "p", "T1", "T2"], "X": ["phi", "p", "T1", "T2"], "SX": ["phi", "p", "T1", "T2"],
    "CR": ["theta", "phi", "t_cr", "p_cr", "T1_ctr", "T2_ctr", "T1_trg", "T2_trg"],
    "CNOT": ["phi_ctr", "phi_trg", "t_cnot", "p_cnot", "p_single_ctr", "p_single_trg", "T1_ctr", "T2_ctr", "T1_trg", "T2_trg"],
}
for _g in ("CNOT_inv", "ECR", "ECR_inv"):
    GATE_ARGS[_g] = [a.replace("t_cnot", "t_ecr" if "ECR" in _g else "t_cnot").replace("p_cnot", "p_ecr" if "ECR" in _g else "p_cnot")
                     for a in GATE_ARGS["CNOT"]]
