"""A deterministic thread interleaving on one shared gate set: while a first gate request is inside its numerical integration (the
pulse parametrization is being evaluated by quad), a second thread issues a complete second request on the same gate set; the first
then continues.  The schedule is forced from inside a user-defined pulse parametrization (the only user code the integrator calls).
Used by C04 (the interleaved sample equals the sample taken alone under the same, stateless, injected draws) and C05 (its
determinant follows the law of its own arguments)."""
import threading
import numpy as np


def hooked_pulse():
    """a smooth user-defined pulse (waveform 30 x^2 (1-x)^2, parametrization its running integral) whose parametrization, when armed,
    runs the armed callable to completion in another thread before returning"""
    from quantum_gates._gates.pulse import Pulse
    state = {"armed": None, "fired": 0, "error": None}

    def F(x):
        f = state["armed"]
        if f is not None:
            state["armed"] = None
            state["fired"] += 1

            def body():
                try:
                    f()
                except Exception as e:          # noqa
                    state["error"] = f"{type(e).__name__}: {e}"
            t = threading.Thread(target=body)
            t.start(); t.join()
        return x ** 3 * (10 - 15 * x + 6 * x ** 2)

    def w(x):
        return 30 * x ** 2 * (1 - x) ** 2
    return Pulse(pulse=w, parametrization=F, perform_checks=False), state


class Stateless:
    """injected draws that depend only on the arguments of the draw (so another thread's draws cannot disturb them):
    every Gaussian returns 0.6 standard deviations"""
    Z = 0.6

    def normal(self, m=0.0, s=1.0, size=None):
        return float(m) + self.Z * float(s)

    def mvn(self, mean, cov, size=None):
        c = np.array(cov, dtype=float)
        v = np.asarray(mean, dtype=float) + self.Z * np.sqrt(np.clip(np.diag(c), 0, None))
        return v.reshape(1, -1) if size is not None else v


def interleaved(gateA, argsA, gateB, argsB, inject=True):
    """returns (G_A sampled while B ran inside A's integration, G_A sampled alone on another new gate set, times the hook fired, error of B)"""
    from quantum_gates._gates.gates import Gates
    inj = Stateless()
    om, on = np.random.multivariate_normal, np.random.normal
    if inject:
        np.random.multivariate_normal, np.random.normal = inj.mvn, inj.normal
    try:
        with np.errstate(all="ignore"):
            p1, st1 = hooked_pulse()
            g1 = Gates(p1)
            st1["armed"] = lambda: getattr(g1, gateB)(*argsB)
            GA = np.array(getattr(g1, gateA)(*argsA), dtype=complex)
            p2, st2 = hooked_pulse()
            g2 = Gates(p2)
            Gref = np.array(getattr(g2, gateA)(*argsA), dtype=complex)
    finally:
        np.random.multivariate_normal, np.random.normal = om, on
    return GA, Gref, st1["fired"], st1["error"]
