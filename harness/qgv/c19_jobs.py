"""Simulation callables for the C19 check (batch helpers).

They live in an importable module so that they pickle into the worker processes of
`multiprocessing.Pool` / `ProcessPoolExecutor`.  An argument is the tuple `(directory, index, kind)`.
Every call leaves two traces on disk before it returns or raises:
  * one line `index monotonic_ns` appended to `<directory>/calls-<pid>.log` (per-worker call sequence),
  * one new, uniquely named marker file `<directory>/m-<index>-<pid>-<ns>` (exactly-once counting).
`kind` selects what the call does afterwards:
  "pair"    return (elapsed, label)            — what the pool variant unpacks and prints
  "none"    return None                        — unpacking raises TypeError
  "scalar"  return 7                           — unpacking raises TypeError
  "triple"  return (elapsed, label, 0)         — unpacking raises ValueError
  "raise"   raise KeyError(label)
"""
import os, time

# in-process stand-ins set this to the worker the scheduler is currently "running" (None: real pools)
CURRENT_WORKER = None


def label_of(index):
    return f"job{index}"


def elapsed_of(index):
    return f"0.{index:03d}"


def job(arg):
    d, index, kind = arg
    pid = os.getpid()
    ns = time.monotonic_ns()
    who = pid if CURRENT_WORKER is None else f"w{CURRENT_WORKER}"
    with open(os.path.join(d, f"calls-{who}.log"), "a") as f:
        f.write(f"{index} {ns}\n")
    k = 0
    while True:                                   # unique name even for two calls in the same nanosecond
        try:
            fd = os.open(os.path.join(d, f"m-{index}-{who}-{ns}-{k}"), os.O_CREAT | os.O_EXCL | os.O_WRONLY)
            os.close(fd)
            break
        except FileExistsError:
            k += 1
    if kind == "pair":
        return (elapsed_of(index), label_of(index))
    if kind == "none":
        return None
    if kind == "scalar":
        return 7
    if kind == "triple":
        return (elapsed_of(index), label_of(index), 0)
    if kind == "raise":
        raise KeyError(label_of(index))
    raise RuntimeError("unknown kind " + repr(kind))


def read_traces(d):
    """-> (markers: {index: count}, per_worker: {who: [(index, ns), ...] in call order})"""
    markers, per_worker = {}, {}
    for name in os.listdir(d):
        if name.startswith("m-"):
            idx = int(name.split("-")[1])
            markers[idx] = markers.get(idx, 0) + 1
        elif name.startswith("calls-"):
            who = name[len("calls-"):-len(".log")]
            rows = []
            for line in open(os.path.join(d, name)):
                a, b = line.split()
                rows.append((int(a), int(b)))
            per_worker[who] = rows
    return markers, per_worker
