"""Instrumented circuit class and case runner for the C09 check (shots are independent noise realisations).

Everything that has to exist inside worker processes lives here, in an importable module, so that it pickles
into the workers of `multiprocessing.Pool` under the `fork`, the `spawn` AND the `forkserver` (numpy preloaded) start method.

`SpyCircuit` is the repository's `BinaryCircuit` with three observation points (no behaviour is changed, nothing
is drawn from numpy's global generator by the instrumentation):
  * construction (in the parent, inside `_perform_simulation`'s argument list): the k-th instance built during a
    run is the circuit of shot k; the index travels with the pickled instance;
  * the first call of any gate method in a shot (`_apply_gates_on_circuit` calls them right after the optional
    re-seeding of `_single_shot` and before anything is sampled): pid, time, a copy of the state of numpy's
    global generator = where this shot's draw interval STARTS;
  * `statevector()` (after the last sampled gate): the state of the generator again = where the interval ENDS,
    the number of legacy Gaussian variates in between (found by stepping a private copy of the start state; all
    sampling in the gate factories is `np.random.normal / multivariate_normal`, i.e. legacy Gaussians), a
    fingerprint (the first values a copy of the start state would produce), and the Born vector the shot returns.
One JSON marker file per shot execution is written to the directory named by $QGV_C09_TRACE_DIR
(unique file names: executing a shot twice leaves two files).

`run_case(case)` runs the REAL `MrAndersonSimulator.run` once and returns everything observed.
`cli()` reads {"start_method": ..., "cases": [...]} from stdin and prints the list of observations as JSON
(the check runs it in a subprocess: `multiprocessing.set_start_method` is process-global, and the check's own
generator state stays out of the experiment).
"""
import contextlib, hashlib, io, json, multiprocessing, os, re, shutil, sys, tempfile, time
from unittest import mock

import numpy as np
from quantum_gates._simulation.circuit import BinaryCircuit

TRACE_ENV = "QGV_C09_TRACE_DIR"
MAX_GAUSS = 20000          # bound for the search of the interval length
PEEK = 4


def _norm_state(st):
    name, key, pos, has_gauss, cached = st
    return (str(name), key.tobytes(), int(pos), int(has_gauss), float(cached).hex() if has_gauss else "-")


def state_digest(st=None):
    """digest of a state of numpy's legacy global generator (key, position, Gaussian cache)"""
    st = np.random.get_state() if st is None else st
    name, key, pos, has_gauss, cached = _norm_state(st)
    h = hashlib.sha256()
    h.update(key)
    h.update(repr((name, pos, has_gauss, cached)).encode())
    return h.hexdigest()[:24]


def gauss_steps(start, end_digest, bound=MAX_GAUSS):
    """number of legacy Gaussian variates that lead from state `start` to the state with digest `end_digest`
    (None: not reachable within `bound` variates, i.e. something other than Gaussians was drawn)"""
    rs = np.random.RandomState()
    rs.set_state(start)
    if state_digest(rs.get_state()) == end_digest:
        return 0
    for k in range(1, bound + 1):
        rs.standard_normal()
        if state_digest(rs.get_state()) == end_digest:
            return k
    return None


def peek(start, n=PEEK):
    """the first n standard normals a generator in state `start` produces (drawn from a private copy)"""
    rs = np.random.RandomState()
    rs.set_state(start)
    return [float(x).hex() for x in rs.standard_normal(n)]


from quantum_gates._gates.gates import NoiseFreeGates as _NoiseFreeGates


class SampledReadout(_NoiseFreeGates):
    """a user-defined gate set (module level: picklable): ideal gates, sampled read-out error"""
    def bitflip(self, tm, rout):
        from quantum_gates._gates.gates import standard_gates
        return standard_gates.bitflip(tm, rout)


class SpyCircuit(BinaryCircuit):
    _next_index = 0           # parent side: number of instances built since the last reset

    def __init__(self, nqubit, depth, gates, *a, **kw):
        BinaryCircuit.__init__(self, nqubit, depth, gates, *a, **kw)
        self.c09_index = SpyCircuit._next_index
        SpyCircuit._next_index += 1
        self.c09_begin = None
        self.c09_gates = []
        # the trace directory travels with the pickled instance: workers forked from a fork server inherit the SERVER's
        # environment (that of the first run), not the parent's
        self.c09_dir = os.environ.get(TRACE_ENV)

    def apply(self, gate, *a, **kw):
        import hashlib
        self.c09_gates.append(hashlib.sha1(np.ascontiguousarray(np.asarray(gate, dtype=complex)).tobytes()).hexdigest()[:16])
        return BinaryCircuit.apply(self, gate, *a, **kw)

    def _c09_mark_begin(self):
        if self.c09_begin is None:
            self.c09_begin = (os.getpid(), time.monotonic_ns(), np.random.get_state())

    def statevector(self, psi0):
        psi = BinaryCircuit.statevector(self, psi0)
        self._c09_finish(psi)
        return psi

    def _c09_finish(self, psi):
        self._c09_mark_begin()
        pid, t0, start = self.c09_begin
        end = np.random.get_state()
        t1 = time.monotonic_ns()
        end_d = state_digest(end)
        rec = {"shot": self.c09_index, "pid": pid, "pid_end": os.getpid(), "t_begin": t0, "t_end": t1,
               "start": state_digest(start), "end": end_d, "len": gauss_steps(start, end_d),
               "peek": peek(start), "probs": [float(x).hex() for x in np.square(np.absolute(psi))],
               "gates": list(self.c09_gates)}
        d = getattr(self, "c09_dir", None) or os.environ.get(TRACE_ENV)
        if d:
            name = f"shot-{self.c09_index}-{pid}-{t1}"
            tmp = os.path.join(d, "." + name + ".tmp")
            with open(tmp, "w") as f:
                json.dump(rec, f)
            k = 0
            while True:                              # unique name even for two executions in the same nanosecond
                try:
                    os.link(tmp, os.path.join(d, f"{name}-{k}.json"))
                    break
                except FileExistsError:
                    k += 1
            os.unlink(tmp)


def _wrap(name):
    orig = getattr(BinaryCircuit, name)

    def method(self, *a, **kw):
        self._c09_mark_begin()
        return orig(self, *a, **kw)
    method.__name__ = name
    return method


for _name in ("I", "Rz", "X", "SX", "CNOT", "ECR", "bitflip", "relaxation", "depolarizing"):
    setattr(SpyCircuit, _name, _wrap(_name))


# ------------------------------------------------------------------------------------------------ runner
def device_param(n):
    return {"T1": np.full(n, 1e-4), "T2": np.full(n, 1.2e-4), "p": np.full(n, 2e-3), "rout": np.full(n, 1e-2),
            "p_int": np.full((n, n), 1e-2), "t_int": np.full((n, n), 4e-7), "tm": np.full(n, 1e-6),
            "dt": np.array([2e-10])}


def build_circuit(nq, ops):
    """ops: ["sx", q] | ["x", q] | ["rz", q, theta] | ["cx", c, t] | ["ecr", c, t] | ["delay", q, dt]; every qubit is
    measured into the classical bit of the same number"""
    from qiskit import QuantumCircuit
    c = QuantumCircuit(nq, nq)
    for op in ops:
        k = op[0]
        if k == "sx":
            c.sx(op[1])
        elif k == "x":
            c.x(op[1])
        elif k == "rz":
            c.rz(op[2], op[1])
        elif k == "cx":
            c.cx(op[1], op[2])
        elif k == "ecr":
            c.ecr(op[1], op[2])
        elif k == "delay":
            c.delay(op[2], op[1])
        else:
            raise ValueError("unknown op " + repr(op))
    for q in range(nq):
        c.measure(q, q)
    return c


HDR = [re.compile(r"Our CPU count is (\d+)"), re.compile(r"Use 80% of the cores, so (\d+) processes\."),
       re.compile(r"As we perform (\d+) shots, we use a chunksize of (\d+)\.")]


def run_case(case):
    """case = {"mode": "seq"|"par", "S": shots, "cpu": patched cpu_count (par), "seed": parent seed,
               "nq": qubits, "ops": circuit}  ->  observation dict (JSON-serialisable)"""
    from quantum_gates._simulation.simulator import MrAndersonSimulator
    from quantum_gates._gates.gates import standard_gates
    nq, S = case["nq"], case["S"]
    circ = build_circuit(nq, case["ops"])
    d = tempfile.mkdtemp(prefix="c09-trace-")
    os.environ[TRACE_ENV] = d
    SpyCircuit._next_index = 0
    psi0 = np.zeros(2 ** nq)
    psi0[0] = 1.0
    gates = standard_gates
    if case.get("gates") == "noisefree-with-sampled-readout":
        # a user-defined gate set: ideal gates, but the read-out error is sampled (derived from the noise-free gate set)
        gates = SampledReadout()
    if case.get("prewarm"):
        # the gate set has been sampled from directly before the run (as in a notebook session)
        np.random.seed(case["seed"] ^ 0x5bd1)
        for _ in range(case["prewarm"]):
            standard_gates.X(0.3, 1e-3, 1e-4, 5e-5)
            standard_gates.SX(0.1, 1e-3, 1e-4, 5e-5)
            # ... every sampler of the gate set, the idle / read-out ones and a two-qubit gate included
            standard_gates.bitflip(1e-6, 0.02)
            standard_gates.relaxation(7e-8, 1e-4, 5e-5)
            standard_gates.depolarizing(7e-8, 1e-3)
            standard_gates.CNOT(0.1, 0.2, 4e-7, 0.01, 1e-3, 1e-3, 1e-4, 5e-5, 1e-4, 5e-5)
    sim = MrAndersonSimulator(gates=gates, CircuitClass=SpyCircuit, parallel=(case["mode"] == "par"))
    np.random.seed(case["seed"])
    pre = state_digest()
    buf = io.StringIO()
    exc, result = None, None
    t0 = time.time()
    try:
        with contextlib.ExitStack() as st:
            st.enter_context(contextlib.redirect_stdout(buf))
            if case["mode"] == "par":
                st.enter_context(mock.patch.object(multiprocessing, "cpu_count", return_value=case["cpu"]))
            try:
                result = sim.run(t_qiskit_circ=circ, qubits_layout=list(range(nq)), psi0=psi0, shots=S,
                                 device_param=device_param(nq), nqubit=nq)
            except Exception as e:                                              # noqa
                exc = f"{type(e).__name__}: {e}"[:300]
        post = state_digest()
        built_first = SpyCircuit._next_index
        records = []
        for name in sorted(os.listdir(d)):
            if name.endswith(".json"):
                with open(os.path.join(d, name)) as f:
                    records.append(json.load(f))
        second = None
        if case.get("again") and exc is None:
            # a second run of the same simulator in the same process, WITHOUT reseeding: its shots are new noise realisations
            for name in os.listdir(d):
                os.unlink(os.path.join(d, name))
            exc2 = None
            with contextlib.ExitStack() as st:
                st.enter_context(contextlib.redirect_stdout(io.StringIO()))
                if case["mode"] == "par":
                    st.enter_context(mock.patch.object(multiprocessing, "cpu_count", return_value=case["cpu"]))
                try:
                    sim.run(t_qiskit_circ=circ, qubits_layout=list(range(nq)), psi0=psi0, shots=S, device_param=device_param(nq), nqubit=nq)
                except Exception as e:                                          # noqa
                    exc2 = f"{type(e).__name__}: {e}"[:300]
            rec2 = []
            for name in sorted(os.listdir(d)):
                if name.endswith(".json"):
                    with open(os.path.join(d, name)) as f:
                        r = json.load(f)
                        rec2.append({"shot": r["shot"], "start": r["start"], "peek": r["peek"], "probs": r["probs"]})
            second = {"exception": exc2, "records": rec2}
        out = buf.getvalue().splitlines()
        hdr = {}
        m = [HDR[i].match(out[i]) if i < len(out) else None for i in range(3)]
        if all(m):
            hdr = {"cpu": int(m[0].group(1)), "n_processes": int(m[1].group(1)),
                   "S": int(m[2].group(1)), "chunksize": int(m[2].group(2))}
        return {"exception": exc, "result": None if result is None else {k: float(v).hex() for k, v in result.items()},
                "built": built_first, "parent_pre": pre, "parent_post": post, "parent_pid": os.getpid(),
                "records": records, "second": second, "hdr": hdr, "start_method": multiprocessing.get_start_method(),
                "wall": round(time.time() - t0, 3)}
    finally:
        os.environ.pop(TRACE_ENV, None)
        shutil.rmtree(d, ignore_errors=True)


def cli():
    req = json.load(sys.stdin)
    sm = req.get("start_method")
    if sm:
        multiprocessing.set_start_method(sm, force=True)
    if sm == "forkserver":
        # the intended use of this start method: the heavy modules are imported once in the server and every worker is
        # forked from it - so every worker inherits the server's numpy generator
        multiprocessing.set_forkserver_preload(["numpy", "numpy.random", "quantum_gates.simulators", "qgv.c09_shots"])
    real_stdout = sys.stdout
    sys.stdout = sys.stderr                      # nothing but the answer goes to stdout
    out = []
    for case in req["cases"]:
        try:
            out.append(run_case(case))
        except Exception as e:                                                  # noqa
            out.append({"internal_error": f"{type(e).__name__}: {e}"[:500]})
    real_stdout.write(json.dumps(out))
    real_stdout.flush()


if __name__ == "__main__":
    cli()
