"""C15 helper: runs a *session* (a history of new / set / save / load / delete / write_* / eq actions) on the real
`DeviceParameters` in a temporary directory, dumps the result in the canonical form the Lean driver
(`lean/QG/Driver/C15.lean`, op `session`) answers in, and evaluates the property's oracle — independent of the model —
on every load.

Canonical forms
  float      -> 16 hex digits of the IEEE-754 double (big endian); every NaN -> 7ff8000000000000 (nan-aware)
  array      -> {"shape": [...], "data": [tokens, row-major]}     (anything that is not float64 is flagged with its dtype)
  metadata   -> sha1 of json.dumps(md, default=<the serializer's rule>); prefix "raw:" when md contains values that JSON
                changes (datetime, complex, tuples, non-string keys, ...): the model's `canon` strips that prefix
  exception  -> "FileNotFoundError" | "ValueError" (incl. subclasses, e.g. JSONDecodeError) | "Exception" (exactly) | class name
"""
import contextlib, copy, datetime, hashlib, io, json, os, shutil, struct, tempfile
import numpy as np

FIELDS = ["T1", "T2", "p", "rout", "p_int", "t_int", "tm", "dt"]
VECS = ["T1", "T2", "p", "rout", "tm"]
TABLES = ["p_int", "t_int"]
TXT = {f: f + ".txt" for f in FIELDS}
TEXT_FILES = [TXT[f] for f in ["T1", "T2", "p", "rout", "p_int", "t_int", "tm", "dt"]] + ["metadata.json"]
JSON_FILE = "device_parameters.json"
ALL_FILES = TEXT_FILES + [JSON_FILE]
NAN = "7ff8000000000000"


def tok(x):
    x = float(x)
    if x != x:
        return NAN
    return struct.pack(">d", x).hex()


def untok(t):
    return struct.unpack(">d", bytes.fromhex(t))[0]


def canon_arr(a):
    a = np.asarray(a)
    if a.dtype != np.float64:
        return {"dtype": str(a.dtype), "shape": list(a.shape)}
    return {"shape": [int(s) for s in a.shape], "data": [tok(x) for x in a.ravel().tolist()]}


def arr_of(spec):
    return np.array([untok(t) for t in spec["data"]], dtype=float).reshape(spec["shape"])


def nested_tok(v):
    if isinstance(v, list):
        return [nested_tok(x) for x in v]
    return tok(v)


def nested_untok(v):
    if isinstance(v, list):
        return [nested_untok(x) for x in v]
    return untok(v)


def _ser(o):                                   # the rule of default_serializer, restated (not imported)
    if isinstance(o, np.ndarray):
        return o.tolist()
    return str(o)


def json_native(o):
    if isinstance(o, dict):
        return all(isinstance(k, str) and json_native(v) for k, v in o.items())
    if isinstance(o, list):
        return all(json_native(v) for v in o)
    return o is None or isinstance(o, (str, bool, int, float)) and not isinstance(o, (np.generic,))


def md_tok(md):
    s = json.dumps(md, default=_ser)
    return ("" if json_native(md) else "raw:") + hashlib.sha1(s.encode()).hexdigest()[:12]


SPECIAL_MD = {
    "datetime_complex": lambda: {"version": "20260926", "when": datetime.datetime(2021, 3, 4, 5, 6, 7), "z": 1 + 2j,
                                 "tuple": (1, 2.5, "x"), "nested": {"arr": np.array([[1.5, 2.5]]), 7: "int key"}},
    "tuple_top": lambda: (1, "a", None),
    "np_scalar": lambda: {"f32": np.float32(1.5), "i64": np.int64(3)},
}


def materialise_md(src):
    """metadata object from its recipe (kept as a recipe so that a replay file is self-contained)"""
    if src is None:
        return None
    if "json" in src:
        return copy.deepcopy(src["json"])
    if "special" in src:
        return SPECIAL_MD[src["special"]]()
    if "backend" in src:
        return backend_params(src["backend"], src["layout"])["metadata"]
    raise ValueError(src)


_BACKENDS = {}


def backend_params(name, layout):
    """`load_from_backend` on a bundled fake backend; returns the attribute dict (lists / arrays as the code leaves them)"""
    from qiskit_ibm_runtime import fake_provider
    from quantum_gates._utility.device_parameters import DeviceParameters
    if name not in _BACKENDS:
        _BACKENDS[name] = getattr(fake_provider, name)()
    dp = DeviceParameters(list(layout))
    with contextlib.redirect_stdout(io.StringIO()):
        dp.load_from_backend(_BACKENDS[name])
    out = {f: getattr(dp, f) for f in FIELDS}
    out["metadata"] = dp.metadata
    return out


def exc_name(e):
    if e is None:
        return None
    if isinstance(e, FileNotFoundError):
        return "FileNotFoundError"
    if isinstance(e, ValueError):
        return "ValueError"
    if type(e) is Exception:
        return "Exception"
    return type(e).__name__


def in_domain(obj):
    """the objects C15 quantifies over (evaluated on the real object; independent of the model):
    complete, float64 data, vectors of length L = len(layout) >= 1, two square tables of one side m >= 1
    (m >= 2 unless L == 1, which is what pairwise different labels give), dt of length 1"""
    try:
        if not obj.is_complete():
            return False
        L = obj.nr_of_qubits
        if L < 1:
            return False
        a = {f: np.asarray(getattr(obj, f)) for f in FIELDS}
        if any(v.dtype != np.float64 for v in a.values()):
            return False
        if any(a[f].shape != (L,) for f in VECS) or a["dt"].shape != (1,):
            return False
        m = a["p_int"].shape[0] if a["p_int"].ndim == 2 else -1
        if m < 1 or a["p_int"].shape != (m, m) or a["t_int"].shape != (m, m):
            return False
        return L == 1 or m >= 2
    except Exception:                                   # noqa
        return False


def clone(obj):
    """independent copy of a DeviceParameters (the class overrides `__dict__` with a method, so copy.deepcopy fails on it)"""
    c = type(obj)(list(obj.qubits_layout))
    for n in FIELDS + ["metadata"]:
        setattr(c, n, copy.deepcopy(getattr(obj, n)))
    return c


class RealWorld:
    """executes actions on the real code; `self.fails` collects oracle failures"""

    def __init__(self):
        self.root = tempfile.mkdtemp(prefix="c15_")
        self.objs, self.order, self.saved, self.fails = {}, [], {}, []
        self.step = -1

    def close(self):
        shutil.rmtree(self.root, ignore_errors=True)

    def path(self, loc, role="other"):
        d = os.path.join(self.root, loc)
        os.makedirs(d, exist_ok=True)
        # the same directory under several spellings (x/A, x/./A, x/A/../A, x//A): a location is a place on disk, not a string.
        # Loads always use the plain spelling, saves rotate through the others - so a load follows saves made under other names
        self._spell = getattr(self, "_spell", 0) + 1
        k = 0 if role == "load" else (1 + self._spell % 3 if role == "save" else self._spell % 4)
        d = [d, os.path.join(self.root, ".", loc), os.path.join(self.root, loc, "..", loc), self.root + os.sep + os.sep + loc][k]
        # locations whose name starts with "pre" are used WITHOUT a trailing slash (file-name prefix `x_`)
        return os.path.join(d, "x_") if loc.startswith("pre") else d + os.sep

    def fail(self, kind, fmt, obj, fields, detail):
        self.fails.append({"kind": kind, "fmt": fmt, "one_qubit": bool(obj.nr_of_qubits == 1), "fields": sorted(fields),
                           "detail": detail, "at": self.step})

    # ---- actions ------------------------------------------------------------------------------------------------
    def run(self, actions):
        outs = []
        for i, act in enumerate(actions):
            self.step = i
            outs.append(getattr(self, "do_" + act["a"])(act))
        return outs

    def do_new(self, act):
        from quantum_gates._utility.device_parameters import DeviceParameters
        layout = act.get("layout") or list(range(act["nq"]))
        self.objs[act["id"]] = DeviceParameters(list(layout))
        if act["id"] not in self.order:
            self.order.append(act["id"])
        return None

    def do_set(self, act):
        obj = self.objs[act["id"]]
        as_list = set(act.get("as_list") or [])
        for name, spec in act["fields"]:
            if spec is None:
                setattr(obj, name, None)
            else:
                v = arr_of(spec)
                setattr(obj, name, v.tolist() if name in as_list else v)
        if "md" in act:
            obj.metadata = materialise_md(act.get("md_src")) if act["md"] is not None else None
        return None

    def do_save(self, act):
        obj, fmt, loc = self.objs[act["id"]], act["fmt"], act["loc"]
        p = self.path(loc, "save")
        exc = None
        try:
            with contextlib.redirect_stdout(io.StringIO()):
                (obj.save_to_texts if fmt == "texts" else obj.save_to_json)(p)
        except Exception as e:                              # noqa
            exc = e
        self.saved.pop((loc, fmt), None)
        if exc is None:
            self.saved[(loc, fmt)] = {"obj": clone(obj), "valid": in_domain(obj), "L": obj.nr_of_qubits}
        if in_domain(obj) and exc is not None:
            self.fail("save_raises", fmt, obj, [], f"save of an object of the property's domain raised {type(exc).__name__}: {exc}")
        return exc_name(exc)

    def do_load(self, act):
        obj, fmt, loc = self.objs[act["id"]], act["fmt"], act["loc"]
        p = self.path(loc, "load")
        before = {n: getattr(obj, n) for n in FIELDS + ["metadata"]}
        had_md = obj.metadata is not None
        required = TEXT_FILES if fmt == "texts" else [JSON_FILE]
        missing = [f for f in required if not os.path.exists(p + f)]
        snap = self.saved.get((loc, fmt))
        exc = None
        try:
            with contextlib.redirect_stdout(io.StringIO()):
                (obj.load_from_texts if fmt == "texts" else obj.load_from_json)(p)
        except Exception as e:                              # noqa
            exc = e
        # ---- the oracle: the statement of C15 on the real objects --------------------------------------------------
        if missing:
            changed = [n for n in before if getattr(obj, n) is not before[n]]
            if not isinstance(exc, FileNotFoundError):
                self.fail("missing_file", fmt, obj, [], f"files {missing} are missing but load raised "
                          f"{type(exc).__name__ if exc else 'nothing'} instead of FileNotFoundError")
            elif changed:
                self.fail("missing_file", fmt, obj, changed, f"FileNotFoundError was raised after attributes {changed} had been assigned")
        elif snap is not None and snap["valid"] and obj.nr_of_qubits == snap["L"]:
            orig = snap["obj"]
            if exc is not None:
                self.fail("roundtrip", fmt, obj, [], f"load of a saved object raised {type(exc).__name__}: {exc}")
            else:
                bad_shape, bad_bytes = [], []
                for f in FIELDS:
                    a, b = np.asarray(getattr(orig, f)), np.asarray(getattr(obj, f))
                    if a.shape != b.shape:
                        bad_shape.append(f)
                    elif canon_arr(a) != canon_arr(b):
                        bad_bytes.append(f)
                try:
                    eq = bool(obj == orig)
                except Exception as e:                      # noqa
                    eq = f"== raised {type(e).__name__}"
                if bad_shape:
                    d = ", ".join(f"{f}: {np.asarray(getattr(orig, f)).shape} -> {np.asarray(getattr(obj, f)).shape}" for f in bad_shape)
                    self.fail("roundtrip_shape", fmt, obj, bad_shape, f"shapes changed ({d}); loaded == original is {eq}")
                elif bad_bytes:
                    self.fail("roundtrip_values", fmt, obj, bad_bytes, f"values are not bit-identical in {bad_bytes}; loaded == original is {eq}")
                elif eq is not True:
                    self.fail("roundtrip_eq", fmt, obj, [], f"arrays are identical but loaded == original is {eq}")
                elif not obj.is_complete():
                    self.fail("roundtrip", fmt, obj, [], "loaded object does not report itself complete")
        if exc is not None and not had_md and obj.is_complete():
            self.fail("partial_complete", fmt, obj, [], f"load raised {type(exc).__name__} but the object reports itself complete")
        return exc_name(exc)

    def _invalidate(self, loc, names):
        if any(n in TEXT_FILES for n in names):
            self.saved.pop((loc, "texts"), None)
        if JSON_FILE in names:
            self.saved.pop((loc, "json"), None)

    def do_delete(self, act):
        p = self.path(act["loc"])
        for n in act["names"]:
            if os.path.exists(p + n):
                os.remove(p + n)
        self._invalidate(act["loc"], act["names"])
        return None

    def do_write_txt(self, act):
        p = self.path(act["loc"])
        with open(p + act["name"], "w") as f:
            for line in act["lines"]:
                f.write(" ".join("%.18e" % untok(t) for t in line) + "\n")
        self._invalidate(act["loc"], [act["name"]])
        return None

    def do_write_doc(self, act):
        p = self.path(act["loc"])
        d = {k: nested_untok(v) for k, v in act["fields"]}
        if act["md"] is not None:
            d["metadata"] = materialise_md(act.get("md_src"))
        with open(p + JSON_FILE, "w") as f:
            json.dump(d, f)
        self._invalidate(act["loc"], [JSON_FILE])
        return None

    def do_write_meta(self, act):
        p = self.path(act["loc"])
        with open(p + "metadata.json", "w") as f:
            json.dump(materialise_md(act.get("md_src")), f)
        self._invalidate(act["loc"], ["metadata.json"])
        return None

    def do_eq(self, act):
        return bool(self.objs[act["x"]] == self.objs[act["y"]])

    # ---- dump ---------------------------------------------------------------------------------------------------------
    def dump_objects(self):
        out = []
        for i in self.order:
            o = self.objs[i]
            out.append({"id": i, "nq": o.nr_of_qubits, "complete": bool(o.is_complete()),
                        "fields": [[f, None if getattr(o, f) is None else canon_arr(getattr(o, f))] for f in FIELDS],
                        "md": None if o.metadata is None else md_tok(o.metadata)})
        return out

    def dump_file(self, p, name):
        if not os.path.exists(p + name):
            return None
        text = open(p + name).read()
        if name in (JSON_FILE, "metadata.json"):
            try:
                d = json.loads(text)
            except ValueError:                              # the harness wrote a table of numbers there (malformed stream)
                d = None
            if d is not None and name == JSON_FILE:
                return {"doc": {"fields": [[k, nested_tok(v)] for k, v in d.items() if k != "metadata"],
                                "md": md_tok(d["metadata"]) if "metadata" in d else None}}
            if d is not None:
                return {"meta": md_tok(d)}
        try:
            return {"txt": [[tok(float(t)) for t in line.split()] for line in text.split("\n")[:-1]]}
        except ValueError:                                  # neither JSON nor a table of numbers (e.g. a truncated JSON document)
            return {"unparseable": text[:120]}

    def dump_files(self, locs):
        return [[l, [[n, self.dump_file(self.path(l), n)] for n in ALL_FILES]] for l in locs]


MODEL_KEYS = {"a", "id", "nq", "fields", "md", "fmt", "loc", "names", "name", "lines", "x", "y"}


def model_request(session):
    return {"op": "session", "locs": session["locs"],
            "actions": [{k: v for k, v in a.items() if k in MODEL_KEYS} for a in session["actions"]]}


def run_real(session):
    """-> (canonical answer in the driver's format, oracle failures)"""
    w = RealWorld()
    try:
        outs = w.run(session["actions"])
        ans = {"ok": {"outcomes": outs, "objects": w.dump_objects(), "files": w.dump_files(session["locs"])}}
        return ans, w.fails
    finally:
        w.close()
