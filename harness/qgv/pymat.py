"""Matrix-aware symbolic execution on top of pyexpr.SymExec, used by the factories translator (C04-C07, C10).

Additional values:
  Mat(rows)                       literal matrix of scalar IR (from np.array([[...]])), element-wise scalar ops
  ("matmul", A, B) ("kron", A, B) ("expm", A) ("smul", s, A) ("madd", A, B)   structured matrix expressions
  ("gate", k)                     opaque result of the k-th constituent factory call (composite gates)
  SampleArr(k)                    result of the k-th np.random.multivariate_normal(...) call; [0, j] -> ("sample", name)
Additional scalar IR nodes:
  ("sample", name)                a Gaussian sample
  ("integ", key, theta, a)        self.integrator.integrate(key, theta, a)

Recorded side tables (the per-gate *draw script* and hand-off table):
  draws  : list of {"kind": "normal", "name", "mean", "std"} | {"kind": "mvn", "names", "mean", "cov"} in call order
  calls  : list of {"attr": <self attribute>, "method": "construct", "args": [scalar IR ...]} in call order
  asserts: source text of assert statements met
"""
import ast
from fractions import Fraction
from qgv.pyexpr import SymExec, Unsupported, Vec, num, is_num


class Mat:
    def __init__(self, rows):
        self.rows = rows
        self.n, self.m = len(rows), len(rows[0])
        if any(len(r) != self.m for r in rows):
            raise Unsupported("ragged matrix literal")

    def map(self, f):
        return Mat([[f(x) for x in r] for r in self.rows])

    def zip(self, other, f):
        if (self.n, self.m) != (other.n, other.m):
            raise Unsupported("matrix shapes differ")
        return Mat([[f(x, y) for x, y in zip(r, s)] for r, s in zip(self.rows, other.rows)])


class SampleArr:
    def __init__(self, names):
        self.names = names


def is_matlike(v):
    return isinstance(v, Mat) or (isinstance(v, tuple) and v and v[0] in ("matmul", "kron", "expm", "smul", "madd", "gate", "mvar"))


class Recorder:
    def __init__(self):
        self.draws, self.calls, self.asserts = [], [], []
        self.nsamples = 0

    def fresh(self, hint):
        self.nsamples += 1
        return f"{hint}"


class MatExec(SymExec):
    """Symbolically executes a method of a factory class. `cls_node` is the ast.ClassDef (for self.<method> inlining)."""

    def __init__(self, params, cls_node, rec=None, depth=0):
        super().__init__(params)
        self.cls_node, self.rec, self.depth = cls_node, rec or Recorder(), depth
        self.closures = {}
        self.params = set(params)
        self.sample_alias = {}

    def spawn(self):
        sub = MatExec({}, self.cls_node, self.rec, self.depth)
        sub.closures = self.closures
        sub.hint = self.hint
        return sub

    # ---- scalar / matrix arithmetic
    def binop(self, name, a, b):
        am, bm = is_matlike(a), is_matlike(b)
        if not am and not bm:
            return self.lift(lambda x, y: (name, x, y), a, b)
        if name == "mul":
            if am and bm:
                raise Unsupported("element-wise product of two matrices")
            s, M = (b, a) if am else (a, b)
            if isinstance(M, Mat):
                return M.map(lambda x: ("mul", s, x) if bm else ("mul", x, s))
            return ("smul", s, M)
        if name == "div" and am and not bm:
            if isinstance(a, Mat):
                return a.map(lambda x: ("div", x, b))
            return ("smul", ("div", num(1), b), a)
        if name in ("add", "sub") and am and bm:
            if isinstance(a, Mat) and isinstance(b, Mat):
                return a.zip(b, lambda x, y: (name, x, y))
            if name == "sub":
                b = self.neg(b)
            return ("madd", a, b)
        raise Unsupported(f"matrix operation {name}")

    def neg(self, a):
        if isinstance(a, Mat):
            return a.map(lambda x: ("neg", x))
        if is_matlike(a):
            return ("smul", ("neg", num(1)), a)
        return self.lift(lambda x: ("neg", x), a)

    def ev(self, node):
        if isinstance(node, ast.BinOp) and not isinstance(node.op, (ast.Pow,)):
            a, b = self.ev(node.left), self.ev(node.right)
            t = type(node.op)
            if t is ast.MatMult:
                return ("matmul", a, b)
            name = {ast.Add: "add", ast.Sub: "sub", ast.Mult: "mul", ast.Div: "div"}.get(t)
            if name is None:
                raise Unsupported(f"binary op {t.__name__}")
            return self.binop(name, a, b)
        if isinstance(node, ast.UnaryOp) and isinstance(node.op, ast.USub):
            return self.neg(self.ev(node.operand))
        if isinstance(node, ast.Subscript):
            base = self.ev(node.value)
            if isinstance(base, SampleArr):
                sl = node.slice
                if isinstance(sl, ast.Tuple) and len(sl.elts) == 2:
                    i, j = self.ev(sl.elts[0]), self.ev(sl.elts[1])
                    if is_num(i, 0) and is_num(j) and j[1].denominator == 1 and 0 <= int(j[1]) < len(base.names):
                        return ("sample", base.names[int(j[1])])
                raise Unsupported("sample array indexing")
        if isinstance(node, ast.Attribute) and isinstance(node.value, ast.Name) and node.value.id == "self" \
                and node.attr in self.self_scalars:
            return ("var", node.attr)
        if isinstance(node, ast.List):
            return [self.ev(x) for x in node.elts]
        if isinstance(node, ast.Constant) and isinstance(node.value, str):
            return ("str", node.value)
        if isinstance(node, ast.Call):
            f = ast.unparse(node.func)
            if f == "np.array" and len(node.args) == 1:
                v = self.ev(node.args[0])
                if isinstance(v, list) and v and all(isinstance(r, list) for r in v):
                    return Mat(v)
                if isinstance(v, list):
                    return v                              # 1-D array (mean vectors)
                raise Unsupported("np.array argument")
            if f == "np.kron" and len(node.args) == 2:
                return ("kron", self.ev(node.args[0]), self.ev(node.args[1]))
            if f in ("scipy.linalg.expm", "expm") and len(node.args) == 1:
                return ("expm", self.ev(node.args[0]))
            if f == "np.eye" and len(node.args) == 1:
                n = self.ev(node.args[0])
                if is_num(n) and n[1].denominator == 1:
                    k = int(n[1])
                    return Mat([[num(1 if i == j else 0) for j in range(k)] for i in range(k)])
            if f == "np.random.normal" and len(node.args) == 2 and not node.keywords:
                mean, std = self.ev(node.args[0]), self.ev(node.args[1])
                name = self.pending_target or self.rec.fresh("W")
                name = self.unique(name)
                self.rec.draws.append({"kind": "normal", "name": name, "mean": mean, "std": std})
                return ("sample", name)
            if f == "np.random.multivariate_normal" and len(node.args) == 3 and not node.keywords:
                mean, cov, size = self.ev(node.args[0]), self.ev(node.args[1]), self.ev(node.args[2])
                if not is_num(size, 1):
                    raise Unsupported("multivariate_normal size != 1")
                if isinstance(cov, Mat):
                    cov = cov.rows
                if not (isinstance(cov, list) and all(isinstance(r, list) for r in cov)):
                    raise Unsupported("covariance is not a nested list")
                k = len(cov)
                base = self.unique(self.pending_target or "S")
                names = [f"{base}_{j}" for j in range(k)]
                self.rec.draws.append({"kind": "mvn", "names": names, "mean": mean, "cov": cov})
                return SampleArr(names)
            if f.startswith("np.random.") or f.startswith("random.") or "default_rng" in f or f.startswith("time.") \
                    or f.startswith("os.urandom"):
                raise Unsupported(f"unmodelled entropy source {f}")
            if f == "self.integrator.integrate" and len(node.args) == 3:
                key, th, a = (self.ev(x) for x in node.args)
                if not (isinstance(key, tuple) and key[0] == "str"):
                    raise Unsupported("integrand key is not a string literal")
                return ("integ", key[1], th, a)
            if isinstance(node.func, ast.Attribute) and isinstance(node.func.value, ast.Name) \
                    and node.func.value.id == "self" and not node.keywords:
                if self.record_self_calls:
                    args = [self.ev(x) for x in node.args]
                    self.rec.calls.append({"attr": None, "method": node.func.attr, "args": args,
                                           "target": self.pending_target, "src": ast.unparse(node)})
                    return ("gate", len(self.rec.calls) - 1)
                return self.inline_method(node.func.attr, [self.ev(x) for x in node.args])
            if isinstance(node.func, ast.Attribute) and isinstance(node.func.value, ast.Attribute) \
                    and isinstance(node.func.value.value, ast.Name) and node.func.value.value.id == "self" \
                    and not node.keywords:
                attr, meth = node.func.value.attr, node.func.attr
                args = [self.ev(x) for x in node.args]
                self.rec.calls.append({"attr": attr, "method": meth, "args": args,
                                       "target": self.pending_target, "src": ast.unparse(node)})
                return ("gate", len(self.rec.calls) - 1)
            if isinstance(node.func, ast.Name) and node.func.id in self.closures and not node.keywords:
                fn = self.closures[node.func.id]
                sub = MatExec({}, self.cls_node, self.rec, self.depth + 1)
                sub.env = dict(self.env)                 # late binding: the closure sees the current values
                sub.closures = self.closures
                for p, x in zip([a.arg for a in fn.args.args], [self.ev(x) for x in node.args]):
                    sub.env[p] = x
                sub.pending_target = None
                r = sub.run(fn.body)
                if r is None:
                    raise Unsupported("closure without return")
                return r
        return super().ev(node)

    pending_target = None
    record_self_calls = False
    self_scalars = ()

    def unique(self, name):
        used = {d.get("name") for d in self.rec.draws} | {n.rsplit("_", 1)[0] for d in self.rec.draws for n in d.get("names", [])}
        if name not in used:
            return name
        k = 2
        while f"{name}{k}" in used:
            k += 1
        return f"{name}{k}"

    def inline_method(self, name, args):
        if self.depth > 4:
            raise Unsupported("method inlining too deep")
        fn = [n for n in self.cls_node.body if isinstance(n, ast.FunctionDef) and n.name == name]
        if not fn:
            raise Unsupported(f"self.{name} not found")
        fn = fn[0]
        params = [a.arg for a in fn.args.args][1:]
        if len(params) != len(args):
            raise Unsupported(f"arity of self.{name}")
        sub = MatExec({}, self.cls_node, self.rec, self.depth + 1)
        sub.env = dict(zip(params, args))
        sub.hint = self.pending_target
        r = sub.run(fn.body)
        if r is None:
            raise Unsupported(f"self.{name} returns nothing")
        return r

    hint = None
    named = None          # list of (name, kind, value) when let-abstraction is on (top-level executor only)

    def name_value(self, name, val):
        """let-abstraction: the value assigned to a top-level name becomes a named definition"""
        if isinstance(val, tuple) and val and val[0] == "sample":
            if val[1] not in self.sample_alias:
                self.sample_alias[val[1]] = name
            return val
        if isinstance(val, tuple) and val and val[0] in ("var", "mvar", "num", "gate", "str"):
            return val
        used = {n for n, _, _ in self.named}
        nm, k = name, 1
        while nm in used or (nm in self.params and k == 1 and nm == name):
            nm = f"{name}_{k}"; k += 1
        if isinstance(val, Mat) or is_matlike(val):
            self.named.append((nm, "matrix", val))
            return ("mvar", nm)
        if isinstance(val, tuple):
            self.named.append((nm, "scalar", val))
            return ("var", nm)
        return val

    def run(self, stmts):
        for st in stmts:
            if self.ret is not None:
                raise Unsupported("code after return")
            if isinstance(st, ast.FunctionDef):
                self.closures[st.name] = st
                continue
            if isinstance(st, ast.Assert):
                self.rec.asserts.append(ast.unparse(st.test))
                continue
            if isinstance(st, ast.If) and self.named is not None:
                before = dict(self.env)
                super().run([st])
                for k, v in list(self.env.items()):
                    if before.get(k) is not v and isinstance(v, tuple) and not is_matlike(v):
                        self.env[k] = self.name_value(k, v)
                continue
            if isinstance(st, ast.Assign) and len(st.targets) == 1:
                t = st.targets[0]
                self.pending_target = (self.hint + "." if self.hint else "") + (t.id if isinstance(t, ast.Name) else "") \
                    if isinstance(t, ast.Name) else (self.hint if self.hint else None)
                if isinstance(t, ast.Tuple):
                    self.pending_target = "+".join(x.id for x in t.elts if isinstance(x, ast.Name))
                try:
                    val = self.ev(st.value)
                finally:
                    self.pending_target = None
                if self.named is not None:
                    if isinstance(t, ast.Name):
                        val = self.name_value(t.id, val)
                    elif isinstance(t, ast.Tuple) and isinstance(val, (list, tuple)) and len(val) == len(t.elts):
                        val = [self.name_value(x.id, v) if isinstance(x, ast.Name) else v for x, v in zip(t.elts, val)]
                self.assign(t, val)
                continue
            super().run([st])
        return self.ret


# ------------------------------------------------------------------------------------ serialisation
def to_json(v):
    if isinstance(v, Mat):
        return {"mat": [[to_json(x) for x in r] for r in v.rows]}
    if isinstance(v, Fraction):
        return {"q": [v.numerator, v.denominator]}
    if isinstance(v, (list, tuple)):
        return [to_json(x) for x in v]
    if isinstance(v, dict):
        return {k: to_json(x) for k, x in v.items()}
    if isinstance(v, (Vec, SampleArr)):
        raise Unsupported("cannot serialise vector/sample array")
    return v
