"""Harness side of the wiring model (C03, C08, C11): recording gate set, tagged device parameters, circuit builders,
observation of the real pipeline, canonicalisation shared with lean/QG/Driver/C08.lean."""
import contextlib, io, math, copy
import numpy as np

UNIT = math.pi / 128          # phase unit of the model
DT = 1e-3                     # tagged sample time: delay duration d -> d * DT < 1


# ------------------------------------------------------------------------------------ tagged device parameters
def tagged_params(maxlabel):
    n = maxlabel + 1
    q = np.arange(n, dtype=float)
    pint = np.array([[100000.0 + 1000 * c + t for t in range(n)] for c in range(n)])
    tint = np.array([[200000.0 + 1000 * c + t for t in range(n)] for c in range(n)])
    return {"T1": 1000.0 + q, "T2": 2000.0 + q, "p": 3000.0 + q, "rout": 4000.0 + q, "tm": 5000.0 + q,
            "p_int": pint, "t_int": tint, "dt": [DT], "metadata": {}}


def decode(v):
    """tagged value -> token string (the spelling of lean/QG/Driver/C08.lean)"""
    v = float(v)
    if 0 <= v < 1:
        d = v / DT
        if abs(d - round(d)) < 1e-9:
            return f"dur[{int(round(d))}]"
    if 1000 <= v < 6000 and v == int(v):
        k, q = divmod(int(v), 1000)
        return f"{['T1', 'T2', 'p', 'rout', 'tm'][k - 1]}[{q}]"
    if 100000 <= v < 300000 and v == int(v):
        base = "p_int" if v < 200000 else "t_int"
        r = int(v) - (100000 if v < 200000 else 200000)
        return f"{base}[{r // 1000}][{r % 1000}]"
    return f"?{v!r}"


def value_of(tok, dp):
    """the number a parameter token stands for in the device-parameter mapping dp"""
    import re
    m = re.fullmatch(r"(\w+)\[(\d+)\](?:\[(\d+)\])?", tok)
    name, i, j = m.group(1), int(m.group(2)), m.group(3)
    if name == "dur":
        return float(i * dp["dt"][0])
    return float(dp[name][i][int(j)]) if j is not None else float(dp[name][i])


def numeric_params_with_zeros(rng, maxlabel):
    """device parameters with arbitrary real values in which entries are exactly 0.0 with probability 1/3 (an error probability or a
    duration of exactly zero is a valid calibration value, and direction-dependent tables routinely hold zeros)"""
    n = maxlabel + 1
    def val(lo, hi):
        return 0.0 if rng.random() < 1 / 3 else rng.uniform(lo, hi)
    return {"T1": np.array([val(1e-5, 3e-4) for _ in range(n)]), "T2": np.array([val(1e-5, 3e-4) for _ in range(n)]),
            "p": np.array([val(1e-5, 1e-2) for _ in range(n)]), "rout": np.array([val(1e-3, 0.1) for _ in range(n)]),
            "tm": np.array([val(1e-7, 5e-6) for _ in range(n)]),
            "p_int": np.array([[val(1e-3, 5e-2) for _ in range(n)] for _ in range(n)]),
            "t_int": np.array([[val(1e-7, 9e-7) for _ in range(n)] for _ in range(n)]), "dt": [2.2e-10], "metadata": {}}


def units(ph):
    u = ph / UNIT
    if abs(u - round(u)) > 1e-6:
        return f"?{ph!r}"
    return int(round(u))


# ------------------------------------------------------------------------------------ recording gate set
class RecGates:
    """records every gate-set call; returns token matrices (tok k = (k + 0.5) * identity). The record lives on the class,
    so deep copies of the instance (one per shot) share it."""
    calls = []
    raw = []
    PHASES = {"X": 1, "SX": 1, "CNOT": 2, "CNOT_inv": 2, "ECR": 2, "ECR_inv": 2, "relaxation": 0, "bitflip": 0, "depolarizing": 0}

    @classmethod
    def clear(cls):
        cls.calls = []
        cls.raw = []

    def _rec(self, method, dim, args):
        k = len(RecGates.calls)
        np_ = RecGates.PHASES[method]
        RecGates.calls.append({"m": method, "ph": [units(a) for a in args[:np_]], "pars": [decode(a) for a in args[np_:]]})
        RecGates.raw.append([float(a) for a in args[np_:]])        # the numbers themselves (same index as calls)
        return (k + 0.5) * np.eye(dim, dtype=complex)     # a scaled identity: decodable, and the state stays non-zero

    def X(self, *a): return self._rec("X", 2, a)
    def SX(self, *a): return self._rec("SX", 2, a)
    def CNOT(self, *a): return self._rec("CNOT", 4, a)
    def CNOT_inv(self, *a): return self._rec("CNOT_inv", 4, a)
    def ECR(self, *a): return self._rec("ECR", 4, a)
    def ECR_inv(self, *a): return self._rec("ECR_inv", 4, a)
    def relaxation(self, *a): return self._rec("relaxation", 2, a)
    def bitflip(self, *a): return self._rec("bitflip", 2, a)
    def depolarizing(self, *a): return self._rec("depolarizing", 2, a)


def entry(x):
    if isinstance(x, np.ndarray):
        if x.shape in ((2, 2), (4, 4)) and abs(x[0, 0].real % 1 - 0.5) < 1e-9 and np.array_equal(x, x[0, 0] * np.eye(x.shape[0])):
            return int(x[0, 0].real - 0.5)
        if x.shape == (2, 2) and np.array_equal(x, np.eye(2)):
            return "I"
        return f"?array{x.shape}"
    if isinstance(x, (int, np.integer)) and x == 1:
        return "1"
    return f"?{x!r}"


def state_of(circ):
    """canonical snapshot of a real circuit object (same shape as the driver's answers)"""
    name = type(circ).__name__
    phi = [units(p) for p in circ.phi]
    if hasattr(circ, "_info_gates_list"):
        items = []
        for g, qs in circ._info_gates_list:
            qs = list(qs)
            items.append([entry(g), int(qs[0]), int(qs[1]) if len(qs) > 1 else -1])
        return {"kind": "binary", "phi": phi, "items": items}
    if hasattr(circ, "_mp_list"):
        return {"kind": "layered", "s": circ._s, "phi": phi, "mp": [entry(x) for x in circ._mp],
                "mp_list": [[entry(x) for x in layer] for layer in circ._mp_list]}
    return {"kind": "grid", "j": circ.j, "s": circ.s, "phi": phi,
            "grid": [[entry(x) for x in row] for row in np.array(circ.circuit, dtype=object).tolist()] if False else
                    [[entry(x) for x in row] for row in circ.circuit]}


# ------------------------------------------------------------------------------------ circuits
def build_qiskit(ops, nlabels, nclbits):
    from qiskit import QuantumCircuit
    qc = QuantumCircuit(nlabels, max(nclbits, 1))
    for op in ops:
        k = op[0]
        if k == "rz":
            qc.rz(op[2] * UNIT, op[1])
        elif k == "sx":
            qc.sx(op[1])
        elif k == "x":
            qc.x(op[1])
        elif k == "cx":
            qc.cx(op[1], op[2])
        elif k == "ecr":
            qc.ecr(op[1], op[2])
        elif k == "delay":
            qc.delay(op[2], op[1], unit="dt")
        elif k == "barrier":
            qc.barrier(*op[1])
        elif k == "measure":
            qc.measure(op[1], op[2])
        else:
            raise KeyError(k)
    return qc


def circuit_class(cls):
    import quantum_gates._simulation.circuit as C
    return {"binary": C.BinaryCircuit, "grid": C.Circuit, "standard": C.StandardCircuit, "efficient": C.EfficientCircuit,
            "one": C.OneCircuit}[cls]


def model_cls(cls):
    return {"binary": "binary", "grid": "grid"}.get(cls, "layered")


def observe_run(cls, ops, nqubit, gates=None, psi0=None, device_param=None, shots=1, want_result=False):
    """run the REAL simulator on the circuit; intercept the single shot to snapshot the built circuit object.
    returns dict(layout, measured, depth, calls, state) or dict(err=...) [+ result]"""
    import quantum_gates._simulation.simulator as S
    labels = [q for op in ops for q in (op[1] if op[0] == "barrier" else [x for x in op[1:3] if op[0] in ("cx", "ecr")] or [op[1]])]
    nlabels = max(labels) + 1 if labels else 1
    ncl = max([op[2] for op in ops if op[0] == "measure"], default=0) + 1
    qc = build_qiskit(ops, nlabels, ncl)
    RecGates.clear()
    gates = gates if gates is not None else RecGates()
    dp = device_param if device_param is not None else tagged_params(nlabels - 1)
    sim = S.MrAndersonSimulator(gates=gates, CircuitClass=circuit_class(cls), parallel=False)
    snap = {}
    orig = S._single_shot

    def shot(args):
        circ = args["circ"]
        S._apply_gates_on_circuit(args["data"], circ, args["device_param"], args["qubit_layout"])
        snap["state"] = state_of(circ)
        snap["layout"] = [int(x) for x in args["qubit_layout"]]
        snap["depth"] = getattr(circ, "depth", None)
        snap["nqubit"] = circ.nqubit
        if want_result:
            psi = circ.statevector(args["psi0"])
            return np.square(np.absolute(psi))
        return np.ones(2 ** circ.nqubit) / 2 ** circ.nqubit
    orig_apply = S._apply_gates_on_circuit

    def apply(data, circ, dpar, lay):
        first = len(RecGates.calls)
        orig_apply(data, circ, dpar, lay)
        shot_snap = {"state": state_of(circ), "layout": [int(x) for x in lay], "depth": getattr(circ, "depth", None),
                     "nqubit": circ.nqubit, "calls": list(RecGates.calls[first:]), "first_call": first,
                     "raw": list(RecGates.raw[first:])}
        snap.setdefault("shots", []).append(shot_snap)
        if "state" not in snap:                 # the first shot is the one compared with the model
            snap.update({k: shot_snap[k] for k in ("state", "layout", "depth", "nqubit")})
    # the REAL _single_shot runs in both modes (it looks _apply_gates_on_circuit up at call time); only snapshots are taken
    S._apply_gates_on_circuit = apply
    try:
        with contextlib.redirect_stdout(io.StringIO()):
            psi = psi0 if psi0 is not None else np.eye(1, 2 ** nqubit)[0].astype(complex)
            res = sim.run(t_qiskit_circ=qc, qubits_layout=list(range(nlabels)), psi0=psi, shots=shots, device_param=dp, nqubit=nqubit)
    except Exception as e:                      # noqa
        return {"err": type(e).__name__, "msg": str(e)[:200]}
    finally:
        S._single_shot = orig
        S._apply_gates_on_circuit = orig_apply
    out = dict(snap)
    out["calls"] = list(snap["shots"][0]["calls"]) if snap.get("shots") else list(RecGates.calls)
    out["raw"] = list(snap["shots"][0]["raw"]) if snap.get("shots") else list(RecGates.raw)
    out["result"] = res
    return out


def model_request(cls, ops, nqubit):
    return {"op": "run", "cls": model_cls(cls), "nqubit": nqubit, "ops": ops}


def compare_run(real, model, cls):
    """list of differences between the observed real pipeline and the model's answer"""
    if "err" in real or "err" in model:
        return [] if real.get("err") == model.get("err") else [f"outcome: impl {real.get('err', 'ok')} vs model {model.get('err', 'ok')}"]
    diff = []
    if real["layout"] != model["layout"]:
        diff.append(f"layout {real['layout']} vs model {model['layout']}")
    if model_cls(cls) == "grid" and real["depth"] != model["depth"]:
        diff.append(f"depth {real['depth']} vs model {model['depth']}")
    ms = model["state"]
    if real["calls"] != ms["calls"]:
        k = next((i for i, (a, b) in enumerate(zip(real["calls"], ms["calls"])) if a != b), min(len(real["calls"]), len(ms["calls"])))
        diff.append(f"gate-set call {k}: impl {real['calls'][k] if k < len(real['calls']) else None} vs model "
                    f"{ms['calls'][k] if k < len(ms['calls']) else None}")
    rs = real["state"]
    for key in rs:
        if key in ms and rs[key] != ms[key]:
            diff.append(f"circuit object field {key}: impl {str(rs[key])[:120]} vs model {str(ms[key])[:120]}")
    diff += later_shots(real)
    return diff


def shift_tokens(x, off):
    if isinstance(x, list):
        return [shift_tokens(y, off) for y in x]
    return x - off if isinstance(x, int) and not isinstance(x, bool) else x


def later_shots(real):
    """every shot of a run is built like the first one: same gate-set calls (method, phases, parameters) and placements"""
    out = []
    shots = real.get("shots") or []
    for k, sh in enumerate(shots[1:], start=2):
        if sh["calls"] != shots[0]["calls"]:
            j = next((i for i, (a, b) in enumerate(zip(sh["calls"], shots[0]["calls"])) if a != b), min(len(sh["calls"]), len(shots[0]["calls"])))
            out.append(f"shot {k} of the run: gate-set call {j} is {sh['calls'][j] if j < len(sh['calls']) else None}, in the first shot it was "
                       f"{shots[0]['calls'][j] if j < len(shots[0]['calls']) else None}")
            continue
        a, b = sh["state"], shots[0]["state"]
        for key in a:
            va = shift_tokens(a[key], sh["first_call"]) if key in ("items", "mp", "mp_list", "grid") else a[key]
            if key == "items":
                va = [[it[0] - sh["first_call"] if isinstance(it[0], int) else it[0]] + it[1:] for it in a[key]]
            if va != b[key]:
                out.append(f"shot {k} of the run: circuit object field {key} is {str(va)[:100]}, in the first shot {str(b[key])[:100]}")
                break
    return out


# ------------------------------------------------------------------------------------ generators
def random_ops(rng, cls, n, length, measure="some"):
    """native-basis op list; layered classes: labels 0..n-1 all used, adjacent pairs; binary: scattered labels, any pairs"""
    if cls == "binary":
        # contiguous, slightly scattered, and widely scattered physical labels (e.g. [1, 8], [3, 17])
        labels = sorted(rng.sample(range(0, n + rng.choice([0, 0, 2, 4, 12, 24])), n))
    else:
        labels = list(range(n))
    order = labels[:]
    rng.shuffle(order)
    ops = []
    first = list(order)           # touch qubits in a random first-touch order
    for _ in range(length):
        r = rng.random()
        q = first.pop() if first and rng.random() < 0.5 else rng.choice(labels)
        if r < 0.25:
            ops.append(["rz", q, rng.randint(-200, 200)])
        elif r < 0.4:
            ops.append(["sx", q])
        elif r < 0.5:
            ops.append(["x", q])
        elif r < 0.8 and n >= 2:
            i = labels.index(q)
            if cls == "binary":
                t = rng.choice([x for x in labels if x != q])
            else:
                t = labels[i + 1] if i + 1 < n and (i == 0 or rng.random() < 0.5) else labels[i - 1]
            ops.append([rng.choice(["cx", "ecr"]), q, t])
        elif r < 0.88:
            ops.append(["delay", q, rng.randint(1, 900)])
        elif r < 0.94:
            k = rng.randint(1, n)
            ops.append(["barrier", sorted(rng.sample(labels, k))])
        else:
            ops.append(["rz", q, rng.choice([64, -64, 128, 32])])
    for q in labels:                                   # every label is used (needed by the layered classes)
        if not any(q in (op[1] if op[0] == "barrier" and len(op[1]) <= 2 else op[1:3] if op[0] in ("cx", "ecr") else [op[1]])
                   for op in ops if op[0] != "delay" and not (op[0] == "barrier" and len(op[1]) > 2)):
            ops.insert(rng.randint(0, len(ops)), ["rz", q, rng.randint(-100, 100)])
    ms = labels[:] if measure == "all" else rng.sample(labels, rng.randint(1, n))
    if measure != "ascending":
        rng.shuffle(ms)
    else:
        ms.sort()
    cl = list(range(len(ms))) if measure in ("all", "ascending") else rng.sample(range(len(ms) + 2), len(ms))
    for q, c in zip(ms, cl):
        ops.append(["measure", q, c])
    return ops, labels
