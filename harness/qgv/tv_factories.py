"""Translation validation of the factories translator: the IR (gen/factories.py) is evaluated by the reference
interpreter and compared with the real `construct` of every factory under *injected* Gaussian samples
(np.random.normal / multivariate_normal are replaced from the outside by functions that return prescribed
values and record the distribution parameters they were asked for)."""
import contextlib, math
import numpy as np
from gen import factories as gf


class Injector:
    def __init__(self, rng):
        self.rng = rng
        self.log = []          # (kind, params) in call order
        self.values = []       # the values handed out, in call order

    def normal(self, mean, std, *a, **k):
        v = self.rng.uniform(-1.5, 1.5)
        self.log.append(("normal", float(mean), float(std))); self.values.append(v)
        return v

    def mvn(self, mean, cov, size=None, *a, **k):
        n = len(mean)
        v = [self.rng.uniform(-1.5, 1.5) for _ in range(n)]
        self.log.append(("mvn", [float(x) for x in mean], np.array(cov, dtype=float).tolist())); self.values.append(v)
        return np.array([v])


@contextlib.contextmanager
def injected(inj):
    o1, o2 = np.random.normal, np.random.multivariate_normal
    np.random.normal, np.random.multivariate_normal = inj.normal, inj.mvn
    try:
        yield
    finally:
        np.random.normal, np.random.multivariate_normal = o1, o2


def make_factory(cname, integrator):
    import quantum_gates._gates.factories as F
    cls = getattr(F, cname)
    try:
        return cls(integrator)
    except TypeError:
        return cls()


def compare(ir, cname, args, integrator, rng):
    """returns (ok, detail). Runs the real construct and the IR on the same injected samples."""
    inj = Injector(rng)
    fac = make_factory(cname, integrator)
    with injected(inj), np.errstate(all="ignore"):
        real = np.array(fac.construct(*args), dtype=complex)
    k = [0]
    mism = []

    def draw_source(d, interp):
        i = k[0]; k[0] += 1
        if i >= len(inj.log):
            raise gf.pyexpr.Unsupported("IR draws more samples than the implementation")
        kind, *params = inj.log[i]
        if kind != d["kind"]:
            mism.append(f"draw {i}: kind {kind} vs IR {d['kind']}")
        elif kind == "normal":
            m, s = interp.scalar(d["mean"]), interp.scalar(d["std"])
            if not (abs(m - params[0]) <= 1e-12 and abs(s - params[1]) <= 1e-12 * max(1, abs(s)) or (math.isnan(s) and math.isnan(params[1]))):
                mism.append(f"draw {i}: normal({params}) vs IR ({m},{s})")
        else:
            cov = [[interp.scalar(x) for x in r] for r in d["cov"]]
            if not np.allclose(np.array(cov, dtype=float), np.array(params[1]), rtol=1e-12, atol=1e-14, equal_nan=True):
                mism.append(f"draw {i}: covariance differs")
        return inj.values[i]

    integ = lambda key, th, a: integrator.integrate(key, th, a)
    with np.errstate(all="ignore"):
        val = gf.evaluate(ir, cname, list(args), draw_source, integ)
    if k[0] != len(inj.log):
        mism.append(f"implementation drew {len(inj.log)} times, IR {k[0]}")
    if real.shape != val.shape or not np.allclose(real, val, rtol=1e-11, atol=1e-12, equal_nan=True):
        mism.append(f"matrices differ by {np.max(np.abs(real - val)) if real.shape == val.shape else 'shape'}")
    return (not mism), mism, real


def random_args(cname, params, rng, zero_noise=False, asym=True):
    """physically sensible random arguments by parameter name"""
    tg = 35e-9
    out = []
    for p in params:
        if p in ("theta",):
            v = rng.choice([rng.uniform(-7, 7), math.pi, -math.pi / 2, rng.uniform(-1e-3, 1e-3), math.pi / 4, 0.0])   # 0.0: the zero set of the theta denominators
        elif p.startswith("phi"):
            v = rng.uniform(-7, 7)
        elif p in ("p", "p_single_ctr", "p_single_trg", "rout"):
            v = 0.0 if zero_noise else rng.choice([rng.uniform(1e-5, 2e-3), rng.uniform(0.0, 0.05)])
        elif p in ("p_cnot", "p_ecr", "p_cr"):
            v = 0.0 if zero_noise else rng.uniform(0.03, 0.12)
        elif p.startswith("T1"):
            v = 0.0 if zero_noise else rng.choice([rng.uniform(20e-6, 300e-6), rng.uniform(2e-6, 10e-6)])
        elif p.startswith("T2"):
            v = 0.0 if zero_noise else None         # filled below from T1
        elif p in ("t_cnot", "t_ecr"):
            v = rng.uniform(6, 20) * tg
        elif p == "t_cr":
            v = rng.uniform(0.3, 8) * tg
        elif p in ("Dt", "tm"):
            v = rng.uniform(0.2, 40) * tg
        else:
            raise KeyError(p)
        out.append(v)
    for i, p in enumerate(params):
        if p.startswith("T2") and out[i] is None:
            t1 = out[params.index("T1" + p[2:])]
            out[i] = rng.choice([2 * t1, rng.uniform(0.2, 2.0) * t1, t1])
    return out
