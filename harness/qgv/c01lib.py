"""Helpers of the C01 check: case generation, runners for the real backends, plan capture, the two oracles.

A *case* is a dict {"n", "min", "opt", "mats": [np.ndarray (int-valued complex)], "layers": [[k | -1, ...], ...], "psi": np.ndarray}
where a layer entry k >= 0 is mats[k] and -1 is the scalar placeholder (the Python int 1, as the circuit classes emit it:
circuit.py stores the two-qubit matrix at the control's position and `1` at the target's).
"""
import functools as ft
import numpy as np

ID2 = np.eye(2)                      # the object the circuit classes / tests use for an idle qubit

# ------------------------------------------------------------------------------------------------ matrices
UNITS = [0, 1, -1, 1j, -1j]


def rand_m(rng, d, rich=False):
    """small Gaussian-integer dxd matrix, not the identity, rows with <= 2 non-zero entries (keeps products tiny)"""
    if rng.random() < 0.12:
        # diagonal, every diagonal entry non-zero, trace exactly d - and not the identity (diag(1+i, 1-i), diag(3, -1), ...):
        # nothing that merely LOOKS like the identity through its trace / sparsity pattern may be treated as one
        pairs = [(1 + 1j, 1 - 1j), (3, -1), (2 + 1j, -1j), (1 + 2j, 1 - 2j)]
        diag = []
        for _ in range(d // 2):
            a, b = rng.choice(pairs)
            diag += [a, b] if rng.random() < 0.5 else [b, a]
        return np.diag(np.array(diag, dtype=complex))
    while True:
        M = np.zeros((d, d), dtype=complex)
        for r in range(d):
            for c in rng.sample(range(d), rng.choice([1, 2]) if d == 2 else rng.choice([1, 2, 2])):
                M[r, c] = rng.choice(UNITS[1:]) if not rich else rng.choice([1, -1, 1j, -1j, 1 + 1j, 2, -1 - 1j])
        if not np.array_equal(M, np.eye(d)) and np.any(M):
            return M


def growth(case):
    """upper bound of the absolute value of every real/imaginary component met while propagating (sum of moduli)"""
    b = float(np.max(np.abs(case["psi"].real) + np.abs(case["psi"].imag))) if len(case["psi"]) else 1.0
    for l in case["layers"]:
        for k in l:
            if k >= 0:
                M = case["mats"][k]
                b *= float(np.max(np.sum(np.abs(M.real) + np.abs(M.imag), axis=1)))
    return b


# ------------------------------------------------------------------------------------------------ layer shapes
def all_shapes(n):
    """every well-formed layer shape on n qubits as a list of entry codes 0 = placeholder, 2 = 2x2, 4 = 4x4"""
    if n == 0:
        return [[]]
    out = [[2] + s for s in all_shapes(n - 1)]
    if n >= 2:
        out += [[4, 0] + s for s in all_shapes(n - 2)] + [[0, 4] + s for s in all_shapes(n - 2)]
    return out


def rand_shape(rng, n, p4=0.3):
    s = []
    while len(s) < n:
        if n - len(s) >= 2 and rng.random() < p4:
            s += rng.choice([[4, 0], [0, 4]])
        else:
            s.append(2)
    return s


def is_wf(codes, n):
    """independent re-statement of Layer.WF on entry codes (1 = identity 2x2, 2 = other 2x2)"""
    i, m = 0, len(codes)
    while i < m:
        c = codes[i]
        if c in (1, 2):
            i += 1
        elif c == 4 and i + 1 < m and codes[i + 1] == 0:
            i += 2
        elif c == 0 and i + 1 < m and codes[i + 1] == 4:
            i += 2
        else:
            return False
    return m == n


def build_case(rng, n, shapes, id_prob=0.3, mn=3, op=4, rich=False, psi_kind="rand", id_variant=None):
    """shapes: list (one per layer) of code lists; a 2 becomes the identity with probability id_prob"""
    mats, layers = [], []
    pool2 = [rand_m(rng, 2, rich) for _ in range(3)]
    pool4 = [rand_m(rng, 4, rich) for _ in range(2)]
    ident = len(mats); mats.append(ID2)
    base = len(mats); mats += pool2
    base4 = len(mats); mats += pool4
    for s in shapes:
        l = []
        for c in s:
            if c == 0:
                l.append(-1)
            elif c == 4:
                l.append(base4 + rng.randrange(len(pool4)))
            elif c == 1 or (c == 2 and rng.random() < id_prob):
                l.append(ident)
            else:
                l.append(base + rng.randrange(len(pool2)))
        layers.append(l)
    N = 2 ** n
    if psi_kind == "basis":
        psi = np.zeros(N, dtype=complex); psi[rng.randrange(N)] = 1
    else:
        psi = np.array([rng.choice([0, 0, 1, -1, 1j, 2, -1j]) for _ in range(N)], dtype=complex)
        if not np.any(psi):
            psi[rng.randrange(N)] = 1
    return {"n": n, "min": mn, "opt": op, "mats": mats, "layers": layers, "psi": psi}


def py_layers(case, id_variant=None):
    """the nested list handed to the real backends.  id_variant: None = the shared np.eye(2) object, "copy" = a fresh
    float copy per occurrence, "complex" = a fresh complex-dtype identity per occurrence"""
    out = []
    for l in case["layers"]:
        row = []
        for k in l:
            if k < 0:
                row.append(1)
                continue
            M = case["mats"][k]
            if id_variant and M.shape == (2, 2) and np.array_equal(M, ID2):
                M = np.eye(2) if id_variant == "copy" else np.array([[1, 0], [0, 1]], dtype=complex)
            row.append(M)
        out.append(row)
    return out


def codes_of(case, li):
    out = []
    for k in case["layers"][li]:
        if k < 0:
            out.append(0)
        else:
            M = case["mats"][k]
            out.append(4 if M.shape[0] == 4 else (1 if np.array_equal(M, ID2) else 2))
    return out


def items_of(case):
    """the layers as the item list of the index-based backend: [[M, [q]], [G, [q, q+1]], ...] layer after layer"""
    items = []
    for l in py_layers(case):
        q = 0
        while q < len(l):
            e = l[q]
            if isinstance(e, np.ndarray) and e.shape == (2, 2):
                items.append([e, [q]]); q += 1
            elif isinstance(e, np.ndarray):                       # 4x4, placeholder after it
                items.append([e, [q, q + 1]]); q += 2
            else:                                                 # placeholder first, then the 4x4
                items.append([l[q + 1], [q, q + 1]]); q += 2
    return items


# ------------------------------------------------------------------------------------------------ oracles
def kron_def(A, B):
    """Kronecker product by its index definition K[(i,k),(j,l)] = A[i,j] B[k,l] (no np.kron)"""
    a, b = A.shape[0], B.shape[0]
    return (A[:, None, :, None] * B[None, :, None, :]).reshape(a * b, a * b)


def oracle_explicit(case):
    """(kron of last layer) ... (kron of first layer) psi with explicit 2^n x 2^n matrices (n <= 10)"""
    psi = case["psi"].astype(complex)
    for l in case["layers"]:
        K = np.ones((1, 1), dtype=complex)
        for k in l:
            if k >= 0:
                K = kron_def(K, case["mats"][k].astype(complex))
        psi = K @ psi
    return psi


def oracle_factor(case):
    """factor by factor on the [2]*n tensor, first entry of a layer = most significant qubit = axis 0.
    Independent of kron, chunking and einsum; exact on integer data."""
    n = case["n"]
    T = case["psi"].astype(complex).reshape([2] * n) if n else case["psi"].astype(complex)
    for l in case["layers"]:
        q = 0
        for pos, k in enumerate(l):
            if k < 0:
                continue
            M = case["mats"][k].astype(complex)
            if M.shape[0] == 2:
                T = np.moveaxis(np.tensordot(M, T, axes=([1], [q])), 0, q); q += 1
            else:
                T = np.moveaxis(np.tensordot(M.reshape(2, 2, 2, 2), T, axes=([2, 3], [q, q + 1])), [0, 1], [q, q + 1]); q += 2
    return T.reshape(-1)


# ------------------------------------------------------------------------------------------------ real code
def backend_module():
    import quantum_gates._simulation.backend as B
    return B


class GridAdapter:
    """`Circuit.statevector` (legacy fixed-depth class) as a layer-based backend: layer j becomes column j of the grid"""
    def __init__(self, n):
        self.n = n

    def statevector(self, layers, psi):
        from quantum_gates._simulation.circuit import Circuit
        c = Circuit(self.n, len(layers), gates=None)
        for j, l in enumerate(layers):
            if len(l) != self.n:
                raise ValueError("a column needs one entry per row")
            for i, e in enumerate(l):
                c.circuit[i][j] = e
        return c.statevector(psi)


def make_backend(name, n, mn, op):
    if name == "grid":
        return GridAdapter(n)
    B = backend_module()
    if name == "standard":
        return B.StandardBackend(n)
    if name == "efficient":
        return B.EfficientBackend(n, min_chunk_size=mn, optimal_chunk_size=op)
    if name == "ones":
        return B.BackendForOnes(n)
    if name == "binary":
        return B.BinaryBackend(n)
    raise KeyError(name)


def canon_vec(v):
    """canonical form of a returned value: exact integer components, numeric kind"""
    if not isinstance(v, np.ndarray):
        return {"other": type(v).__name__}
    if v.ndim != 1:
        return {"err": "returns-eye-matrix"} if v.ndim == 2 else {"other": f"ndim{v.ndim}"}
    kind = "num" if v.dtype.kind in "fciu" else ("object" if v.dtype.kind == "O" else v.dtype.kind)
    w = np.asarray(v.astype(complex))
    re, im = w.real, w.imag
    if not (np.all(re == np.round(re)) and np.all(im == np.round(im))):
        return {"other": "non-integer"}
    flat = []
    for a, b in zip(re.tolist(), im.tolist()):
        flat += [int(a), int(b)]
    return {"ok": flat, "kind": kind}


def run_layers(name, case, layers=None, psi=None):
    """real backend on a case → (canonical result, raw value, input-unmodified flag)"""
    layers = py_layers(case) if layers is None else layers
    psi = case["psi"].copy() if psi is None else psi
    before = psi.tobytes()
    try:
        be = make_backend(name, case["n"], case["min"], case["opt"])
        out = be.statevector(layers, psi)
    except Exception as e:                      # noqa
        return {"err": type(e).__name__, "msg": str(e)[:120]}, None, psi.tobytes() == before
    return canon_vec(out), out, psi.tobytes() == before


def reuse_sequence(rng, name, n, mn=3, op=4):
    """one backend OBJECT serving several statevector() calls: (1) a layer list, (2) the same list after two of its matrix
    objects were updated in place (a non-identity becomes the exact identity, an identity becomes a non-identity),
    (3) several calls with freshly allocated, immediately discarded matrices.  Every call must return the layered
    Kronecker product of the values it is given at that moment (oracle_factor).  Returns None or a failure text."""
    import copy
    shapes = [rand_shape(rng, n), rand_shape(rng, n)]
    case = build_case(rng, n, shapes, id_prob=0.4, mn=mn, op=op)
    case["mats"] = [np.array(M, dtype=complex) for M in case["mats"]]          # private objects (the shared ID2 stays untouched)
    be = make_backend(name, n, mn, op)
    layers = py_layers(case)

    def call(tag):
        want = oracle_factor(case)
        try:
            got = be.statevector(layers, case["psi"].copy())
        except Exception as e:                  # noqa
            return f"{tag}: raised {type(e).__name__}: {str(e)[:100]}"
        got = np.asarray(got)
        if got.shape != want.shape or not np.allclose(got.astype(complex), want, rtol=0, atol=1e-9):
            return f"{tag}: the returned vector differs from the layered Kronecker product by {np.max(np.abs(got.astype(complex) - want)):.3e}"
        return None
    bad = call("first call")
    if bad:
        return bad, case
    used2 = sorted({k for l in case["layers"] for k in l if k >= 0 and case["mats"][k].shape == (2, 2)})
    ids = [k for k in used2 if np.array_equal(case["mats"][k], ID2)]
    non = [k for k in used2 if not np.array_equal(case["mats"][k], ID2)]
    if non:
        case["mats"][non[0]][:, :] = ID2                                       # in place: now exactly the identity
    if ids:
        case["mats"][ids[0]][:, :] = rand_m(rng, 2)                            # in place: no longer the identity
    bad = call("second call on the same backend object after two matrix objects were updated in place")
    if bad:
        return bad, case
    for shot in range(6):
        case2 = build_case(rng, n, [rand_shape(rng, n)], id_prob=0.5, mn=mn, op=op)
        case2["mats"] = [np.array(M, dtype=complex) for M in case2["mats"]]
        case, layers = case2, py_layers(case2)
        bad = call(f"call {shot + 3} on the same backend object with freshly allocated matrices")
        if bad:
            return bad, case
        del case2
    return None, None


def large_value_followup(seed, name, n, mn, op, codes):
    """failing-input search after a plan-level disagreement: the real backend on ONE layer of shape `codes` (pairwise
    different small-integer matrices, sparse integer psi) against the factor-by-factor oracle; feasible up to n ~ 23.
    Returns None or a failure text."""
    import random
    rng = random.Random(seed)
    mats, layer = [np.array(ID2, dtype=complex)], []
    for c in codes:
        if c == 0:
            layer.append(-1)
        elif c == 1:
            layer.append(0)
        else:
            mats.append(np.array(rand_m(rng, 4 if c == 4 else 2), dtype=complex)); layer.append(len(mats) - 1)
    psi = np.zeros(2 ** n, dtype=complex)
    for _ in range(8):
        psi[rng.randrange(2 ** n)] = rng.choice([1, -1, 1j, 2])
    case = {"n": n, "min": mn, "opt": op, "mats": mats, "layers": [layer], "psi": psi}
    want = oracle_factor(case)
    try:
        got = np.asarray(make_backend(name, n, mn, op).statevector(py_layers(case), psi.copy())).astype(complex)
    except Exception as e:                      # noqa
        return f"raised {type(e).__name__}: {str(e)[:100]}"
    if got.shape != want.shape:
        return f"returned shape {got.shape}"
    scale = max(1.0, float(np.max(np.abs(want))))
    err = float(np.max(np.abs(got - want)))
    if err > 1e-9 * scale:
        return f"the returned vector differs from the layered Kronecker product by {err:.3e} (largest component {scale:.3e})"
    return None


class PassThroughOptimizer:
    """stand-in for circ_optimizer.Optimizer that returns the list unchanged: separates the backend's own operator
    construction (C01, backend.py) from the optimizer's fusion (C02)"""
    def __init__(self, level_opt, circ_list, qubit_list):
        self.l = circ_list

    def optimize(self):
        return self.l


def run_binary(case, optimize=True):
    B = backend_module()
    psi = case["psi"].copy()
    before = psi.tobytes()
    old = B.Optimizer
    try:
        if not optimize:
            B.Optimizer = PassThroughOptimizer
        out = B.BinaryBackend(case["n"]).statevector(items_of(case), psi)
    except Exception as e:                      # noqa
        return {"err": type(e).__name__, "msg": str(e)[:120]}, None, psi.tobytes() == before
    finally:
        B.Optimizer = old
    return canon_vec(np.asarray(out)), out, psi.tobytes() == before


# ------------------------------------------------------------------------------------------------ plans
def plan_matrices(rng, codes):
    """distinct tiny int16 matrices per position (so a Kronecker product identifies its ordered factor list);
    code 1 = exact identity"""
    out = []
    for c in codes:
        if c == 0:
            out.append(1)
        elif c == 1:
            out.append(np.eye(2, dtype=np.int16))
        else:
            d = 2 if c == 2 else 4
            while True:
                M = np.array([[rng.choice([-1, 1, 2, 0]) for _ in range(d)] for _ in range(d)], dtype=np.int16)
                if np.any(M) and not np.array_equal(M, np.eye(d)):
                    break
            out.append(M)
    return out


def impl_plan(name, n, mn, op, layer_py):
    """run ONE layer through the real backend with `opt_einsum.contract` (the module attribute `oe.contract` that
    backend.py calls) replaced by a recorder, on an all-zero int8 statevector: no 2^n arithmetic happens"""
    B = backend_module()
    calls = []

    def rec(cs, *ops):
        calls.append((cs, ops))
        return ops[-1]

    old = B.oe.contract
    B.oe.contract = rec
    try:
        be = make_backend(name, n, mn, op)
        psi = np.zeros(2 ** n, dtype=np.int8)
        out = be.statevector([layer_py], psi)
    except Exception as e:                      # noqa
        return {"err": type(e).__name__}, None
    finally:
        B.oe.contract = old
    if not calls:
        if name == "ones" and n > 6:
            return {"ok": {"kind": "skip"}}, None
        return {"ok": {"kind": "dense", "dim": int(out.shape[0])}}, None
    cs, ops = calls[0]
    if len(calls) != 1 or any(o.ndim != 2 or o.shape[0] != o.shape[1] for o in ops[:-1]):
        return {"other": "unexpected contract calls"}, None
    return {"ok": {"kind": "einsum", "cs": cs, "dims": [int(o.shape[0]) for o in ops[:-1]],
                   "shape": [int(x) for x in ops[-1].shape]}}, list(ops[:-1])


def operands_match(layer_py, factors, operands):
    """every recorded operand is the Kronecker product of exactly the layer entries the model names, in that order"""
    if len(factors) != len(operands):
        return False
    for f, o in zip(factors, operands):
        want = ft.reduce(np.kron, [layer_py[t] for t in f]) if f else np.ones((1, 1))
        if want.shape != o.shape or not np.array_equal(want, o):
            return False
    return True


def real_chunk_list(k, mn, op):
    B = backend_module()
    try:
        return {"ok": [list(c) for c in B.EfficientBackend(8)._chunk_list(list(range(k)), mn, op)]}
    except Exception as e:                      # noqa
        return {"err": type(e).__name__}


# ------------------------------------------------------------------------------------------------ JSON for the model
def flat_ints(M):
    out = []
    for z in np.asarray(M, dtype=complex).reshape(-1).tolist():
        out += [int(z.real), int(z.imag)]
    return out


def value_request(name, case):
    return {"op": "value", "backend": name, "n": case["n"], "min": case["min"], "opt": case["opt"],
            "mats": [[int(M.shape[0]), flat_ints(M)] for M in case["mats"]],
            "layers": case["layers"], "psi": flat_ints(case["psi"])}


def case_to_json(case):
    return {"n": case["n"], "min": case["min"], "opt": case["opt"],
            "mats": [[int(M.shape[0]), flat_ints(M)] for M in case["mats"]],
            "layers": case["layers"], "psi": flat_ints(case["psi"])}


def case_from_json(j):
    def cm(d, f):
        a = np.array([complex(f[2 * i], f[2 * i + 1]) for i in range(len(f) // 2)], dtype=complex)
        return a.reshape(d, d)
    mats = []
    for d, f in j["mats"]:
        M = cm(d, f)
        mats.append(ID2 if (d == 2 and np.array_equal(M, ID2)) else M)
    f = j["psi"]
    psi = np.array([complex(f[2 * i], f[2 * i + 1]) for i in range(len(f) // 2)], dtype=complex)
    return {"n": j["n"], "min": j["min"], "opt": j["opt"], "mats": mats, "layers": j["layers"], "psi": psi}
