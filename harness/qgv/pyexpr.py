"""Translator core: restricted Python (source text, via `ast`) -> expression IR -> Lean text / numeric value.

The translator never imports the repository.  It symbolically executes the body of one function:
straight-line assignments, `+ - * / **`, unary minus, numpy scalar functions, element-wise
operations on declared vector parameters, `np.array([[...]])` matrix literals, `@`, `np.kron`,
accumulating `for i in range(N): acc = acc + term(i)` loops and `if/else` on scalar conditions.
Anything else raises `Unsupported` (the check then fails closed: a broken tie, never a silent pass).

IR nodes are tuples:
  ("num", Fraction)  ("I",)  ("pi",)  ("var", name)
  ("neg", a) ("add", a, b) ("sub", a, b) ("mul", a, b) ("div", a, b) ("pow", a, int)
  ("fn", name, a)                      name in sqrt sin cos exp abs
  ("idx", vecname, i)                  element of a vector parameter
  ("sum", ivar, N, body)               sum over ivar in range(N)
  ("ite", cond, a, b)  ("cmp", op, a, b)
  ("mat", rows)  ("matmul", A, B)  ("kron", A, B)  ("expm", A)   (rows: list of lists of scalar IR)
"""
import ast, cmath, math
from fractions import Fraction


class Unsupported(Exception):
    pass


class Vec:
    """element-wise vector value: index IR -> scalar IR"""
    def __init__(self, f):
        self.f = f

    def at(self, i):
        return self.f(i)


def num(x):
    return ("num", Fraction(x))


def is_num(e, v=None):
    return e[0] == "num" and (v is None or e[1] == v)


def mentions(e, name):
    if not isinstance(e, tuple):
        return False
    if e[0] == "var":
        return e[1] == name
    if e[0] == "mat":
        return any(mentions(x, name) for r in e[1] for x in r)
    return any(mentions(x, name) for x in e[1:] if isinstance(x, tuple))


SCALAR_FUNCS = {"np.sqrt": "sqrt", "np.sin": "sin", "np.cos": "cos", "np.exp": "exp", "np.abs": "abs",
                "math.sqrt": "sqrt", "math.sin": "sin", "math.cos": "cos", "math.exp": "exp", "abs": "abs"}


class SymExec:
    def __init__(self, params, call_hook=None, attr_hook=None):
        """params: name -> 'scalar' | 'vec' | 'nat' | IR value"""
        self.env = {}
        for k, v in params.items():
            if v in ("scalar", "nat"):
                self.env[k] = ("var", k)
            elif v == "vec":
                self.env[k] = Vec(lambda i, k=k: ("idx", k, i))
            else:
                self.env[k] = v
        self.call_hook, self.attr_hook = call_hook, attr_hook
        self.ret = None

    def spawn(self):
        """a fresh executor of the same kind (subclasses override) for loop bodies and branches"""
        return SymExec({}, self.call_hook, self.attr_hook)

    # ---------------------------------------------------------------- expressions
    def lift(self, op, *args):
        if any(isinstance(a, Vec) for a in args):
            return Vec(lambda i: op(*[a.at(i) if isinstance(a, Vec) else a for a in args]))
        return op(*args)

    def ev(self, node):
        if isinstance(node, ast.Constant):
            v = node.value
            if isinstance(v, bool):
                raise Unsupported("bool constant")
            if isinstance(v, int):
                return num(v)
            if isinstance(v, float):
                return num(Fraction(repr(v)))          # decimal literal read as written
            if isinstance(v, complex):
                if v.real != 0:
                    raise Unsupported("complex literal with real part")
                return ("mul", num(Fraction(repr(v.imag))), ("I",)) if v.imag != 1 else ("I",)
            raise Unsupported(f"constant {v!r}")
        if isinstance(node, ast.Name):
            if node.id not in self.env:
                raise Unsupported(f"unknown name {node.id}")
            return self.env[node.id]
        if isinstance(node, ast.Attribute):
            s = ast.unparse(node)
            if s in ("np.pi", "math.pi"):
                return ("pi",)
            if self.attr_hook:
                r = self.attr_hook(self, node)
                if r is not None:
                    return r
            raise Unsupported(f"attribute {s}")
        if isinstance(node, ast.UnaryOp):
            a = self.ev(node.operand)
            if isinstance(node.op, ast.USub):
                return self.lift(lambda x: ("neg", x), a)
            if isinstance(node.op, ast.UAdd):
                return a
            raise Unsupported("unary op")
        if isinstance(node, ast.BinOp):
            a, b = self.ev(node.left), self.ev(node.right)
            t = type(node.op)
            if t is ast.MatMult:
                return ("matmul", a, b)
            if t is ast.Pow:
                if isinstance(b, tuple) and b[0] == "num" and b[1].denominator == 1:
                    return self.lift(lambda x: ("pow", x, int(b[1])), a)
                if isinstance(b, tuple) and a[0] == "num" and a[1].denominator == 1:
                    return ("npow", a, b)               # integer base, symbolic natural exponent (2**n)
                raise Unsupported("power with non-integer exponent")
            name = {ast.Add: "add", ast.Sub: "sub", ast.Mult: "mul", ast.Div: "div"}.get(t)
            if name is None:
                raise Unsupported(f"binary op {t.__name__}")
            return self.lift(lambda x, y: (name, x, y), a, b)
        if isinstance(node, ast.Subscript):
            base = self.ev(node.value)
            if isinstance(base, Vec):
                return base.at(self.ev(node.slice))
            if isinstance(base, (list, tuple)) and not (base and isinstance(base[0], str)):
                i = self.ev(node.slice)
                if is_num(i) and i[1].denominator == 1:
                    return base[int(i[1])]
            raise Unsupported("subscript of a non-vector")
        if isinstance(node, ast.Compare) and len(node.ops) == 1:
            op = {ast.Eq: "==", ast.NotEq: "!=", ast.Lt: "<", ast.LtE: "<=", ast.Gt: ">", ast.GtE: ">="}.get(type(node.ops[0]))
            if op is None:
                raise Unsupported("comparison")
            return ("cmp", op, self.ev(node.left), self.ev(node.comparators[0]))
        if isinstance(node, ast.IfExp):
            return ("ite", self.ev(node.test), self.ev(node.body), self.ev(node.orelse))
        if isinstance(node, ast.Call):
            f = ast.unparse(node.func)
            if f in SCALAR_FUNCS and len(node.args) == 1 and not node.keywords:
                a = self.ev(node.args[0])
                return self.lift(lambda x: ("fn", SCALAR_FUNCS[f], x), a)
            if f == "np.array" and len(node.args) == 1 and isinstance(node.args[0], ast.List):
                rows = node.args[0].elts
                if not all(isinstance(r, ast.List) for r in rows):
                    raise Unsupported("np.array of a non-nested list")
                return ("mat", [[self.ev(x) for x in r.elts] for r in rows])
            if f == "np.kron" and len(node.args) == 2:
                return ("kron", self.ev(node.args[0]), self.ev(node.args[1]))
            if f in ("scipy.linalg.expm", "expm") and len(node.args) == 1:
                return ("expm", self.ev(node.args[0]))
            if self.call_hook:
                r = self.call_hook(self, node, f)
                if r is not None:
                    return r
            raise Unsupported(f"call {f}")
        if isinstance(node, ast.Tuple):
            return [self.ev(x) for x in node.elts]
        raise Unsupported(type(node).__name__)

    # ---------------------------------------------------------------- statements
    def assign(self, target, val):
        if isinstance(target, ast.Name):
            self.env[target.id] = val
        elif isinstance(target, ast.Tuple) and isinstance(val, (list, tuple)) and len(val) == len(target.elts):
            for t, v in zip(target.elts, val):
                self.assign(t, v)
        else:
            raise Unsupported("assignment target " + ast.unparse(target))

    def run(self, stmts):
        for st in stmts:
            if self.ret is not None:
                raise Unsupported("code after return")
            if isinstance(st, ast.Expr) and isinstance(st.value, ast.Constant) and isinstance(st.value.value, str):
                continue                                  # docstring
            if isinstance(st, ast.Assign) and len(st.targets) == 1:
                self.assign(st.targets[0], self.ev(st.value))
            elif isinstance(st, ast.AugAssign) and isinstance(st.target, ast.Name):
                op = {ast.Add: "add", ast.Sub: "sub", ast.Mult: "mul", ast.Div: "div"}.get(type(st.op))
                if op is None:
                    raise Unsupported("augmented assignment")
                self.env[st.target.id] = self.lift(lambda x, y: (op, x, y), self.env[st.target.id], self.ev(st.value))
            elif isinstance(st, ast.Return):
                self.ret = self.ev(st.value)
            elif isinstance(st, ast.For):
                self.run_for(st)
            elif isinstance(st, ast.If):
                self.run_if(st)
            elif isinstance(st, ast.Pass):
                continue
            else:
                raise Unsupported("statement " + type(st).__name__)
        return self.ret

    def run_for(self, st):
        if st.orelse or not isinstance(st.target, ast.Name):
            raise Unsupported("for loop shape")
        it = st.iter
        if not (isinstance(it, ast.Call) and ast.unparse(it.func) == "range" and len(it.args) == 1):
            raise Unsupported("for loop not over range(N)")
        n = self.ev(it.args[0])
        ivar = st.target.id
        before = dict(self.env)
        placeholders = {}
        for k, v in before.items():                       # loop-carried scalars become placeholders
            if isinstance(v, tuple):
                placeholders[k] = ("var", f"__carry_{k}")
        sub = self.spawn()
        sub.env = dict(before)
        sub.env.update(placeholders)
        sub.env[ivar] = ("var", ivar)
        sub.run(st.body)
        if sub.ret is not None:
            raise Unsupported("return inside loop")
        for k, v in sub.env.items():
            if k == ivar:
                continue
            if k not in before:
                raise Unsupported(f"loop defines new variable {k}")
            if v is placeholders.get(k) or v is before.get(k):
                continue
            carry = placeholders.get(k)
            # accept acc = acc + term / term + acc with term free of every carried placeholder
            if isinstance(v, tuple) and v[0] == "add" and carry is not None:
                term = v[2] if v[1] is carry else v[1] if v[2] is carry else None
                if term is not None and not any(mentions(term, p[1]) for p in placeholders.values()):
                    self.env[k] = ("add", before[k], ("sum", ivar, n, term))
                    continue
            raise Unsupported(f"loop-carried variable {k} is not a plain accumulation")

    def run_if(self, st):
        cond = self.ev(st.test)
        a = self.spawn(); a.env = dict(self.env); a.run(st.body)
        b = self.spawn(); b.env = dict(self.env); b.run(st.orelse)
        if (a.ret is None) != (b.ret is None):
            raise Unsupported("return in one branch only")
        if a.ret is not None:
            self.ret = ("ite", cond, a.ret, b.ret)
            return
        for k in set(a.env) | set(b.env):
            va, vb = a.env.get(k), b.env.get(k)
            if va is vb:
                self.env[k] = va
            elif va is None or vb is None:
                self.env.pop(k, None)                     # defined on one path only: unusable afterwards
            elif isinstance(va, tuple) and isinstance(vb, tuple):
                self.env[k] = va if va == vb else ("ite", cond, va, vb)
            else:
                raise Unsupported(f"variable {k} differs structurally between branches")


def find_function(tree, name, cls=None):
    body = tree.body
    if cls:
        c = [n for n in body if isinstance(n, ast.ClassDef) and n.name == cls]
        if not c:
            raise Unsupported(f"class {cls} not found")
        body = c[0].body
    f = [n for n in body if isinstance(n, ast.FunctionDef) and n.name == name]
    if not f:
        raise Unsupported(f"function {name} not found")
    return f[0]


# ------------------------------------------------------------------------------------ printers
def lean_real(e, idx=lambda v, i: f"{v} {i}"):
    """IR -> Lean term of type ℝ (scalars only)"""
    t = e[0]
    P = lambda x: lean_real(x, idx)
    if t == "num":
        f = e[1]
        if f.denominator == 1:
            return f"({f.numerator} : ℝ)" if f >= 0 else f"(-{-f.numerator} : ℝ)"
        return f"(({f.numerator} : ℝ) / {f.denominator})"
    if t == "pi":
        return "Real.pi"
    if t == "var":
        return e[1]
    if t == "neg":
        return f"(-{P(e[1])})"
    if t in ("add", "sub", "mul", "div"):
        return f"({P(e[1])} {dict(add='+', sub='-', mul='*', div='/')[t]} {P(e[2])})"
    if t == "pow":
        if e[2] < 0:
            return f"(({P(e[1])}) ^ {-e[2]})⁻¹"
        return f"({P(e[1])} ^ {e[2]})"
    if t == "fn":
        return f"({dict(sqrt='Real.sqrt', sin='Real.sin', cos='Real.cos', exp='Real.exp', abs='abs')[e[1]]} {P(e[2])})"
    if t == "idx":
        return "(" + idx(e[1], lean_nat(e[2])) + ")"
    if t == "sum":
        return f"(∑ {e[1]} ∈ Finset.range {lean_nat(e[2])}, {P(e[3])})"
    if t == "ite":
        return f"(if {lean_cond(e[1], idx)} then {P(e[2])} else {P(e[3])})"
    raise Unsupported(f"lean_real: {t}")


def lean_cond(c, idx):
    if c[0] != "cmp":
        raise Unsupported("condition")
    op = {"==": "=", "!=": "≠", "<": "<", "<=": "≤", ">": ">", ">=": "≥"}[c[1]]
    return f"{lean_real(c[2], idx)} {op} {lean_real(c[3], idx)}"


def lean_nat(e):
    t = e[0]
    if t == "num" and e[1].denominator == 1 and e[1] >= 0:
        return str(e[1].numerator)
    if t == "var":
        return e[1]
    if t == "npow":
        return f"({lean_nat(e[1])} ^ {lean_nat(e[2])})"
    if t in ("add", "mul"):
        return f"({lean_nat(e[1])} {'+' if t == 'add' else '*'} {lean_nat(e[2])})"
    if t == "sub":
        return f"({lean_nat(e[1])} - {lean_nat(e[2])})"
    raise Unsupported(f"lean_nat: {t}")


def evaluate(e, env):
    """numeric value of a scalar IR under env: name -> number | sequence (vectors) ; complex arithmetic"""
    t = e[0]
    E = lambda x: evaluate(x, env)
    if t == "num":
        return float(e[1]) if e[1].denominator != 1 else int(e[1])
    if t == "I":
        return 1j
    if t == "pi":
        return math.pi
    if t == "var":
        return env[e[1]]
    if t == "neg":
        return -E(e[1])
    if t == "add":
        return E(e[1]) + E(e[2])
    if t == "sub":
        return E(e[1]) - E(e[2])
    if t == "mul":
        return E(e[1]) * E(e[2])
    if t == "div":
        return E(e[1]) / E(e[2])
    if t == "pow":
        return E(e[1]) ** e[2]
    if t == "npow":
        return E(e[1]) ** E(e[2])
    if t == "fn":
        x = E(e[2])
        if e[1] == "abs":
            return abs(x)
        if isinstance(x, complex):
            return getattr(cmath, e[1])(x)
        if e[1] == "sqrt" and x < 0:
            return float("nan")
        return getattr(math, e[1])(x)
    if t == "idx":
        return env[e[1]][int(E(e[2]))]
    if t == "sum":
        n = int(E(e[2]))
        return sum(evaluate(e[3], dict(env, **{e[1]: i})) for i in range(n))
    if t == "ite":
        return E(e[2]) if E(e[1]) else E(e[3])
    if t == "cmp":
        a, b = E(e[2]), E(e[3])
        return {"==": a == b, "!=": a != b, "<": a < b, "<=": a <= b, ">": a > b, ">=": a >= b}[e[1]]
    raise Unsupported(f"evaluate: {t}")
