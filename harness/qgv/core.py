"""Shared machinery of the /verif checks (stdlib only; runs under /venv/bin/python).

A check is a function `main(ctx)` in harness/props/cXX.py.  It
  1. (re)generates Lean sources from /repo where the property has a translator tie,
  2. builds and audits its Lean theorems (`ctx.lean(...)`),
  3. runs the correspondence between the executable Lean model and the real code,
  4. decides: everything checks -> exit 0; a proof obligation / audit / correspondence broke ->
     the property's failing-input search ran on the real code; violation lines are printed by
     `ctx.violation(...)` unless the failing input is listed in /verif/known_findings.json,
  5. writes /verif/evidence/<id>.json.
"""
import argparse, fcntl, hashlib, json, os, random, re, subprocess, sys, time

VERIF = os.path.dirname(os.path.dirname(os.path.dirname(os.path.abspath(__file__))))
REPO = os.environ.get("VERIF_REPO", "/repo")
LEAN = os.path.join(VERIF, "lean")
PY_REPO = "/venv/bin/python"          # interpreter that can import quantum_gates and its dependencies
PY_TOOLS = "python3-vt"               # interpreter with sympy / mpmath (never imports the repo)
ALLOWED_AXIOMS = {"propext", "Classical.choice", "Quot.sound"}
FORBIDDEN = re.compile(r"\b(sorry|admit|native_decide|bv_decide|implemented_by|unsafe)\b|^\s*axiom\s|maxHeartbeats\s+0\b")

TRUSTED_BASE_COMMON = [
    "Lean 4.33.0 kernel (lean/lake as installed); Mathlib v4.33.0 as installed",
    "axioms allowed in #print axioms: propext, Classical.choice, Quot.sound (audited on every run)",
    "theorems are over exact numbers (Nat/Int/Real/Complex or an arbitrary commutative ring), not floats",
]


def repo_env():
    env = dict(os.environ)
    env["PYTHONPATH"] = os.path.join(REPO, "src") + os.pathsep + os.path.join(VERIF, "harness")
    env["PYTHONWARNINGS"] = "ignore"
    env.setdefault("QUANTUM_GATES_VERIF", "1")
    env.setdefault("OMP_NUM_THREADS", "1")
    env.setdefault("OPENBLAS_NUM_THREADS", "1")
    return env


def sha(obj):
    return hashlib.sha256(json.dumps(obj, sort_keys=True, default=str).encode()).hexdigest()[:12]


def strip_comments(src):
    """remove Lean block comments (nested) and line comments"""
    out, i, depth = [], 0, 0
    while i < len(src):
        if src.startswith("/-", i):
            depth += 1; i += 2; continue
        if depth and src.startswith("-/", i):
            depth -= 1; i += 2; continue
        if depth:
            if src[i] == "\n":
                out.append("\n")
            i += 1; continue
        if src.startswith("--", i):
            j = src.find("\n", i)
            i = len(src) if j < 0 else j
            continue
        out.append(src[i]); i += 1
    return "".join(out)


class LeanResult:
    def __init__(self):
        self.obligations = []      # theorem names (fully qualified)
        self.failed = {}           # name -> reason
        self.build_ok = False
        self.log = ""
        self.axioms = {}           # name -> list of axioms
        self.wall = 0.0
        self.cmds = []
        self.broken_files = []

    @property
    def discharged(self):
        return [o for o in self.obligations if o not in self.failed]

    @property
    def ok(self):
        return self.build_ok and not self.failed and bool(self.obligations)


def _module_path(mod):
    return os.path.join(LEAN, *mod.split(".")) + ".lean"


def _closure(mod, seen=None):
    """QG.* modules transitively imported by `mod` (by reading import lines)"""
    seen = seen if seen is not None else []
    if mod in seen:
        return seen
    seen.append(mod)
    p = _module_path(mod)
    if not os.path.exists(p):
        return seen
    for line in open(p, encoding="utf-8"):
        m = re.match(r"\s*import\s+(QG\.[A-Za-z0-9_.]+)", line)
        if m:
            _closure(m.group(1), seen)
    return seen


class LakeLock:
    def __enter__(self):
        os.makedirs(os.path.join(LEAN, ".lake"), exist_ok=True)
        self.f = open(os.path.join(LEAN, ".lake", "verif.lock"), "w")
        fcntl.flock(self.f, fcntl.LOCK_EX)
        return self

    def __exit__(self, *a):
        fcntl.flock(self.f, fcntl.LOCK_UN)
        self.f.close()


def run_cmd(cmd, cwd=None, timeout=3600, env=None, input=None):
    t0 = time.time()
    p = subprocess.run(cmd, cwd=cwd, env=env, input=input, capture_output=True, text=True, timeout=timeout)
    return p.returncode, p.stdout + p.stderr, time.time() - t0


def write_if_changed(path, content):
    os.makedirs(os.path.dirname(path), exist_ok=True)
    if os.path.exists(path) and open(path, encoding="utf-8").read() == content:
        return False
    with open(path, "w", encoding="utf-8") as f:
        f.write(content)
    return True


def theorems_in(mod):
    """fully qualified names of the `theorem`s declared in a Props module (private ones excluded:
    they are helper steps; the property theorems are the public ones)."""
    src = strip_comments(open(_module_path(mod), encoding="utf-8").read())
    ns, names = [], []
    for line in src.splitlines():
        m = re.match(r"\s*namespace\s+([A-Za-z0-9_.]+)", line)
        if m:
            ns.append(m.group(1)); continue
        m = re.match(r"\s*end\s+([A-Za-z0-9_.]+)\s*$", line)
        if m and ns and ns[-1] == m.group(1):
            ns.pop(); continue
        m = re.match(r"\s*(?:@\[[^\]]*\]\s*)?(?:protected\s+)?theorem\s+([^\s:({\[]+)", line)
        if m and not re.match(r"\s*private\b", line):
            names.append(".".join(ns + [m.group(1)]))
    return names


def lean_check(mod, tier="quick", extra_targets=(), leanchecker=None):
    """build `mod` (a QG.Props.* module), audit sources and axioms; never raises"""
    res = LeanResult()
    t0 = time.time()
    mods = _closure(mod)
    # 1. static audit of the sources the theorems depend on
    for m in mods:
        p = _module_path(m)
        if not os.path.exists(p):
            res.failed["<source>"] = f"missing module file {m}"
            continue
        code = strip_comments(open(p, encoding="utf-8").read())
        for ln, line in enumerate(code.splitlines(), 1):
            if FORBIDDEN.search(line):
                res.failed[f"<audit {m}:{ln}>"] = "forbidden construct: " + line.strip()[:80]
    try:
        res.obligations = theorems_in(mod)
    except OSError as e:
        res.failed["<source>"] = str(e)
        res.wall = time.time() - t0
        return res
    with LakeLock():
        cmd = ["lake", "build", mod] + list(extra_targets)
        res.cmds.append("cd lean && " + " ".join(cmd))
        rc, out, _ = run_cmd(cmd, cwd=LEAN, timeout=3000)
        res.log = out
        res.build_ok = rc == 0
        if rc != 0:
            # map errors to theorems of the Props file where possible
            rel = os.path.relpath(_module_path(mod), LEAN)
            src_lines = open(_module_path(mod), encoding="utf-8").read().splitlines()
            hit = False
            for m in re.finditer(r"error: (\S+?\.lean):(\d+):(\d+): (.*)", out):
                f, ln, msg = m.group(1), int(m.group(2)), m.group(4)
                if f.endswith(rel):
                    hit = True
                    name = None
                    for k in range(min(ln, len(src_lines)) - 1, -1, -1):
                        mm = re.match(r"\s*(?:private\s+)?(?:theorem|lemma|example|def|instance)\s*([^\s:({\[]*)", src_lines[k])
                        if mm:
                            name = mm.group(1) or "example"
                            break
                    full = next((o for o in res.obligations if o.split(".")[-1] == name or o.endswith("." + str(name))), None)
                    res.failed[full or f"<{rel}:{ln} {name}>"] = msg[:200]
                else:
                    res.broken_files.append(f)
            if not hit:
                # a dependency (lemma / generated file) is broken: nothing in this module is established
                for o in res.obligations:
                    res.failed[o] = "dependency failed to build: " + ", ".join(sorted(set(res.broken_files)))[:200]
                if not res.obligations:
                    res.failed["<build>"] = "build failed"
        else:
            # 2. axiom audit
            audit_mod = mod.replace(".Props.", ".Audit.")
            body = f"import {mod}\n" + "".join(f"#print axioms {o}\n" for o in res.obligations)
            write_if_changed(_module_path(audit_mod), body)
            cmd = ["lake", "env", "lean", os.path.relpath(_module_path(audit_mod), LEAN)]
            res.cmds.append("cd lean && " + " ".join(cmd))
            rc, out, _ = run_cmd(cmd, cwd=LEAN, timeout=1200)
            res.log += "\n--- audit ---\n" + out
            flat = re.sub(r"\s+", " ", out)
            for o in res.obligations:
                m = re.search(r"'" + re.escape(o) + r"' depends on axioms: \[([^\]]*)\]", flat)
                if m:
                    ax = [a.strip() for a in m.group(1).split(",") if a.strip()]
                elif re.search(r"'" + re.escape(o) + r"' does not depend on any axioms", flat):
                    ax = []
                else:
                    res.failed[o] = "axiom audit: no #print axioms output"
                    continue
                res.axioms[o] = ax
                bad = [a for a in ax if a not in ALLOWED_AXIOMS]
                if bad:
                    res.failed[o] = "axiom audit: depends on " + ", ".join(bad)
            if rc != 0 and not res.failed:
                res.failed["<audit>"] = "audit file failed: " + out[-300:]
            if (leanchecker if leanchecker is not None else tier == "thorough") and not res.failed:
                cmd = ["lake", "env", "leanchecker", mod]
                res.cmds.append("cd lean && " + " ".join(cmd))
                rc, out, _ = run_cmd(cmd, cwd=LEAN, timeout=3000)
                res.log += "\n--- leanchecker ---\n" + out[-2000:]
                if rc != 0:
                    res.failed["<leanchecker>"] = out[-300:]
    res.wall = time.time() - t0
    return res


class Driver:
    """batch interface to the native Lean model driver (line protocol, JSON per line)"""

    def __init__(self, pid):
        self.exe = "drv_" + pid.lower()
        self.path = os.path.join(LEAN, ".lake", "build", "bin", self.exe)
        with LakeLock():                      # no-op when up to date; rebuilds when a model file changed
            rc, out, _ = run_cmd(["lake", "build", self.exe], cwd=LEAN, timeout=3000)
        if rc != 0:
            raise RuntimeError("model driver does not build:\n" + out[-2000:])

    def batch(self, requests, timeout=1800):
        data = "".join(json.dumps(r, separators=(",", ":")) + "\n" for r in requests)
        p = subprocess.run([self.path], input=data, capture_output=True, text=True, timeout=timeout)
        lines = p.stdout.splitlines()
        if p.returncode != 0 or len(lines) != len(requests):
            raise RuntimeError(f"model driver failed rc={p.returncode} answers={len(lines)}/{len(requests)} {p.stderr[-500:]}")
        return [json.loads(l) for l in lines]


def load_known():
    p = os.path.join(VERIF, "known_findings.json")
    if not os.path.exists(p):
        return []
    return json.load(open(p))["findings"]


def matches(known_match, sig):
    return all(sig.get(k) == v for k, v in known_match.items())


class Ctx:
    def __init__(self, pid, argv=None):
        ap = argparse.ArgumentParser()
        ap.add_argument("--tier", default=os.environ.get("VERIF_TIER", "quick"), choices=["quick", "thorough"])
        ap.add_argument("--replay", default=None)
        a = ap.parse_args(argv)
        self.pid, self.tier, self.replay = pid, a.tier, a.replay
        try:
            self.seed = int(os.environ.get("VERIF_SEED", "0"))
        except ValueError:
            self.seed = 0
        self.rng = random.Random(f"{pid}-{self.seed}")
        self.t0 = time.time()
        self.level = "proof"
        self.violations = []        # (sig, replay_path, nofail)
        self.known_hits = []
        self.coverage = {"evaluations": 0, "distinct_nontrivial": 0, "rule": "", "samples": [],
                         "obligations": 0, "discharged": 0, "checker_cmd": "", "trusted_base": list(TRUSTED_BASE_COMMON)}
        self.assumptions = []
        self.lean_results = []
        self.notes = {}
        self.known = load_known()

    @property
    def thorough(self):
        return self.tier == "thorough"

    # ---- Lean side -------------------------------------------------------------------------
    def lean(self, mod, **kw):
        r = lean_check(mod, tier=self.tier, **kw)
        self.lean_results.append((mod, r))
        cov = self.coverage
        cov["obligations"] += len(r.obligations) + len([k for k in r.failed if k.startswith("<")])
        cov["discharged"] += len(r.discharged)
        cov["checker_cmd"] = (cov["checker_cmd"] + " ; " if cov["checker_cmd"] else "") + " && ".join(r.cmds)
        cov.setdefault("theorems", []).extend(
            {"name": o, "axioms": r.axioms.get(o), "status": "failed: " + r.failed[o] if o in r.failed else "checked"}
            for o in r.obligations)
        cov.setdefault("lean_wall_s", 0.0)
        cov["lean_wall_s"] = round(cov["lean_wall_s"] + r.wall, 2)
        if r.failed:
            cov.setdefault("broken_obligations", {}).update(r.failed)
            print(f"[{self.pid}] Lean: {len(r.failed)} obligation(s) do not check in {mod}:")
            for k, v in list(r.failed.items())[:12]:
                print(f"    {k}: {v}")
        else:
            print(f"[{self.pid}] Lean: {len(r.obligations)} theorem(s) of {mod} check; axioms ⊆ {sorted(ALLOWED_AXIOMS)} ({r.wall:.1f}s)")
        return r

    # ---- exploration bookkeeping ---------------------------------------------------------------
    def count(self, n=1):
        self.coverage["evaluations"] += n

    def sample(self, s, cap=6):
        if len(self.coverage["samples"]) < cap:
            self.coverage["samples"].append(s)

    # ---- verdicts ---------------------------------------------------------------------------------
    def violation(self, sig, replay, what, no_failing_input=False):
        """register a violation candidate. `sig`: canonical identification of the failing input / call
        site (matched against known_findings.json); `replay`: JSON-serialisable object."""
        for k in self.known:
            if k.get("property") == self.pid and k.get("status") == "known" and matches(k["match"], sig):
                if k["what"] not in [h["what"] for h in self.known_hits]:
                    self.known_hits.append(k)
                    print(f"KNOWN-FINDING: property={self.pid} {k['what']}")
                return None
        os.makedirs(os.path.join(VERIF, "replays"), exist_ok=True)
        body = {"property": self.pid, "signature": sig, "what": what, "replay": replay,
                "no_failing_input_found": bool(no_failing_input), "tier": self.tier, "seed": self.seed}
        path = os.path.join(VERIF, "replays", f"{self.pid}-{sha([sig, what])}.json")
        with open(path, "w") as f:
            json.dump(body, f, indent=1, default=str)
        if all(v[1] != path for v in self.violations):
            self.violations.append((sig, path, no_failing_input))
            tail = " no-failing-input-found" if no_failing_input else ""
            print(f"VIOLATION property={self.pid} replay={path}{tail}")
            print(f"    {what}")
        return path

    def finish(self):
        cov = self.coverage
        wall = time.time() - self.t0
        if self.known_hits:
            cov["known_findings_seen"] = [k["what"] for k in self.known_hits]
        cov.update(self.notes)
        ev = {"property_id": self.pid, "tier": self.tier, "seed": self.seed, "level": self.level,
              "coverage": cov, "assumptions": self.assumptions, "wall_s": round(wall, 2),
              "violations": len(self.violations)}
        evdir = os.environ.get("VERIF_EVIDENCE_DIR") or os.path.join(VERIF, "evidence")   # scratch runs against a changed tree write elsewhere
        os.makedirs(evdir, exist_ok=True)
        with open(os.path.join(evdir, f"{self.pid}.json"), "w") as f:
            json.dump(ev, f, indent=1, default=str)
        status = "VIOLATIONS" if self.violations else "ok"
        print(f"[{self.pid}] {status}: tier={self.tier} seed={self.seed} obligations={cov['obligations']} "
              f"discharged={cov['discharged']} evaluations={cov['evaluations']} "
              f"distinct_nontrivial={cov['distinct_nontrivial']} wall={wall:.1f}s")
        sys.exit(1 if self.violations else 0)


def run_repo_python(script_args, input_obj=None, timeout=3600):
    """run a harness module under the interpreter that can import the repo; JSON in, JSON out"""
    data = json.dumps(input_obj) if input_obj is not None else None
    p = subprocess.run([PY_REPO] + script_args, input=data, capture_output=True, text=True,
                       env=repo_env(), timeout=timeout, cwd=VERIF)
    return p.returncode, p.stdout, p.stderr
