"""C03, parallel mode: the real simulator with parallel=True under a given multiprocessing start method, noise-free gate set.
`cli()` reads {"start_method": ..., "cases": [{"cls", "ops", "n", "psi0": [[re, im], ...], "shots", "cpu"}]} from stdin and prints
the list of results (dict key -> probability, or {"err": ...}) as JSON.  Run in a subprocess: the start method is process-global."""
import sys, json, io, contextlib, multiprocessing
from unittest import mock
import numpy as np


def run_case(case):
    import quantum_gates._simulation.simulator as S
    from quantum_gates._gates.gates import NoiseFreeGates
    from qgv import wiring as W
    ops, n = case["ops"], case["n"]
    labels = [q for op in ops for q in (op[1] if op[0] == "barrier" else [x for x in op[1:3] if op[0] in ("cx", "ecr")] or [op[1]])]
    nl = max(labels) + 1
    ncl = max([op[2] for op in ops if op[0] == "measure"], default=0) + 1
    qc = W.build_qiskit(ops, nl, ncl)
    dp = W.tagged_params(nl - 1)
    dp.update(T1=np.ones(nl), T2=np.ones(nl), dt=[1e-9])
    psi0 = np.array([complex(a, b) for a, b in case["psi0"]])
    sim = S.MrAndersonSimulator(gates=NoiseFreeGates(), CircuitClass=W.circuit_class(case["cls"]), parallel=not case.get("sequential"))
    try:
        with contextlib.redirect_stdout(io.StringIO()), mock.patch.object(multiprocessing, "cpu_count", return_value=case.get("cpu", 3)):
            res = sim.run(t_qiskit_circ=qc, qubits_layout=list(range(nl)), psi0=psi0, shots=case.get("shots", 3), device_param=dp, nqubit=n)
    except Exception as e:                      # noqa
        return {"err": f"{type(e).__name__}: {str(e)[:160]}"}
    return {"result": {k: float(v) for k, v in res.items()}}


def cli():
    req = json.load(sys.stdin)
    sm = req.get("start_method")
    if sm:
        multiprocessing.set_start_method(sm, force=True)
    out = []
    for c in req["cases"]:
        try:
            out.append(run_case(c))
        except Exception as e:                  # noqa
            out.append({"internal_error": f"{type(e).__name__}: {e}"})
    json.dump(out, sys.stdout)


if __name__ == "__main__":
    cli()
