import importlib, os, sys, traceback, warnings
warnings.filterwarnings("ignore")
HERE = os.path.dirname(os.path.abspath(__file__))
sys.path.insert(0, HERE)
from qgv import core
sys.path.insert(0, os.path.join(core.REPO, "src"))
os.environ.setdefault("QUANTUM_GATES_VERIF", "1")


def main():
    if len(sys.argv) < 2:
        print("usage: check <property id> [--tier quick|thorough] [--replay file]"); sys.exit(2)
    pid = sys.argv[1].upper()
    try:
        mod = importlib.import_module(f"props.{pid.lower()}")
    except ModuleNotFoundError:
        print(f"no check for {pid}"); sys.exit(2)
    ctx = core.Ctx(pid, sys.argv[2:])
    try:
        if ctx.replay:
            sys.exit(mod.replay(ctx, ctx.replay))
        mod.main(ctx)
        ctx.finish()
    except SystemExit:
        raise
    except Exception:
        traceback.print_exc()
        print(f"[{pid}] internal error of the check (exit 2, not a verdict)")
        sys.exit(2)


main()
