"""C15 — device parameters survive a save/load round trip unchanged.

Lean: QG.Props.C15 (texts_roundtrip, json_roundtrip, reloaded_arrays, reloaded_eq, roundtrip_iter, layout_side,
      texts_roundtrip_layout, missing_file_raises, fileNotFound_only_if_missing, failed_load_incomplete,
      save_incomplete_raises) about the hand-written model QG/Model/DevParamsIO.lean (the code AFTER the repair of D15).
Tie:  exact differential correspondence through the line-protocol driver drv_c15:
      (a) numpy-level experiments (savetxt/loadtxt with ndmin 0/1/2, tolist/json/np.array) on designed + random shapes,
      (b) sessions = histories of new/set/save/load/delete/write/eq actions run on the real DeviceParameters in temp dirs
          and on the model; outcomes (exception classes), final objects (shape + value tokens + metadata token +
          is_complete) and final file contents are compared exactly.
Oracle (independent of the model, qgv/devparams_io.py): on every load of files written by a save of an in-domain object:
      no exception, `loaded == original`, per-array shape and bit-identical values (nan-aware); on every load with a
      required file missing: FileNotFoundError and no attribute touched; after any failing load into an object
      without metadata: is_complete() is False.
"""
import io, itertools, json, math
import numpy as np
from qgv import core
from qgv import devparams_io as W

F = W.FIELDS
EXTREME = [0.0, -0.0, 5e-324, -5e-324, 2.225073858507201e-308, 2.2250738585072014e-308, 1.7976931348623157e308,
           -1.7976931348623157e308, float("inf"), -float("inf"), float("nan"), 1e308, 1e-308, 1e-320, 0.1, 1 / 3,
           2.0 ** 53, 2.0 ** 53 + 2, 1e22, 1e23, 9007199254740993.0, 4.35e-5, 2.2222222222222221e-10, 123456789.12345679,
           math.pi, math.e, 1 - 2.0 ** -53, 1 + 2.0 ** -52, -1e-5, 7.105427357601002e-15]


# ---- value / object generators -----------------------------------------------------------------------------------------
def rand_double(rng, kind):
    if kind == "extreme":
        return rng.choice(EXTREME)
    if kind == "bits":                                    # any non-NaN bit pattern
        while True:
            x = W.untok("%016x" % rng.getrandbits(64))
            if x == x:
                return x
    if kind == "calib":
        return rng.choice([rng.random() * 1e-4, rng.random() * 1e-2, rng.random() * 1e-7, rng.random()])
    return float(rng.randint(-3, 9))                      # small integers (also exercises "1.0" vs "1")


def spec(shape, rng, kind):
    n = int(np.prod(shape)) if len(shape) else 1
    ks = ["extreme", "bits", "calib", "int"] if kind == "mixed" else [kind]
    return {"shape": list(shape), "data": [W.tok(rand_double(rng, rng.choice(ks))) for _ in range(n)]}


def valid_fields(L, m, rng, kind="mixed"):
    return [[f, spec((m, m) if f in W.TABLES else (1,) if f == "dt" else (L,), rng, kind)] for f in F]


def md_json(rng):
    return {"json": rng.choice([{"a": 1}, {}, {"device": "fake", "qubits": 5, "nested": {"l": [1, 2.5, None, True, "s"]}},
                                "just a string", 0, [1, 2], {"ü": "é\n\"", "f": 1e-320, "big": 10 ** 30}, False])}


def set_action(i, fields, md_src, as_list=()):
    md = W.materialise_md(md_src)
    a = {"a": "set", "id": i, "fields": fields, "md": None if md is None else W.md_tok(md), "md_src": md_src}
    if as_list:
        a["as_list"] = list(as_list)
    return a


def layout_of(rng, L, scattered):
    if not scattered:
        return list(range(L))
    lab = rng.sample(range(0, rng.choice([L + 1, L + 3, 16, 24])) if L < 16 else range(L + 4), L)
    return lab


def sess(actions, locs=("A",), family=""):
    return {"actions": actions, "locs": list(locs), "family": family}


def roundtrip_session(layout, rng, fmts, kind="mixed", m=None, md_src=None, as_list=(), loc="A", prefill=False, family=""):
    """save `o0`, load into a new object, save that, ... (one cycle per entry of fmts); eq checks along the way"""
    L = len(layout)
    m = max(layout) + 1 if m is None else m
    acts = [{"a": "new", "id": "o0", "nq": L, "layout": layout},
            set_action("o0", valid_fields(L, m, rng, kind), md_src or md_json(rng), as_list)]
    for k, fmt in enumerate(fmts):
        src, dst = f"o{k}", f"o{k + 1}"
        acts.append({"a": "save", "id": src, "fmt": fmt, "loc": loc})
        acts.append({"a": "new", "id": dst, "nq": L, "layout": layout})
        if prefill and k == 0:                              # history: the target already holds other values
            acts.append(set_action(dst, valid_fields(L, m, rng, "calib"), {"json": {"old": True}}))
        acts.append({"a": "load", "id": dst, "fmt": fmt, "loc": loc})
        acts.append({"a": "eq", "x": dst, "y": "o0"})
    return sess(acts, [loc], family)


# ---- designed corpus ------------------------------------------------------------------------------------------------------
def corpus(ctx):
    rng = ctx.rng
    out = []
    # D15: one-qubit layouts, text format (label 0 -> 1x1 tables, label 5 -> 6x6 tables), then JSON
    for layout in ([0], [5], [2]):
        for fmt in ("texts", "json"):
            out.append(roundtrip_session(layout, rng, [fmt], "calib", md_src={"json": {"a": 1}}, family="one-qubit"))
    # every layout length 1..12, contiguous and scattered, both formats, 3 cycles
    for L in range(1, 13):
        for scattered in (False, True):
            lay = layout_of(rng, L, scattered)
            out.append(roundtrip_session(lay, rng, ["texts", "texts", "texts"], family="cycles"))
            out.append(roundtrip_session(lay, rng, ["json", "json", "json"], family="cycles"))
    out.append(roundtrip_session([3, 0], rng, ["texts", "json", "texts", "json"], family="cycles-mixed"))
    out.append(roundtrip_session([7], rng, ["json", "texts", "json", "texts"], family="cycles-mixed"))
    # extreme doubles everywhere
    for lay in ([0], [4], [1, 0], [9, 2, 5], list(range(10))):
        for fmt in ("texts", "json"):
            out.append(roundtrip_session(lay, rng, [fmt, fmt], "extreme", family="extreme"))
            out.append(roundtrip_session(lay, rng, [fmt], "bits", family="extreme"))
    # attributes as Python lists (what load_from_backend leaves), metadata that JSON changes, prefix-style location,
    # target already filled, table side independent of the labels
    out.append(roundtrip_session([0, 1, 2], rng, ["texts", "json"], as_list=["T1", "T2", "p", "rout", "tm", "dt"], family="lists"))
    out.append(roundtrip_session([4], rng, ["json", "texts"], as_list=["T1", "T2", "p", "rout", "tm", "dt"], family="lists"))
    for sp in sorted(W.SPECIAL_MD):
        out.append(roundtrip_session([1, 3], rng, ["texts", "json", "texts"], md_src={"special": sp}, family="metadata"))
        out.append(roundtrip_session([0], rng, ["json", "texts"], md_src={"special": sp}, family="metadata"))
    out.append(roundtrip_session([0, 2], rng, ["texts", "json"], loc="pre1", family="prefix-location"))
    out.append(roundtrip_session([6], rng, ["texts"], loc="pre1", family="prefix-location"))
    out.append(roundtrip_session([0, 1], rng, ["texts", "json"], prefill=True, family="prefilled-target"))
    out.append(roundtrip_session([3], rng, ["texts", "json"], prefill=True, family="prefilled-target"))
    out.append(roundtrip_session([0], rng, ["texts", "json"], m=4, family="free-table-side"))
    out.append(roundtrip_session([0, 1], rng, ["texts", "json"], m=7, family="free-table-side"))
    # one location receives a SECOND device's parameters after it was loaded from once: the next load returns the second device's
    for lay, fmt in (([0, 1, 2], "json"), ([4], "json"), ([0, 3], "texts"), ([2], "texts")):
        L, m = len(lay), max(lay) + 1
        acts = [{"a": "new", "id": "a", "nq": L, "layout": lay}, set_action("a", valid_fields(L, m, rng, "calib"), {"json": {"dev": "first"}}),
                {"a": "new", "id": "b", "nq": L, "layout": lay}, set_action("b", valid_fields(L, m, rng, "calib"), {"json": {"dev": "second"}}),
                {"a": "save", "id": "a", "fmt": fmt, "loc": "A"},
                {"a": "new", "id": "t1", "nq": L, "layout": lay}, {"a": "load", "id": "t1", "fmt": fmt, "loc": "A"}, {"a": "eq", "x": "t1", "y": "a"},
                {"a": "save", "id": "b", "fmt": fmt, "loc": "A"},
                {"a": "new", "id": "t2", "nq": L, "layout": lay}, {"a": "load", "id": "t2", "fmt": fmt, "loc": "A"}, {"a": "eq", "x": "t2", "y": "b"},
                {"a": "load", "id": "t1", "fmt": fmt, "loc": "A"}, {"a": "eq", "x": "t1", "y": "b"}]
        out.append(sess(acts, ["A"], "second-device-at-one-location"))
    # missing files: each single file, a few subsets; new and already loaded targets
    for lay in ([0, 1, 2], [4]):
        L = len(lay)
        for names in [[n] for n in W.ALL_FILES] + [["T1.txt", "tm.txt"], ["metadata.json", "dt.txt"], list(W.TEXT_FILES), list(W.ALL_FILES)]:
            acts = [{"a": "new", "id": "o", "nq": L, "layout": lay},
                    set_action("o", valid_fields(L, max(lay) + 1, rng, "calib"), {"json": {"k": "v"}}),
                    {"a": "save", "id": "o", "fmt": "texts", "loc": "A"}, {"a": "save", "id": "o", "fmt": "json", "loc": "A"},
                    {"a": "delete", "loc": "A", "names": names},
                    {"a": "new", "id": "t1", "nq": L, "layout": lay}, {"a": "load", "id": "t1", "fmt": "texts", "loc": "A"},
                    {"a": "new", "id": "t2", "nq": L, "layout": lay}, {"a": "load", "id": "t2", "fmt": "json", "loc": "A"},
                    {"a": "load", "id": "o", "fmt": "texts", "loc": "A"}, {"a": "load", "id": "o", "fmt": "json", "loc": "A"},
                    {"a": "load", "id": "t1", "fmt": "texts", "loc": "empty"}, {"a": "load", "id": "t2", "fmt": "json", "loc": "empty"}]
            out.append(sess(acts, ["A", "empty"], "missing-files"))
    return out


def malformed(ctx, n_random):
    """outside the property's domain: exercises the error branches of model and code (no round-trip oracle applies)"""
    rng = ctx.rng
    out = []

    def base(lay, m=None):
        L = len(lay)
        return [{"a": "new", "id": "o", "nq": L, "layout": lay},
                set_action("o", valid_fields(L, max(lay) + 1 if m is None else m, rng, "calib"), {"json": {"k": 1}})]
    # incomplete objects: every single attribute None, metadata None, a new object
    for f in F + ["metadata"]:
        acts = base([0, 1])
        acts.append({"a": "set", "id": "o", "fields": [[f, None]]} if f != "metadata" else {"a": "set", "id": "o", "fields": [], "md": None, "md_src": None})
        acts += [{"a": "save", "id": "o", "fmt": "texts", "loc": "A"}, {"a": "save", "id": "o", "fmt": "json", "loc": "A"}]
        out.append(sess(acts, ["A"], "malformed-incomplete"))
    out.append(sess([{"a": "new", "id": "o", "nq": 2}, {"a": "save", "id": "o", "fmt": "json", "loc": "A"},
                     {"a": "save", "id": "o", "fmt": "texts", "loc": "A"}, {"a": "eq", "x": "o", "y": "o"}], ["A"], "malformed-incomplete"))
    # arrays np.savetxt refuses (0-d, 3-d) in each position: ValueError in the middle of save_to_texts, JSON is fine
    for f, shp in [("T1", ()), ("rout", (2, 1, 2)), ("p_int", (1, 2, 2)), ("tm", (1, 1, 1)), ("dt", ())]:
        acts = base([0, 1])
        acts.append({"a": "set", "id": "o", "fields": [[f, spec(shp, rng, "calib")]]})
        acts += [{"a": "save", "id": "o", "fmt": "texts", "loc": "A"}, {"a": "save", "id": "o", "fmt": "json", "loc": "A"},
                 {"a": "new", "id": "t", "nq": 2}, {"a": "load", "id": "t", "fmt": "json", "loc": "A"}, {"a": "eq", "x": "t", "y": "o"},
                 {"a": "new", "id": "u", "nq": 2}, {"a": "load", "id": "u", "fmt": "texts", "loc": "A"}]
        out.append(sess(acts, ["A"], "malformed-ndim"))
    # shapes outside the domain that squeeze changes (several qubits only: see the note in main about one qubit)
    for f, shp in [("T1", (1,)), ("p_int", (1, 1)), ("p_int", (1, 3)), ("t_int", (3, 1)), ("T2", (2, 2)), ("rout", (0,)),
                   ("dt", (2,)), ("tm", (3, 0)), ("p", (1, 1))]:
        acts = base([0, 1])
        acts.append({"a": "set", "id": "o", "fields": [[f, spec(shp, rng, "calib")]]})
        for fmt in ("texts", "json"):
            acts += [{"a": "save", "id": "o", "fmt": fmt, "loc": "A"}, {"a": "new", "id": "t" + fmt, "nq": 2},
                     {"a": "load", "id": "t" + fmt, "fmt": fmt, "loc": "A"}, {"a": "eq", "x": "t" + fmt, "y": "o"}]
        out.append(sess(acts, ["A"], "malformed-shape"))
    # a repeated label: layout [0,0] has L = 2 and 1x1 tables, which the text format cannot represent
    acts = base([0, 0])
    for fmt in ("texts", "json"):
        acts += [{"a": "save", "id": "o", "fmt": fmt, "loc": "A"}, {"a": "new", "id": "t" + fmt, "nq": 2, "layout": [0, 0]},
                 {"a": "load", "id": "t" + fmt, "fmt": fmt, "loc": "A"}, {"a": "eq", "x": "t" + fmt, "y": "o"}]
    out.append(sess(acts, ["A"], "malformed-repeated-label"))
    # files with unexpected content
    rag = [[W.tok(1.0), W.tok(2.0)], [W.tok(3.0)]]
    for name in ["T1.txt", "rout.txt", "t_int.txt", "dt.txt"]:
        acts = base([0, 1, 2])
        acts += [{"a": "save", "id": "o", "fmt": "texts", "loc": "A"}, {"a": "write_txt", "loc": "A", "name": name, "lines": rag},
                 {"a": "new", "id": "t", "nq": 3}, {"a": "load", "id": "t", "fmt": "texts", "loc": "A"},
                 {"a": "load", "id": "o", "fmt": "texts", "loc": "A"}]
        out.append(sess(acts, ["A"], "malformed-ragged-text"))
    acts = base([0, 1, 2])
    acts += [{"a": "save", "id": "o", "fmt": "texts", "loc": "A"},
             {"a": "write_txt", "loc": "A", "name": "T1.txt", "lines": [[W.tok(1.0)], [], [W.tok(2.0)], [], [W.tok(3.5)]]},
             {"a": "write_txt", "loc": "A", "name": "tm.txt", "lines": [[W.tok(1.0), W.tok(2.0), W.tok(3.0)]]},
             {"a": "write_txt", "loc": "A", "name": "rout.txt", "lines": []},
             {"a": "write_meta", "loc": "A", "md": W.md_tok({"other": 2}), "md_src": {"json": {"other": 2}}},
             {"a": "new", "id": "t", "nq": 3}, {"a": "load", "id": "t", "fmt": "texts", "loc": "A"}, {"a": "eq", "x": "t", "y": "o"}]
    out.append(sess(acts, ["A"], "malformed-text-layout"))
    good = [[f, W.nested_tok(np.zeros((3, 3)).tolist() if f in W.TABLES else [1.5] if f == "dt" else [1.0, 2.0, 3.0])] for f in ["T1", "T2", "p", "rout", "p_int", "t_int", "tm", "dt"]]
    mdj = {"json": {"m": 1}}
    docs = [("missing-key", [g for g in good if g[0] != "tm"], True), ("missing-metadata", good, False),
            ("ragged", [[k, [[W.tok(1.0)], [W.tok(2.0), W.tok(3.0)]]] if k == "tm" else [k, v] for k, v in good], True),
            ("mixed-depth", [[k, [W.tok(1.0), [W.tok(2.0)]]] if k == "p" else [k, v] for k, v in good], True),
            ("scalars-and-empties", [[k, W.tok(2.5)] if k == "T1" else [k, []] if k == "T2" else [k, [[], []]] if k == "p" else [k, v] for k, v in good], True),
            ("reordered", list(reversed(good)), True), ("deep", [[k, [[[W.tok(1.0)], [W.tok(2.0)]]]] if k == "rout" else [k, v] for k, v in good], True)]
    for name, fields, has_md in docs:
        acts = [{"a": "write_doc", "loc": "A", "fields": fields, "md": W.md_tok(mdj["json"]) if has_md else None, "md_src": mdj if has_md else None},
                {"a": "new", "id": "t", "nq": 3}, {"a": "load", "id": "t", "fmt": "json", "loc": "A"},
                {"a": "save", "id": "t", "fmt": "json", "loc": "B"}]
        out.append(sess(acts, ["A", "B"], "malformed-json-" + name))
    # a text file where JSON is expected and vice versa
    acts = base([0, 1])
    acts += [{"a": "save", "id": "o", "fmt": "texts", "loc": "A"}, {"a": "save", "id": "o", "fmt": "json", "loc": "A"},
             {"a": "write_txt", "loc": "A", "name": "metadata.json", "lines": [[W.tok(1.0)], [W.tok(2.0)]]},
             {"a": "write_txt", "loc": "A", "name": "device_parameters.json", "lines": [[W.tok(1.0)], [W.tok(2.0)]]},
             {"a": "new", "id": "t", "nq": 2}, {"a": "load", "id": "t", "fmt": "texts", "loc": "A"},
             {"a": "new", "id": "u", "nq": 2}, {"a": "load", "id": "u", "fmt": "json", "loc": "A"}]
    out.append(sess(acts, ["A"], "malformed-wrong-kind"))
    # target made for another number of qubits (several qubits on both sides)
    acts = base([0, 1, 2])
    acts += [{"a": "save", "id": "o", "fmt": "texts", "loc": "A"}, {"a": "save", "id": "o", "fmt": "json", "loc": "A"},
             {"a": "new", "id": "t", "nq": 2}, {"a": "load", "id": "t", "fmt": "texts", "loc": "A"},
             {"a": "new", "id": "u", "nq": 5}, {"a": "load", "id": "u", "fmt": "json", "loc": "A"}, {"a": "eq", "x": "t", "y": "u"}]
    out.append(sess(acts, ["A"], "malformed-other-layout"))
    # random malformed histories (several qubits; a one-qubit text load past `rout` is only generated for in-domain files)
    for _ in range(n_random):
        L = rng.randint(2, 5)
        lay = layout_of(rng, L, rng.random() < 0.5)
        acts = base(lay)
        locs = ["A", "B"]
        ids = ["o"]
        for _ in range(rng.randint(3, 9)):
            r = rng.random()
            if r < 0.2:
                f = rng.choice(F)
                shp = rng.choice([(), (1,), (L,), (L + 1,), (1, 1), (1, L), (L, 1), (L, L), (2, 3), (0,), (2, 0), (1, 1, 2)])
                acts.append({"a": "set", "id": rng.choice(ids), "fields": [[f, rng.choice([None, spec(shp, rng, "mixed")])]]})
            elif r < 0.45:
                acts.append({"a": "save", "id": rng.choice(ids), "fmt": rng.choice(["texts", "json"]), "loc": rng.choice(locs)})
            elif r < 0.75:
                if rng.random() < 0.5 or len(ids) == 1:
                    i = f"t{len(ids)}"; ids.append(i)
                    acts.append({"a": "new", "id": i, "nq": rng.choice([L, L, L, rng.randint(2, 6)])})
                acts.append({"a": "load", "id": rng.choice(ids), "fmt": rng.choice(["texts", "json"]), "loc": rng.choice(locs)})
            elif r < 0.85:
                acts.append({"a": "delete", "loc": rng.choice(locs), "names": rng.sample(W.ALL_FILES, rng.randint(1, 3))})
            elif r < 0.93:
                k = rng.randint(1, 3)
                lines = [[W.tok(rand_double(rng, "calib")) for _ in range(rng.choice([k, k, k, k + 1, 0]))] for _ in range(rng.randint(0, 4))]
                acts.append({"a": "write_txt", "loc": rng.choice(locs), "name": rng.choice(W.TEXT_FILES[:8]), "lines": lines})
            else:
                acts.append({"a": "eq", "x": rng.choice(ids), "y": rng.choice(ids)})
        out.append(sess(acts, locs, "malformed-random"))
    return out


def random_valid(ctx, n):
    """seeded histories inside the property's domain: cycles, several objects and locations, deletions"""
    rng = ctx.rng
    out = []
    for _ in range(n):
        L = rng.choice([1, 1, 2, 2, 3, 4, 5, 6, 8, 10, 12])
        lay = layout_of(rng, L, rng.random() < 0.5)
        m = max(lay) + 1
        kind = rng.choice(["mixed", "mixed", "extreme", "bits", "calib", "int"])
        if rng.random() < 0.5:
            s = roundtrip_session(lay, rng, [rng.choice(["texts", "json"]) for _ in range(rng.randint(1, 4))], kind,
                                  as_list=rng.choice([(), (), ("T1", "dt"), ("T1", "T2", "p", "rout", "tm", "dt")]),
                                  loc=rng.choice(["A", "A", "pre2"]), prefill=rng.random() < 0.3, family="random-cycles")
            out.append(s); continue
        acts = [{"a": "new", "id": "o0", "nq": L, "layout": lay}, set_action("o0", valid_fields(L, m, rng, kind), md_json(rng)),
                {"a": "new", "id": "o1", "nq": L, "layout": lay}, set_action("o1", valid_fields(L, m, rng, kind), md_json(rng))]
        ids, locs = ["o0", "o1"], ["A", "B", "pre3"]
        for _ in range(rng.randint(3, 10)):
            r = rng.random()
            if r < 0.4:
                acts.append({"a": "save", "id": rng.choice(ids), "fmt": rng.choice(["texts", "json"]), "loc": rng.choice(locs)})
            elif r < 0.8:
                if rng.random() < 0.6:
                    i = f"t{len(ids)}"; ids.append(i)
                    acts.append({"a": "new", "id": i, "nq": L, "layout": lay})
                acts.append({"a": "load", "id": rng.choice(ids), "fmt": rng.choice(["texts", "json"]), "loc": rng.choice(locs)})
            elif r < 0.9:
                acts.append({"a": "delete", "loc": rng.choice(locs), "names": rng.sample(W.ALL_FILES, rng.randint(1, 2))})
            else:
                acts.append({"a": "eq", "x": rng.choice(ids), "y": rng.choice(ids)})
        # only complete objects may be saved here: a load that raised FileNotFoundError leaves a new object empty
        out.append(sess(acts, locs, "random-history"))
    return out


QUICK_BACKENDS = ["FakeLimaV2", "FakeManilaV2", "FakeBrisbane", "FakeSherbrooke", "FakeKolkataV2", "FakeNairobiV2", "FakeTorino"]


def backend_sessions(ctx):
    import inspect, warnings
    warnings.filterwarnings("ignore")
    from qiskit_ibm_runtime import fake_provider
    from qiskit_ibm_runtime.fake_provider.fake_backend import FakeBackendV2
    rng = ctx.rng
    if ctx.thorough:
        names = sorted(n for n in dir(fake_provider) if n.startswith("Fake") and inspect.isclass(getattr(fake_provider, n))
                       and issubclass(getattr(fake_provider, n), FakeBackendV2) and n != "FakeBackendV2")
    else:
        names = [n for n in QUICK_BACKENDS if hasattr(fake_provider, n)]
    out, loaded, skipped = [], [], {}
    for nm in names:
        try:
            nq = getattr(fake_provider, nm)().num_qubits
            W.backend_params(nm, [0])
        except Exception as e:                          # noqa  (no cx/ecr, no x calibration, ...: not loadable)
            skipped[nm] = f"{type(e).__name__}: {str(e)[:60]}"
            continue
        loaded.append(nm)
        top = min(nq, 28)
        layouts = [[0], [top - 1], [0, 1] if nq > 1 else [0]]
        if nq >= 5:
            layouts += [rng.sample(range(top), 3), list(range(5)), rng.sample(range(top), min(top, rng.randint(6, 12)))]
        if nq >= 100 and (ctx.thorough or nm == "FakeBrisbane"):
            layouts.append([nq - 1, 3])
        for lay in layouts:
            vals = W.backend_params(nm, lay)
            fields = [[f, W.canon_arr(np.asarray(vals[f], dtype=float))] for f in F]
            src = {"backend": nm, "layout": lay}
            fmts = rng.choice([["texts", "json"], ["json", "texts"], ["texts", "texts", "json"]])
            acts = [{"a": "new", "id": "o0", "nq": len(lay), "layout": lay},
                    {"a": "set", "id": "o0", "fields": fields, "md": W.md_tok(vals["metadata"]), "md_src": src,
                     "as_list": [f for f in F if isinstance(vals[f], list)]}]
            for k, fmt in enumerate(fmts):
                acts += [{"a": "save", "id": f"o{k}", "fmt": fmt, "loc": "A"}, {"a": "new", "id": f"o{k+1}", "nq": len(lay), "layout": lay},
                         {"a": "load", "id": f"o{k+1}", "fmt": fmt, "loc": "A"}, {"a": "eq", "x": f"o{k+1}", "y": "o0"}]
            out.append(sess(acts, ["A"], "backend"))
    ctx.notes["fake_backends_loaded"] = loaded
    ctx.notes["fake_backends_not_loadable"] = skipped
    return out


# ---- numpy-level experiments (model tie only) -------------------------------------------------------------------------------
def numpy_cases(ctx):
    rng = ctx.rng
    reqs = []
    shapes = [(), (0,), (1,), (2,), (5,), (1, 1), (1, 2), (2, 1), (2, 2), (1, 5), (5, 1), (3, 4), (0, 3), (3, 0), (0, 0), (1, 0),
              (0, 1), (1, 1, 1), (2, 2, 2), (2, 1, 2), (2, 0, 2), (0, 2, 2), (6, 6), (12,), (13, 13), (1, 1, 1, 1)]
    for _ in range(300 if ctx.thorough else 60):
        shapes.append(tuple(rng.choice([0, 1, 1, 2, 3, 4]) for _ in range(rng.randint(0, 3))))
    for shp in shapes:
        s = spec(shp, rng, "mixed")
        for k in (0, 1, 2):
            reqs.append(dict(op="txt", ndmin=k, **s))
        reqs.append(dict(op="json", **s))
    t = lambda x: W.tok(float(x))
    texts = [[[t(1), t(2)], [t(3)]], [[t(1), t(2)], [], [t(3), t(4)]], [[], []], [], [[t(1), t(2)], [t(3), t(4), t(5)]], [[], [t(1)]],
             [[t(1)]], [[t(1)], [t(2)]], [[t(1), t(2), t(3)]], [[t(1)], [], []]]
    for _ in range(200 if ctx.thorough else 40):
        c = rng.randint(1, 3)
        texts.append([[t(rng.randint(0, 9)) for _ in range(rng.choice([c, c, c, c, 0, c + 1]))] for _ in range(rng.randint(0, 4))])
    for lines in texts:
        for k in (0, 1, 2):
            reqs.append({"op": "loadtxt", "lines": lines, "ndmin": k})
    nest = [[[t(1)], t(2)], [[t(1)], [t(2), t(3)]], [[], [t(1)]], [[t(1)], []], [[[t(1)]], [[t(2)]]], [[[t(1)]], [t(2)]], [t(1), [t(2)]],
            [[], []], [[[]]], [], t(4), [[t(1), t(2)], [t(3), t(4)]], [[[], []], [[], []]], [[[t(1)], [t(2)]], [[t(3)], [t(4), t(5)]]]]

    def rnd_nested(d):
        if d == 0 or rng.random() < 0.2:
            return t(rng.randint(0, 9))
        n = rng.randint(0, 3)
        if rng.random() < 0.7:                          # regular
            child = rnd_nested(d - 1)
            return [json.loads(json.dumps(child)) for _ in range(n)]
        return [rnd_nested(d - 1) for _ in range(n)]
    for _ in range(300 if ctx.thorough else 60):
        nest.append(rnd_nested(rng.randint(1, 3)))
    for v in nest:
        reqs.append({"op": "nparray", "nested": v})
    return reqs


def numpy_real(req):
    import warnings
    def ex(f):
        try:
            with warnings.catch_warnings():
                warnings.simplefilter("ignore")
                return {"ok": W.canon_arr(f())}
        except Exception as e:                          # noqa
            return {"err": W.exc_name(e)}
    if req["op"] == "txt":
        a = W.arr_of(req)
        s = io.StringIO()
        try:
            np.savetxt(s, a)
        except Exception as e:                          # noqa
            return {"err": W.exc_name(e)}
        text = s.getvalue()
        lines = [[W.tok(float(x)) for x in ln.split()] for ln in text.split("\n")[:-1]]
        return {"ok": {"lines": lines, "loaded": ex(lambda: np.loadtxt(io.StringIO(text), ndmin=req["ndmin"]))}}
    if req["op"] == "loadtxt":
        text = "".join(" ".join("%.18e" % W.untok(x) for x in ln) + "\n" for ln in req["lines"])
        return ex(lambda: np.loadtxt(io.StringIO(text), ndmin=req["ndmin"]))
    if req["op"] == "json":
        a = W.arr_of(req)
        text = json.dumps(a.tolist())
        return {"ok": {"nested": W.nested_tok(json.loads(text)), "loaded": ex(lambda: np.array(json.loads(text)))}}
    if req["op"] == "nparray":
        text = json.dumps(W.nested_untok(req["nested"]))
        return ex(lambda: np.array(json.loads(text)))
    raise ValueError(req)


def remark_probes():
    """observations on the real code that are OUTSIDE the statement of C15 (recorded in the evidence, never a verdict)"""
    import contextlib, struct, tempfile, shutil
    from quantum_gates._utility.device_parameters import DeviceParameters
    out = {}
    d = tempfile.mkdtemp(prefix="c15r_") + "/"
    try:
        def mk(layout, **kw):
            L, m = len(layout), max(layout) + 1
            dp = DeviceParameters(layout)
            dp.T1, dp.T2, dp.p, dp.rout, dp.tm = (np.full(L, 0.5) for _ in range(5))
            dp.p_int, dp.t_int, dp.dt, dp.metadata = np.full((m, m), 0.25), np.full((m, m), 0.125), np.array([1e-9]), {"k": 1}
            for k, v in kw.items():
                setattr(dp, k, v)
            return dp
        def rt(dp, fmt):
            with contextlib.redirect_stdout(io.StringIO()):
                getattr(dp, "save_to_" + fmt)(d)
            b = DeviceParameters(dp.qubits_layout)
            getattr(b, "load_from_" + fmt)(d)
            return b
        neg_nan = struct.unpack("<d", struct.pack("<Q", 0xFFF8000000000000))[0]
        for fmt in ("texts", "json"):
            a = mk([0, 1], T1=np.array([neg_nan, 1.0]))
            b = rt(a, fmt)
            out[f"negative_nan_bits_preserved_{fmt}"] = bool(a.T1.tobytes() == b.T1.tobytes())
            a = mk([0, 1], T1=[100, 200])
            b = rt(a, fmt)
            out[f"int_valued_list_T1_eq_{fmt}"] = bool(a == b)
            a = mk([0, 0])
            b = rt(a, fmt)
            out[f"repeated_label_layout_p_int_shape_{fmt}"] = list(np.asarray(b.p_int).shape)
            a = mk([0, 1], metadata={"z": 1 + 2j})
            b = rt(a, fmt)
            out[f"complex_metadata_dict_equal_{fmt}"] = bool(a.metadata == b.metadata)
            out[f"complex_metadata_objects_equal_{fmt}"] = bool(a == b)
        try:
            import copy
            copy.deepcopy(mk([0]))
            out["deepcopy_works"] = True
        except Exception as e:                              # noqa
            out["deepcopy_works"] = f"{type(e).__name__}: {e}"
    finally:
        shutil.rmtree(d, ignore_errors=True)
    return out


# ---- shrinking, signatures ----------------------------------------------------------------------------------------------
def sig_of(f):
    """canonical identification of a failure (matched against known_findings.json): kind of failure, storage format, one-qubit
    or multi-qubit layout and, for round-trip failures, the attributes that came back different"""
    return {"kind": f["kind"], "fmt": f["fmt"], "one_qubit": f["one_qubit"],
            "fields": f["fields"] if f["kind"].startswith("roundtrip") else []}


def shrink(session, sig):
    """drop actions while the same oracle failure persists (real code only)"""
    acts = list(session["actions"])
    def fails(a):
        try:
            _, fl = W.run_real({"actions": a, "locs": session["locs"]})
        except Exception:                                # noqa
            return False
        return any(sig_of(x) == sig for x in fl)
    i = len(acts) - 1
    while i >= 0:
        cand = acts[:i] + acts[i + 1:]
        if fails(cand):
            acts = cand
        i -= 1
    return {"actions": acts, "locs": session["locs"], "family": session.get("family", "")}


def describe(session, f):
    lay = next((a.get("layout") for a in session["actions"] if a["a"] == "new" and a.get("layout")), None)
    return (f"{'one-qubit' if f['one_qubit'] else 'multi-qubit'} layout {lay}, format {f['fmt']}: {f['detail']}")


# ---- main -----------------------------------------------------------------------------------------------------------------
def main(ctx):
    lean = ctx.lean("QG.Props.C15")
    cov = ctx.coverage
    sessions = corpus(ctx) + backend_sessions(ctx) + random_valid(ctx, 1500 if ctx.thorough else 150)
    n_valid = len(sessions)
    sessions += malformed(ctx, 1200 if ctx.thorough else 150)
    np_reqs = numpy_cases(ctx)

    # real code
    real, fails_by_session = [], []
    for s in sessions:
        ans, fl = W.run_real(s)
        real.append(ans); fails_by_session.append(fl)
        ctx.count()
    np_real = [numpy_real(r) for r in np_reqs]
    ctx.count(len(np_reqs))
    # model
    drv = core.Driver(ctx.pid)
    model = drv.batch([W.model_request(s) for s in sessions] + np_reqs)
    m_sess, m_np = model[:len(sessions)], model[len(sessions):]

    mism_sess = [i for i in range(len(sessions)) if real[i] != m_sess[i]]
    mism_np = [i for i in range(len(np_reqs)) if np_real[i] != m_np[i]]
    unexplained = [i for i in mism_sess if not fails_by_session[i]]

    # ---- evidence
    fam, nontrivial, Lh, mh, fmth, errh, branch = {}, set(), {}, {}, {}, {}, {"one_qubit_text_load": 0, "multi_qubit_text_load": 0, "json_load": 0}
    loads_ok = loads_missing = 0
    for s, ans in zip(sessions, real):
        fam[s["family"]] = fam.get(s["family"], 0) + 1
        outs = ans["ok"]["outcomes"]
        nq = {a["id"]: a["nq"] for a in s["actions"] if a["a"] == "new"}
        hit = False
        for a, o in zip(s["actions"], outs):
            if a["a"] == "new":
                Lh[str(a["nq"])] = Lh.get(str(a["nq"]), 0) + 1
            if a["a"] == "set":
                for k, v in a["fields"]:
                    if k == "p_int" and v is not None and len(v["shape"]) == 2:
                        mh[str(v["shape"][0])] = mh.get(str(v["shape"][0]), 0) + 1
            if a["a"] in ("save", "load"):
                fmth[a["a"] + ":" + a["fmt"]] = fmth.get(a["a"] + ":" + a["fmt"], 0) + 1
                errh[str(o)] = errh.get(str(o), 0) + 1
            if a["a"] == "load":
                if o is None:
                    loads_ok += 1; hit = True
                    branch["json_load" if a["fmt"] == "json" else "one_qubit_text_load" if nq.get(a["id"]) == 1 else "multi_qubit_text_load"] += 1
                elif o == "FileNotFoundError":
                    loads_missing += 1; hit = True
        if hit:
            nontrivial.add(core.sha(W.model_request(s)))
    cov["distinct_nontrivial"] = len(nontrivial)
    cov["rule"] = ("a case is a history (session) of new/set/save/load/delete/write/eq actions executed on the real DeviceParameters "
                   "in a temp dir and on the model; non-trivial = distinct session containing at least one load that either "
                   "succeeds on files written by a save or raises FileNotFoundError for a missing file; numpy-level experiments "
                   "(savetxt/loadtxt/tolist/np.array on designed and random shapes) are counted in `evaluations` only")
    cov.update({"sessions": len(sessions), "sessions_in_domain_families": n_valid, "numpy_experiments": len(np_reqs),
                "family_histogram": dict(sorted(fam.items())), "layout_length_histogram": dict(sorted(Lh.items(), key=lambda x: int(x[0]))),
                "table_side_histogram": dict(sorted(mh.items(), key=lambda x: int(x[0]))), "format_histogram": fmth,
                "outcome_histogram": errh, "load_branch_histogram": branch, "successful_loads": loads_ok,
                "missing_file_loads": loads_missing, "correspondence_mismatches_sessions": len(mism_sess),
                "correspondence_mismatches_numpy": len(mism_np), "oracle_failures": sum(len(f) for f in fails_by_session),
                "traces_validated_against_impl": len(sessions) + len(np_reqs)})
    k = next(i for i, s in enumerate(sessions) if s["family"] == "one-qubit")
    ctx.sample({"family": "one-qubit", "actions": [{kk: vv for kk, vv in a.items() if kk != "md_src"} for a in sessions[k]["actions"]][:4],
                "impl_outcomes": real[k]["ok"]["outcomes"], "impl_p_int_shape": real[k]["ok"]["objects"][-1]["fields"][4][1]})
    ctx.sample({"family": "missing-files", "impl_outcomes": next(r["ok"]["outcomes"] for s, r in zip(sessions, real) if s["family"] == "missing-files")})
    ctx.sample({"numpy": {kk: vv for kk, vv in np_reqs[15].items()}, "impl": np_real[15]})
    cov["trusted_base"] += [
        "hand-written model QG/Model/DevParamsIO.lean (describes the code after the repair of D15), tied by exact differential "
        "correspondence on every session and numpy experiment of this run: exception classes, shapes, value tokens, metadata token, "
        "is_complete, == and the contents of every file written",
        "a double survives '%.18e' -> float() and float.__repr__ -> json.loads unchanged (floats are opaque tokens in the model; "
        "exercised with subnormals, +-inf, nan, -0.0, 1e+-308, 2^53+2, random bit patterns); all NaNs are identified (sign and "
        "payload of a NaN are NOT preserved by either format: remark, see notes)",
        "numpy 2.x semantics of savetxt / loadtxt(ndmin) / squeeze / tolist / np.array(nested) and json as modelled (observed by "
        "the numpy-level experiments on every run); `location + name` modelled as the pair (location, name)",
        "metadata: json.load(json.dump(md, default=default_serializer)) is idempotent (`canon`); metadata is an opaque token",
        "os.path.exists / open as a finite map from names to contents; no concurrent writers"]
    ctx.assumptions += [
        "domain: is_complete(), float64 data, T1/T2/p/rout/tm of shape (L,), p_int/t_int of shape (m,m), dt of shape (1,), L>=1, m>=1, "
        "and L==1 or m>=2 (true for every layout of pairwise different labels, theorem layout_side); attributes may be numpy arrays "
        "or Python lists of floats (modelled as the array np.asarray gives)",
        "equality is DeviceParameters.__eq__ (= equality of __str__): metadata that JSON changes (datetime, complex, tuples) comes back "
        "as strings/lists and still compares equal; dict equality of metadata is not claimed",
        "integer-valued Python ints in attributes (e.g. T1=[100,200]) are outside 'all float values': the text format returns floats"]
    ctx.notes["remarks"] = [
        "NaN sign/payload: np.array([-nan]) comes back as +nan in both formats ('nan' / 'NaN' carry no sign); compared nan-aware",
        "layout with a repeated label, e.g. [0,0]: L=2 with 1x1 tables; text load returns p_int of shape () (squeeze) — outside the "
        "property's layouts, model and code agree (family malformed-repeated-label)",
        "save_to_texts that raises on a 0-d / 3-d attribute leaves the earlier files and an empty file behind (modelled, agrees)"]

    try:
        ctx.notes["remark_probes"] = remark_probes()
    except Exception as e:                      # noqa  (informational probes only: never a verdict, never a crash)
        ctx.notes["remark_probes"] = {"raised": f"{type(e).__name__}: {str(e)[:160]}"}
    # ---- decide
    reported = {}
    for i, fl in enumerate(fails_by_session):
        for f in fl:
            key = json.dumps(sig_of(f), sort_keys=True)
            if key not in reported:
                reported[key] = (i, f)
    for key, (i, f) in list(reported.items())[:6]:
        sig = sig_of(f)
        small = shrink(sessions[i], sig)
        ans, fl2 = W.run_real(small)
        f2 = next((x for x in fl2 if sig_of(x) == sig), f)
        same = [(j, x) for j, fl in enumerate(fails_by_session) for x in fl if sig_of(x) == sig]
        other = next((describe(sessions[j], x) for j, x in same if x["detail"] != f2["detail"]), None)
        ctx.violation(sig, {"kind": "session", "session": small, "failure": f2, "observed": ans,
                            "expected_by_model": drv.batch([W.model_request(small)])[0],
                            "same_failure_in_sessions": len({j for j, _ in same}), "another_instance": other},
                      "DeviceParameters save/load: " + describe(small, f2) + (f" [also: {other}]" if other else ""))
    if unexplained or mism_np:
        if mism_np:
            j = mism_np[0]
            rp = {"request": np_reqs[j], "impl": np_real[j], "model": m_np[j], "broken": "numpy-level correspondence"}
        else:
            j = unexplained[0]
            rp = {"session": sessions[j], "impl": real[j], "model": m_sess[j], "broken": "session correspondence"}
        ctx.violation({"kind": "correspondence"}, rp, f"model and implementation disagree on {len(unexplained)} session(s) / {len(mism_np)} "
                      "numpy experiment(s) on which the property's oracle reports no failure", no_failing_input=True)
    if not lean.ok and not reported:
        ctx.violation({"kind": "proof"}, {"broken": lean.failed}, "Lean obligations of C15 do not check; the oracle passes on every "
                      "explored history", no_failing_input=True)
    elif not lean.ok:
        print(f"[{ctx.pid}] note: Lean obligations do not check: {lean.failed}")


def replay(ctx, path):
    rp = json.load(open(path))["replay"]
    if "session" not in rp or rp.get("broken"):
        print("replay names a broken obligation / correspondence, no failing input to re-run:", json.dumps(rp)[:600]); return 1
    s = rp["session"]
    ans, fails = W.run_real(s)
    for a, o in zip(s["actions"], ans["ok"]["outcomes"]):
        brief = {k: v for k, v in a.items() if k in ("a", "id", "nq", "layout", "fmt", "loc", "names", "x", "y")}
        print("  ", json.dumps(brief), "->", o)
    for o in ans["ok"]["objects"]:
        print("   object", o["id"], "nq", o["nq"], "complete", o["complete"], {k: (v and v.get("shape")) for k, v in o["fields"]})
    for f in fails:
        print("oracle FAILS:", describe(s, f))
    if not fails:
        print("oracle: holds")
    return 1 if fails else 0
