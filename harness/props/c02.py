"""C02 — gate fusion never changes what a gate list computes.

Lean: QG.Props.C02 (sem_level1..4, sem_process_snippet, optimize_sem, …) about QG.Model.Optimizer /
QG.Model.Binary, which transcribe circ_optimizer.py / BinaryBackend *after* the minimal repairs D1-D3.
Tie: hand-written model + exact differential correspondence through the drv_c02 line-protocol driver
     (`Optimizer(level, items, list(range(n))).optimize()` for the levels 0..4 and
     `BinaryBackend(n).statevector(items, psi0)`), Gaussian-integer matrices and vectors.
Oracle (independent of the model and of the repository's code): a numpy reference that applies an item
     to the columns of a matrix by explicit bit manipulation; the returned list must not raise, must not
     be longer, and must have the same total operator as the input list; the backend must return the
     state obtained by applying the items one after another.
"""
import copy, itertools, json, time
import numpy as np
from qgv import core

LEVELS = [0, 1, 2, 3, 4]
EXACT = 2.0 ** 52
DENSE_NMAX = 6          # full 2^n x 2^n operator up to here; beyond: a few integer columns


# ------------------------------------------------------------------ reference (the oracle's vocabulary)
_IDX = {}


def _index_tables(n, qs):
    """for every basis index i: the row of the gate selected by the bits of `qs` (first qubit = more
    significant gate bit; qubit 0 = most significant bit of i), and for every gate column c the index
    obtained from i by overwriting those bits with the bits of c"""
    key = (n, tuple(qs))
    if key not in _IDX:
        idx = np.arange(2 ** n)
        pos = [n - 1 - q for q in qs]
        sub = np.zeros_like(idx)
        base = idx.copy()
        for p in pos:
            sub = (sub << 1) | ((idx >> p) & 1)
            base &= ~(1 << p)
        srcs = []
        for c in range(2 ** len(qs)):
            s = base.copy()
            for t, p in enumerate(pos):
                s |= ((c >> (len(qs) - 1 - t)) & 1) << p
            srcs.append(s)
        _IDX[key] = (sub, srcs)
    return _IDX[key]


def ref_apply(n, M, qs, X):
    """(embedding of M on the qubits qs) @ X, X of shape (2^n, columns)"""
    sub, srcs = _index_tables(n, qs)
    out = np.zeros_like(X)
    for c, s in enumerate(srcs):
        out += M[sub, c][:, None] * X[s]
    return out


def oracle_qubits(q):
    """the qubits of an item as the property reads them: [q], [q,-1] -> (q,), [q1,q2] -> (q1,q2)"""
    q = [int(x) for x in q]
    if len(q) == 2 and q[1] == -1:
        return (q[0],)
    return tuple(q)


def ref_fold(n, items, X):
    for M, q in items:
        X = ref_apply(n, np.asarray(M, dtype=complex), oracle_qubits(q), X)
    return X


def same(A, B):
    """exact on integer data below 2^52, relative 1e-9 beyond (reported as inexact)"""
    m = max(float(np.max(np.abs(A))) if A.size else 0.0, float(np.max(np.abs(B))) if B.size else 0.0)
    if not np.isfinite(m):
        return False, False
    if m < EXACT:
        return bool(np.array_equal(A, B)), True
    return bool(np.allclose(A, B, rtol=1e-9, atol=0.0)), False


def well_formed_out(n, out):
    if not isinstance(out, list):
        return "result is not a list"
    for it in out:
        try:
            M, q = it[0], [int(x) for x in it[1]]
            M = np.asarray(M)
        except Exception:                                     # noqa
            return "an item of the result is not [matrix, qubits]"
        if len(q) == 1 and M.shape == (2, 2) and 0 <= q[0] < n:
            continue
        if len(q) == 2 and M.shape == (4, 4) and q[0] != q[1] and all(0 <= x < n for x in q):
            continue
        return f"an item of the result is malformed: shape {M.shape} on qubits {q}"
    return None


# ------------------------------------------------------------------ inputs
def jmat(M):
    return [[[int(round(z.real)), int(round(z.imag))] for z in row] for row in np.asarray(M, dtype=complex)]


def to_np(mj):
    return np.array([[complex(a, b) for a, b in row] for row in mj], dtype=complex)


PHASES = [1, -1, 1j, -1j]
SMALL = [0, 0, 1, -1, 1j, -1j, 1 + 1j, 2, -1 + 1j, 1 - 2j]


def rand_monomial(rng, d):
    M = np.zeros((d, d), dtype=complex)
    perm = list(range(d)); rng.shuffle(perm)
    for i, p in enumerate(perm):
        M[i, p] = rng.choice(PHASES)
    return M


def rand_dense(rng, d):
    if rng.random() < 0.1:
        # diagonal with non-zero entries and trace exactly d, not the identity (looks like an identity to a test by trace / pattern)
        pairs = [(1 + 1j, 1 - 1j), (3, -1), (2 + 1j, -1j), (1 + 2j, 1 - 2j)]
        diag = []
        for _ in range(d // 2):
            a, b = rng.choice(pairs)
            diag += [a, b] if rng.random() < 0.5 else [b, a]
        return np.diag(np.array(diag, dtype=complex))
    return np.array([[rng.choice(SMALL) for _ in range(d)] for _ in range(d)], dtype=complex)


def materialise(rng, pattern, dense_p, pad_p=0.25, shared_p=0.3):
    """pattern: list of qubit tuples -> list of [matrix, qubit list].  With probability shared_p the matrices of the list are
    drawn from a small pool of OBJECTS (one `H` / `CX` array used by many items, as every circuit builder does)"""
    items = []
    pool = None
    if rng.random() < shared_p:
        pool = {2: [rand_dense(rng, 2) if rng.random() < max(dense_p, 0.5) else rand_monomial(rng, 2) for _ in range(2)],
                4: [rand_dense(rng, 4) if rng.random() < dense_p else rand_monomial(rng, 4) for _ in range(2)]}
    for qs in pattern:
        d = 2 if len(qs) == 1 else 4
        if pool is not None:
            M = rng.choice(pool[d])
        else:
            M = rand_dense(rng, d) if rng.random() < dense_p else rand_monomial(rng, d)
        q = list(qs)
        if len(q) == 1 and rng.random() < pad_p:
            q = [q[0], -1]
        items.append([M, q])
    return items


def choices(n):
    return [(q,) for q in range(n)] + [(a, b) for a in range(n) for b in range(n) if a != b]


CORPUS = [
    # (n, pattern)            D1: trailing run on one qubit
    (1, [(0,), (0,), (0,)]), (2, [(0,), (0,), (0,)]), (2, [(0,), (1,), (1,)]), (3, [(0, 1), (2,), (2,)]),
    # D2: single gate after a two-qubit gate, gate on the second qubit in front
    (3, [(0,), (1, 0), (2,)]), (3, [(1,), (0, 1), (2,), (0, 1)]), (4, [(3,), (0, 3), (1,), (2, 1)]),
    # D3: no two-qubit gate, a qubit without gate
    (3, [(1,), (2,), (1,)]), (4, [(3,), (1,), (3,)]), (3, [(2,), (1,), (2,), (1,)]),
    # before-section branches
    (2, [(0,), (1,), (0, 1)]), (2, [(1,), (0,), (0, 1)]), (3, [(2,), (0,), (0, 1)]), (3, [(2,), (1,), (0, 1)]),
    (3, [(0,), (2,), (0, 1)]), (2, [(0,), (0, 1), (1,)]), (2, [(1,), (1, 0), (0,)]),
    # after-section branches
    (2, [(0, 1), (1,), (0,)]), (2, [(0, 1), (0,), (1,)]), (3, [(0, 1), (2,), (0,)]), (3, [(0, 1), (2,), (1,)]),
    (3, [(0, 1), (0,), (2,)]), (3, [(0, 1), (1,), (2,)]), (4, [(0, 1), (2,), (3,)]), (3, [(0, 1), (2,), (0, 1)]),
    # level 3: runs of one ordered pair; the reversed pair must not be merged
    (2, [(0, 1), (0, 1), (0, 1)]), (2, [(0, 1), (1, 0), (0, 1)]), (3, [(0, 2), (0, 2), (2, 0), (2, 0)]),
    # level 4 with and without two-qubit gates
    (3, [(0, 1), (2,), (0,), (2,), (1,), (0,)]), (3, [(0,), (1,), (2,), (0,), (1,), (2,)]),
    (4, [(2, 0), (3,), (1,), (3,), (1,), (3,)]), (2, [(0,), (1,), (0,), (1,)]),
    # level clamp
    (1, [(0,), (0,), (0,), (0,)]), (3, [(0,), (0,)]), (3, [(1, 2)]),
]


def gen_exhaustive(ctx):
    if ctx.thorough:
        scope = [(1, 5), (2, 5), (3, 5), (4, 4)]
    else:
        scope = [(1, 4), (2, 4), (3, 4)]
    ctx.notes["exhaustive_scope"] = "all qubit-index patterns for " + ", ".join(f"n={n}: len<={L}" for n, L in scope)
    for n, L in scope:
        ch = choices(n)
        for length in range(1, L + 1):
            for pat in itertools.product(ch, repeat=length):
                yield n, list(pat)


def rand_pair(rng, n, style):
    a = rng.randrange(n)
    if style == "reversed" and n >= 2:
        a = rng.randrange(1, n); b = rng.randrange(0, a)
    elif style == "distant" and n >= 3:
        a = rng.randrange(n); cand = [b for b in range(n) if abs(a - b) >= 2]
        b = rng.choice(cand) if cand else (a + 1) % n
    else:
        b = rng.choice([x for x in range(n) if x != a])
    return (a, b)


DIGIT_COLLISIONS = [((1, 11), (11, 1)), ((1, 10), (11, 0)), ((1, 12), (11, 2)), ((2, 11), (21, 1)), ((1, 21), (12, 1)), ((10, 1), (1, 1 + 0))]


def gen_random_pattern(rng, family, nmax, lmax):
    if family == "digits" and nmax < 13:
        family = "pairs"
    if family == "digits":
        # two-digit qubit indices whose decimal spellings collide when written next to each other ("1"+"11" = "11"+"1"):
        # neighbouring two-qubit items on such pairs act on DIFFERENT pairs and must not be fused
        a, b = rng.choice(DIGIT_COLLISIONS[:3])
        n = max(max(a), max(b)) + 1 + rng.choice([0, 0, 1])
        pat = []
        for _ in range(rng.randint(1, 3)):
            pre = [(rng.choice([a[0], a[1], b[0], b[1], rng.randrange(n)]),) for _ in range(rng.randint(0, 2))]
            pair = [a, b] if rng.random() < 0.5 else [b, a]
            if rng.random() < 0.3:
                pair = [pair[0], pair[0], pair[1]]
            pat += pre + pair
        return n, pat[:lmax]
    n = rng.choice([1, 2, 2, 3, 3, 4, 4, 5, 5, 6, 6, 7, 8, 9, 10, 11, 12])
    n = min(n, nmax)
    L = rng.choice([3, 4, 5, 6, 8, 10, 15, 20, 30, 45, 60, rng.randint(1, 60)])
    L = min(L, lmax)
    used = list(range(n))
    if family in ("idle", "noq2idle") and n >= 2:
        used = sorted(rng.sample(range(n), rng.randint(1, n - 1)))
    if family == "local" and n >= 3:
        used = sorted(rng.sample(range(n), rng.choice([2, 3])))
    p1 = {"noq2": 1.0, "noq2idle": 1.0, "window": 0.5, "local": 0.5, "pairs": 0.3}.get(family, rng.choice([0.5, 0.7, 0.85]))
    pat = []
    while len(pat) < L:
        if family == "window" and n >= 2 and rng.random() < 0.4:
            # [1q] G [1q] H : exactly one one-qubit gate between two two-qubit gates
            g = rand_pair(rng, n, rng.choice(["any", "reversed", "distant"]))
            mid = rng.choice([g[0], g[1], rng.randrange(n)])
            pre = rng.choice([g[0], g[1], rng.randrange(n)])
            pat += [(pre,), g, (mid,), rand_pair(rng, n, "any")]
            continue
        if rng.random() < p1 or len(used) < 2:
            q = rng.choice(used)
            run = rng.choice([1, 1, 1, 2, 3]) if family != "runs" else rng.choice([1, 2, 3, 5])
            pat += [(q,)] * run
        else:
            style = {"reversed": "reversed", "distant": "distant"}.get(family, rng.choice(["any", "reversed", "distant"]))
            if len(used) == n:
                g = rand_pair(rng, n, style)
            else:
                a, b = rng.sample(used, 2); g = (a, b)
            rep = rng.choice([1, 1, 2, 3]) if family in ("pairs", "local") else 1
            pat += [g] * rep
            if family in ("pairs", "local") and rng.random() < 0.3:
                pat.append((g[1], g[0]))
    pat = pat[:L]
    if family in ("runs", "trailing") and pat:
        q = rng.choice(used)
        k = rng.randint(2, 6)
        pat = (pat[:max(0, L - k)] + [(q,)] * k)
    if family == "tail" and pat:
        # a long trailing part of one-qubit gates on several qubits after the last two-qubit gate (level 4)
        k = rng.randint(2, max(2, min(12, L - 1)))
        tail = []
        while len(tail) < k:
            q = rng.choice(used)
            if not tail or tail[-1] != (q,) or rng.random() < 0.2:
                tail.append((q,))
        pat = pat[:max(0, L - k)] + tail
    return n, pat


FAMILIES = ["generic", "generic", "runs", "trailing", "noq2", "noq2idle", "idle", "reversed", "distant", "window",
            "window", "local", "pairs", "tail", "tail", "digits"]


# ------------------------------------------------------------------ the real code
def run_optimizer(level, n, items, nq=None):
    from quantum_gates._utility.circ_optimizer import Optimizer
    arg = copy.deepcopy(items)        # the optimizer rewrites [q,-1] in place: that is C11's business, not C02's
    try:
        out = Optimizer(level_opt=level, circ_list=arg, qubit_list=list(range(n if nq is None else nq))).optimize()
    except Exception as e:                                     # noqa
        return {"err": type(e).__name__}, None
    return None, out


def run_backend(n, items, psi0, twice=False):
    """twice: the SAME list object is evaluated a second time (a new backend object); the second state is returned"""
    from quantum_gates._simulation.backend import BinaryBackend
    try:
        arg = copy.deepcopy(items)
        out = BinaryBackend(n).statevector(arg, np.array(psi0, dtype=complex))
        if twice:
            out = BinaryBackend(n).statevector(arg, np.array(psi0, dtype=complex))
    except Exception as e:                                     # noqa
        return {"err": type(e).__name__}, None
    return None, np.asarray(out)


def near_identity_case(seed):
    """float family (not sent to the exact model): lists that contain one-qubit gates very close to - but different from -
    the identity (small phase, weak damping, tiny rotation).  Fusion and the backend must treat them like any other
    gate: the result has to agree with applying the items one after another to 1e-11 (relative), far below the size of
    the gates' effect.  Returns None or (description, failure text)."""
    import random
    rng = random.Random(seed)
    n = rng.randint(2, 4)
    items, eff = [], 1.0
    for _ in range(rng.randint(4, 9)):
        if rng.random() < 0.5:
            q, e = rng.randrange(n), rng.choice([8e-6, 3e-7, 1e-9])
            M = rng.choice([np.diag([1, np.exp(1j * e)]), np.diag([1, 1 - e]),
                            np.array([[np.cos(e), -np.sin(e)], [np.sin(e), np.cos(e)]], dtype=complex)])
            items.append([np.array(M, dtype=complex), [q, -1] if rng.random() < 0.5 else [q]])
            eff = min(eff, e)
        elif rng.random() < 0.6 or n < 2:
            items.append([np.array([[rng.randint(-2, 2) + 1j * rng.randint(-1, 1) for _ in range(2)] for _ in range(2)], dtype=complex),
                          [rng.randrange(n)]])
        else:
            a, b = rng.sample(range(n), 2)
            items.append([np.array([[rng.randint(-1, 2) + 1j * rng.randint(-1, 1) for _ in range(4)] for _ in range(4)], dtype=complex), [a, b]])
    psi0 = [complex(rng.randint(-2, 2), rng.randint(-1, 1)) for _ in range(2 ** n)]
    if not any(psi0):
        psi0[0] = 1
    desc = f"n={n}, {len(items)} items on {[list(map(int, q)) for _, q in items]} with near-identity gates (smallest effect {eff:g})"
    want = ref_fold(n, items, np.array(psi0, dtype=complex)[:, None])[:, 0]
    scale = max(1.0, float(np.max(np.abs(want))))
    err, out = run_backend(n, items, psi0)
    if err is not None:
        return desc, f"BinaryBackend.statevector raised {err['err']}"
    if out.shape != want.shape or float(np.max(np.abs(out - want))) > 1e-11 * scale:
        return desc, (f"BinaryBackend.statevector differs from applying the items one after another by "
                      f"{float(np.max(np.abs(out - want))) / scale:.3e} (relative); a gate close to the identity was not applied")
    X = np.eye(2 ** n, dtype=complex)
    ref = ref_fold(n, items, X)
    sc = max(1.0, float(np.max(np.abs(ref))))
    for lvl in LEVELS:
        e, o = run_optimizer(lvl, n, items)
        if e is not None:
            return desc, f"Optimizer level {lvl} raised {e['err']}"
        got = ref_fold(n, [[np.asarray(m, dtype=complex), list(q)] for m, q in o], X)
        if float(np.max(np.abs(got - ref))) > 1e-11 * sc:
            return desc, f"Optimizer level {lvl}: the returned list differs from its input as an operator by {float(np.max(np.abs(got - ref))) / sc:.3e} (relative)"
    return None


def edited_list_case(seed):
    """sequence family: ONE backend object and ONE list object, evaluated, edited in place (an item replaced, an item's matrix
    exchanged, pop + append, an item inserted, a pair reversed) and evaluated again - every evaluation has to return the state
    of the list as it is at that moment.  Also an Optimizer per step on the same list object.  Exact integer data.
    Returns None or (description, failure text)."""
    import random
    from quantum_gates._simulation.backend import BinaryBackend
    rng = random.Random(seed)
    n = rng.randint(1, 4)

    def item():
        if n >= 2 and rng.random() < 0.4:
            a, b = rng.sample(range(n), 2)
            return [rand_dense(rng, 4) if rng.random() < 0.5 else rand_monomial(rng, 4), [a, b]]
        return [rand_dense(rng, 2) if rng.random() < 0.6 else rand_monomial(rng, 2), [rng.randrange(n)]]

    items = [item() for _ in range(rng.randint(1, 7))]
    psi0 = [complex(rng.randint(-2, 2), rng.randint(-1, 1)) for _ in range(2 ** n)]
    if not any(psi0):
        psi0[0] = 1
    be = BinaryBackend(n)
    steps = []
    for step in range(rng.randint(2, 5)):
        if step:
            kind = rng.choice(["replace-item", "exchange-matrix", "pop-append", "insert", "edit-matrix-in-place", "same"])
            i = rng.randrange(len(items))
            if kind == "replace-item":
                items[i] = item()
            elif kind == "exchange-matrix":
                d = items[i][0].shape[0]
                items[i][0] = rand_dense(rng, d)
            elif kind == "pop-append":
                items.pop(i); items.append(item())
            elif kind == "insert":
                items.insert(i, item())
            elif kind == "edit-matrix-in-place":
                items[i][0][rng.randrange(2), rng.randrange(2)] += rng.choice([1, -1, 1j])
            steps.append(kind)
        desc = (f"one BinaryBackend({n}) and one list object, evaluated after the edits {steps}: list now "
                f"{[[jmat(m), [int(x) for x in q]] for m, q in items]}, psi0 = {[[int(z.real), int(z.imag)] for z in psi0]}")
        want = ref_fold(n, items, np.array(psi0, dtype=complex)[:, None])[:, 0]
        try:
            out = np.asarray(be.statevector(items, np.array(psi0, dtype=complex)))
        except Exception as e:                                 # noqa
            return desc, f"statevector raised {type(e).__name__} on a well-formed list"
        if out.shape != want.shape or not same(out, want)[0]:
            return desc, (f"evaluation {step + 1} returned {[[float(z.real), float(z.imag)] for z in out]}, applying the items of the "
                          f"current list one after another gives {[[float(z.real), float(z.imag)] for z in want]}")
        if rng.random() < 0.5:
            lvl = rng.choice(LEVELS)
            e, o = None, None
            from quantum_gates._utility.circ_optimizer import Optimizer
            X = np.eye(2 ** n, dtype=complex)
            ref = ref_fold(n, items, X)
            try:
                o = Optimizer(level_opt=lvl, circ_list=items, qubit_list=list(range(n))).optimize()
            except Exception as ex:                            # noqa
                return desc, f"Optimizer level {lvl} raised {type(ex).__name__}"
            if not same(ref_fold(n, [[np.asarray(m, dtype=complex), list(q)] for m, q in o], X), ref)[0]:
                return desc, f"Optimizer level {lvl} on the same list object: the returned list is not equivalent to the list"
            if not same(ref_fold(n, items, X), ref)[0]:
                return desc, f"Optimizer level {lvl} changed what the caller's list computes (a matrix of the input list was overwritten)"
    return None


# ------------------------------------------------------------------ comparison with the model
def items_match(out, model_items):
    """exact diff of the returned list against the model's list (matrices and qubit lists)"""
    if len(out) != len(model_items):
        return False, True
    exact_all = True
    for it, (mm, mq) in zip(out, model_items):
        try:
            q = [int(x) for x in it[1]]
            A = np.asarray(it[0], dtype=complex)
        except Exception:                                     # noqa
            return False, True
        if q != mq:
            return False, True
        B = np.array([[complex(a, b) for a, b in row] for row in mm], dtype=complex)
        if A.shape != B.shape:
            return False, True
        eq, exact = same(A, B)
        exact_all &= exact
        if not eq:
            return False, exact_all
    return True, exact_all


def safe_jitems(out):
    try:
        return [[jmat(i[0]), [int(x) for x in i[1]]] for i in out]
    except Exception:                                         # noqa
        return repr(out)[:400]


def vec_match(v, model_vec):
    B = np.array([complex(a, b) for a, b in model_vec], dtype=complex)
    if v.shape != B.shape:
        return False, True
    return same(v, B)


# ------------------------------------------------------------------ classes of failing inputs
def norm_pattern(items):
    return [oracle_qubits(q) for _, q in items]


def collapse_runs(pat):
    out = []
    for q in pat:
        if len(q) == 1 and out and out[-1] == q:
            continue
        out.append(q)
    return out


def has_lone_gate_window(pat):
    """a two-qubit gate (a,b) with a one-qubit gate on b directly in front of it and, directly after it,
    exactly one one-qubit gate (then a two-qubit gate or the end), on a qubit other than a and b —
    computed on the windows level 2 forms (each two-qubit gate takes at most two following gates)"""
    p = collapse_runs(pat)
    i, start = 0, 0
    while i < len(p):
        if len(p[i]) == 2:
            before = p[start:i]
            after = []
            j = i + 1
            while j < len(p) and len(p[j]) == 1 and len(after) < 2:
                after.append(p[j]); j += 1
            if len(after) == 1 and before and before[-1][0] == p[i][1] and after[0][0] not in p[i]:
                return True
            start = j
            i = j
        else:
            i += 1
    return False


def index_slip_sensitive(pat):
    """some level-2 window has a gate in front of its two-qubit gate (a,b) and exactly one gate after it, and reading
    `snippet[loc-1]` instead of `snippet[loc+1]` changes the outcome of the test `… == b`"""
    p = collapse_runs(pat)
    i, start = 0, 0
    while i < len(p):
        if len(p[i]) == 2:
            before = p[start:i]
            after = []
            j = i + 1
            while j < len(p) and len(p[j]) == 1 and len(after) < 2:
                after.append(p[j]); j += 1
            if (len(after) == 1 and before and after[0][0] != p[i][0]
                    and (before[-1][0] == p[i][1]) != (after[0][0] == p[i][1])):
                return True
            start = j
            i = j
        else:
            i += 1
    return False


def shape_of(n, items, kind, level):
    pat = norm_pattern(items)
    two = [q for q in pat if len(q) == 2]
    if kind == "IndexError":
        if level >= 1 and len(pat) >= 3 and len(pat[-1]) == 1 and pat[-1] == pat[-2]:
            return "trailing-same-qubit-run"
        if level == 4 and not two and set(range(n)) - {q[0] for q in pat}:
            return "no-two-qubit-gate-and-a-qubit-without-gate"
    if kind == "operator-differs" and level >= 2 and has_lone_gate_window(pat):
        return "lone-gate-after-two-qubit-gate-with-gate-on-second-qubit-in-front"
    return "unclassified"


def describe(items):
    return "[" + ", ".join("M%d%s" % (i, list(q)) for i, (_, q) in enumerate(items)) + "]"


def jitems(items):
    return [[jmat(M), [int(x) for x in q]] for M, q in items]


# ------------------------------------------------------------------ oracle on one case
def sharing(items):
    """for every item the index of the first item holding the same matrix OBJECT"""
    first = {}
    return [first.setdefault(id(it[0]), i) for i, it in enumerate(items)]


def columns_for(rng, n):
    if n <= DENSE_NMAX:
        return np.eye(2 ** n, dtype=complex)
    X = np.zeros((2 ** n, 4), dtype=complex)
    X[0, 0] = 1
    X[:, 1] = 1
    for c in (2, 3):
        X[:, c] = [rng.choice([0, 1, -1, 1j, 2 - 1j]) for _ in range(2 ** n)]
    return X


def oracle_optimizer(n, items, err, out, X, ref_in):
    """None or (kind, text)"""
    if err is not None:
        return (err["err"], f"raised {err['err']} on a well-formed list")
    bad = well_formed_out(n, out)
    if bad:
        return ("malformed-output", bad)
    if len(out) > len(items):
        return ("longer", f"returned {len(out)} items for {len(items)}")
    got = ref_fold(n, out, X)
    eq, _ = same(got, ref_in)
    if not eq:
        return ("operator-differs", "the returned list is not equivalent to its input as a linear operator")
    return None


# ------------------------------------------------------------------ main
def main(ctx):
    t_start = time.time()
    lean = ctx.lean("QG.Props.C02")
    rng = ctx.rng
    cov = ctx.coverage

    # ---- cases --------------------------------------------------------------------------------------
    opt_cases = []          # (family, n, items)
    for n, pat in CORPUS:
        opt_cases.append(("corpus", n, materialise(rng, pat, 0.8)))
    for n, pat in gen_exhaustive(ctx):
        opt_cases.append(("exhaustive", n, materialise(rng, pat, 0.7)))
    n_random = 6000 if ctx.thorough else 700
    for k in range(n_random):
        fam = FAMILIES[k % len(FAMILIES)]
        n, pat = gen_random_pattern(rng, fam, 13, 60)
        opt_cases.append((fam, n, materialise(rng, pat, 0.08 if len(pat) > 12 else 0.4)))

    # backend cases: every corpus case, a slice of the exhaustive scope, random lists; n up to 12
    be_cases = []           # (family, n, items, psi0)
    def psi_for(n):
        return [rng.choice([0, 1, -1, 1j, 1 + 1j, 2, -1j]) for _ in range(2 ** n)]
    for fam, n, items in opt_cases:
        if fam == "corpus" or (fam == "exhaustive" and (ctx.thorough or len(items) <= 3 or rng.random() < 0.25)):
            be_cases.append((fam, n, items, psi_for(n)))
    n_be_random = 1500 if ctx.thorough else 170
    for k in range(n_be_random):
        fam = FAMILIES[k % len(FAMILIES)]
        big = (k % 17 == 0)
        n, pat = gen_random_pattern(rng, fam, 13 if big else 8, 10 if big else 40)
        if big:
            n = rng.choice([9, 10, 11, 12]) if ctx.thorough else rng.choice([9, 10, 12])
            pat = [q for q in pat if all(x < n for x in q)] or [(n - 1,), (0, n - 1), (n - 2,)]
            _, pat2 = gen_random_pattern(rng, fam, n, 8)
            pat = (pat + [tuple(min(x, n - 1) for x in q) for q in pat2])[:8]
            pat = [q for q in pat if len(q) == 1 or q[0] != q[1]]
        be_cases.append((fam, n, materialise(rng, pat, 0.1 if len(pat) > 12 else 0.4), psi_for(n)))

    # malformed stream (outside the property; checks the error branches of the correspondence).  Either the level is
    # refused by the constructor or the list has at most two items, so that no fusion level runs and D1-D3 cannot interfere.
    A2, A4 = rand_monomial(rng, 2), rand_monomial(rng, 4)
    mal_opt = [(lvl, 2, [[A2, [0]], [A2, [1]], [A4, [0, 1]]]) for lvl in (-1, 5, 7, -3)]
    # outside the hypothesis `n <= len(qubit_list)` of optimize_sem: a qubit_list shorter than the register makes
    # level 4 drop trailing gates on the uncovered qubits (model and code must agree on that, too); a longer one is fine
    B2 = rand_dense(rng, 2)
    short_layout = [(4, 4, 2, [[A4, [0, 1]], [A2, [2]], [B2, [3]], [B2, [0]]]),
                    (4, 4, 3, [[A4, [1, 0]], [A2, [3]], [B2, [2]], [A2, [3]], [B2, [1]]]),
                    (3, 4, 7, [[A4, [2, 0]], [A2, [3]], [B2, [1]], [A2, [3]], [B2, [1]]]),
                    (4, 3, 2, [[A4, [0, 2]], [A2, [1]], [B2, [2]], [A2, [1]]])]
    mal_be = [(2, [], [1, 0, 0, 0]), (2, [[A2, [5]]], [1, 0, 0, 0]), (2, [[A4, [1, 1]]], [1, 0, 0, 0]),
              (2, [[A2, [0]]], [1, 0, 0]), (1, [[A2, [0]], [A2, [0, -1]]], [1, 2, 3]), (3, [[A4, [0, 3]]], [1] * 8),
              (2, [[A4, [0, 1]]], [1, 0])]

    # ---- real code + oracle ---------------------------------------------------------------------------
    reqs, expect = [], []          # driver requests, and how to compare each answer
    failures = []                  # oracle failures on the real code
    inexact = 0
    seen, nontrivial = set(), set()
    hist_n, hist_len, hist_family, err_kinds = {}, {}, {}, {}
    t0 = time.time()
    for ci, (fam, n, items) in enumerate(opt_cases):
        X = columns_for(rng, n)
        ref_in = ref_fold(n, items, X)
        impl = []
        for lvl in LEVELS:
            err, out = run_optimizer(lvl, n, items)
            impl.append((err, out))
            ctx.count()
            bad = oracle_optimizer(n, items, err, out, X, ref_in)
            if err is not None:
                err_kinds[err["err"]] = err_kinds.get(err["err"], 0) + 1
            if bad:
                failures.append({"op": "optimize", "level": lvl, "n": n, "items": items, "kind": bad[0], "text": bad[1],
                                 "family": fam})
        reqs.append({"op": "optimize", "levels": LEVELS, "n": n, "items": jitems(items)})
        expect.append(("opt", ci, impl))
        hist_n[n] = hist_n.get(n, 0) + 1
        hist_len[len(items)] = hist_len.get(len(items), 0) + 1
        hist_family[fam] = hist_family.get(fam, 0) + 1
    t_opt = time.time() - t0

    t0 = time.time()
    opt_fail_keys = {(id(f["items"])) for f in failures if f["level"] == 4}
    be_explained = 0
    twice_failures = []
    for bi, (fam, n, items, psi0) in enumerate(be_cases):
        err, out = run_backend(n, items, psi0)
        ctx.count()
        want = ref_fold(n, items, np.array(psi0, dtype=complex)[:, None])[:, 0]
        bad = None
        if err is not None:
            bad = (err["err"], f"BinaryBackend.statevector raised {err['err']} on a well-formed list")
            err_kinds["backend:" + err["err"]] = err_kinds.get("backend:" + err["err"], 0) + 1
        else:
            eq, exact = same(out, want) if out.shape == want.shape else (False, True)
            inexact += 0 if exact else 1
            if not eq:
                bad = ("state-differs", "the returned state is not the state obtained by applying the items one after another")
        if bad is None and bi % 3 == 0:
            # the same list object evaluated a second time computes the same state (nothing the first evaluation did to the
            # list may change what the list computes)
            err2, out2 = run_backend(n, items, psi0, twice=True)
            ctx.count()
            if err2 is not None or out2.shape != want.shape or not same(out2, want)[0]:
                twice_failures.append({"op": "statevector-twice", "level": 4, "n": n, "items": items, "psi": psi0, "kind": "second-evaluation-differs",
                                       "text": "a second evaluation of the same list object " + (f"raised {err2['err']}" if err2 else
                                               "does not return the state obtained by applying the items one after another"), "family": fam})
        if bad:
            # explained by the optimizer (the backend always fuses at level 4)?
            e4, o4 = run_optimizer(4, n, items)
            X = columns_for(rng, n)
            if oracle_optimizer(n, items, e4, o4, X, ref_fold(n, items, X)) is not None:
                be_explained += 1
                if id(items) not in opt_fail_keys:
                    k4 = oracle_optimizer(n, items, e4, o4, X, ref_fold(n, items, X))
                    failures.append({"op": "optimize", "level": 4, "n": n, "items": items, "kind": k4[0], "text": k4[1],
                                     "family": fam})
            else:
                failures.append({"op": "statevector", "level": 4, "n": n, "items": items, "psi": psi0, "kind": bad[0],
                                 "text": bad[1], "family": fam})
        reqs.append({"op": "binary_statevector", "n": n, "items": jitems(items),
                     "psi": [[int(complex(z).real), int(complex(z).imag)] for z in psi0]})
        expect.append(("be", bi, (err, out)))
        hist_n[f"backend n={n}"] = hist_n.get(f"backend n={n}", 0) + 1
    t_be = time.time() - t0

    for lvl, n, items in mal_opt:
        err, out = run_optimizer(lvl, n, items)
        reqs.append({"op": "optimize", "levels": [lvl], "n": n, "items": jitems(items)})
        expect.append(("mal-opt", None, [(err, out)]))
        ctx.count()
    dropped = 0
    for lvl, n, nq, items in short_layout:
        err, out = run_optimizer(lvl, n, items, nq=nq)
        reqs.append({"op": "optimize", "levels": [lvl], "n": n, "nq": nq, "items": jitems(items)})
        expect.append(("mal-opt", None, [(err, out)]))
        ctx.count()
        if err is None and nq < n:
            X = np.eye(2 ** n, dtype=complex)
            dropped += 0 if same(ref_fold(n, out, X), ref_fold(n, items, X))[0] else 1
    cov["lists_changed_when_qubit_list_is_shorter_than_the_register"] = f"{dropped} of {sum(1 for c in short_layout if c[2] < c[1])}"
    for n, items, psi0 in mal_be:
        err, out = run_backend(n, items, psi0)
        reqs.append({"op": "binary_statevector", "n": n, "items": jitems(items),
                     "psi": [[int(complex(z).real), int(complex(z).imag)] for z in psi0]})
        expect.append(("mal-be", None, (err, out)))
        ctx.count()

    # ---- the model ------------------------------------------------------------------------------------------
    t0 = time.time()
    answers = core.Driver(ctx.pid).batch(reqs)
    t_model = time.time() - t0

    mismatches = []
    level_changes = {str(l): 0 for l in LEVELS}
    for req, (kind, idx, impl), ans in zip(reqs, expect, answers):
        if "bad" in ans:
            mismatches.append({"request": req, "model": ans, "why": "driver rejected the request"}); continue
        if kind in ("opt", "mal-opt"):
            prev_len = None
            for lvl, (err, out), m in zip(req["levels"], impl, ans["ok"]):
                if err is not None or "err" in m:
                    if err != m:
                        mismatches.append({"op": "optimize", "level": lvl, "n": req["n"], "items": req["items"],
                                           "impl": err or "returned a list", "model": m if "err" in m else "returned a list"})
                    continue
                eq, exact = items_match(out, m["ok"])
                inexact += 0 if exact else 1
                if not eq:
                    mismatches.append({"op": "optimize", "level": lvl, "n": req["n"], "items": req["items"],
                                       "impl": safe_jitems(out),
                                       "model": m["ok"]})
                if kind == "opt":
                    L = len(m["ok"])
                    if prev_len is not None and L < prev_len:
                        level_changes[str(lvl)] += 1
                    prev_len = L
            if kind == "opt":
                key = json.dumps([req["n"], [q for _, q in req["items"]]])
                if key not in seen:
                    seen.add(key)
                    lens = [len(m["ok"]) for m in ans["ok"] if "ok" in m]
                    if lens and min(lens) < len(req["items"]):
                        nontrivial.add(key)
        else:
            err, out = impl
            if err is not None or "err" in ans:
                if err != ans:
                    mismatches.append({"op": "statevector", "n": req["n"], "items": req["items"], "psi": req["psi"],
                                       "impl": err or "returned a vector", "model": ans if "err" in ans else "returned a vector"})
                continue
            eq, exact = vec_match(out, ans["ok"])
            inexact += 0 if exact else 1
            if not eq:
                mismatches.append({"op": "statevector", "n": req["n"], "items": req["items"], "psi": req["psi"],
                                   "impl": [[z.real, z.imag] for z in out.tolist()][:64], "model": ans["ok"][:64]})

    # ---- evidence -------------------------------------------------------------------------------------------
    cov["distinct_nontrivial"] = len(nontrivial)
    cov["rule"] = ("gate lists = corpus of designed windows, every qubit-index pattern in the exhaustive scope, seeded random "
                   "lists up to n=12, len=60 in forced families (" + ", ".join(sorted(set(FAMILIES))) + "); each list runs at "
                   "the levels 0..4; non-trivial = distinct (n, qubit pattern) on which at least one level returns a shorter "
                   "list (some fusion branch acted)")
    cov["optimizer_lists"] = len(opt_cases)
    cov["optimizer_calls"] = len(opt_cases) * len(LEVELS)
    cov["backend_cases"] = len(be_cases)
    cov["malformed_cases"] = len(mal_opt) + len(mal_be) + len(short_layout)
    cov["traces_validated_against_impl"] = len(reqs)
    cov["correspondence_mismatches"] = len(mismatches)
    cov["oracle_failures_on_real_code"] = len(failures)
    cov["backend_failures_explained_by_optimizer"] = be_explained
    cov["compared_with_tolerance_instead_of_exactly"] = inexact
    cov["lists_on_which_level_k_shortens_further_than_level_k-1"] = level_changes
    cov["histogram_n"] = {str(k): v for k, v in sorted(hist_n.items(), key=lambda kv: str(kv[0]))}
    cov["histogram_len"] = {str(k): v for k, v in sorted(hist_len.items())}
    cov["histogram_family"] = hist_family
    cov["error_kinds_seen_on_real_code"] = err_kinds
    cov["timing_s"] = {"optimizer+oracle": round(t_opt, 1), "backend+oracle": round(t_be, 1), "model_driver": round(t_model, 1)}
    cov["trusted_base"] += [
        "hand-written models QG/Model/Optimizer.lean and QG/Model/Binary.lean (the code after the repairs D1-D3), tied by exact "
        "differential correspondence with Optimizer.optimize (levels 0..4) and BinaryBackend.statevector on every case of this run",
        "numpy's @, kron, identity and scipy's coo_matrix/csr dot (duplicates summed) as modelled by MatOps / the triplet sum; "
        "Python's format(x,'0Wb'), int(s,2), list.remove as modelled by fmtBin / intOfBits / removeE",
        "the theorems optimize_sem_gint / binary_spec_gint are about exactly the functions the driver executes (list-of-rows "
        "matrices, Gaussian integers as Int x Int); what remains trusted on the Lean side of the tie is the JSON decoding / "
        "printing in QG/Driver/C02.lean and the compilation of the model to native code",
        "for n > %d the operator oracle compares the action on 4 integer columns instead of the full 2^n x 2^n operator" % DENSE_NMAX,
    ]
    ctx.assumptions += [
        "well-formed list: one-qubit items [q] or [q,-1] with a 2x2 matrix, two-qubit items [q1,q2] with a 4x4 matrix, "
        "q1 != q2, all qubits < n; qubit_list = list(range(n)) (only its length is used by the optimizer; optimize_sem needs "
        "n <= len(qubit_list): with a shorter qubit_list level 4 silently drops trailing gates on the uncovered qubits, which the "
        "malformed stream exercises and the evidence counts)",
        "rounding of @ / kron on non-integer data is outside the theorems (they are over a commutative semiring); the "
        "correspondence uses integer data on which numpy is exact (cases above 2^52 are compared to 1e-9 and counted)",
        "in-place rewriting of [q,-1] in the caller's list is C11's subject; the check passes deep copies",
    ]
    for fam, n, items in opt_cases[:2] + opt_cases[len(CORPUS) + 50:len(CORPUS) + 52] + opt_cases[-2:]:
        ctx.sample({"n": n, "qubits": [list(q) for _, q in items][:12], "len": len(items), "family": fam})

    # ---- decide ---------------------------------------------------------------------------------------------
    classes = {}
    for f in failures:
        shape = shape_of(f["n"], f["items"], f["kind"], f["level"])
        key = (f["op"], f["kind"], shape)
        classes.setdefault(key, []).append(f)
    cov["failure_classes"] = {" / ".join(k): len(v) for k, v in classes.items()}
    printed = {}
    for (op, kind, shape), fs in sorted(classes.items(), key=lambda kv: kv[0]):
        # one record per list (at its lowest failing level), smallest inputs first
        best = {}
        for f in fs:
            k = id(f["items"])
            if k not in best or f["level"] < best[k]["level"]:
                best[k] = f
        ordered = sorted(best.values(), key=lambda f: (len(f["items"]), f["n"], f["level"]))
        chosen = ordered[:3]
        # a long list contains every window by chance: minimise a few long members of the class as well and
        # classify the minimised input, so that a different cause is not hidden under this class's label
        probes = [f for f in ordered[3:] if len(f["items"]) > 6][:3]
        for f0 in chosen + probes:
            f = shrink(f0)
            shape2 = shape_of(f["n"], f["items"], kind, f["level"])
            if any(f0 is p for p in probes) and shape2 == shape:
                continue
            if printed.get((op, kind, shape2), 0) >= 3:
                continue
            printed[(op, kind, shape2)] = printed.get((op, kind, shape2), 0) + 1
            sig = {"op": op, "defect-shape": shape2, "error": kind}
            replay_obj = {"op": op, "level": f["level"], "n": f["n"], "items": jitems(f["items"]), "failure": f["text"],
                          "lists_in_this_class": len(best)}
            if op == "statevector":
                replay_obj["psi"] = [[int(complex(z).real), int(complex(z).imag)] for z in f["psi"]]
            sh = sharing(f["items"])
            if sh != list(range(len(sh))):
                replay_obj["same_object_as"] = sh
            call = (f"Optimizer({f['level']}, {describe(f['items'])}, range({f['n']})).optimize()" if op == "optimize"
                    else f"BinaryBackend({f['n']}).statevector({describe(f['items'])}, psi0)")
            ctx.violation(sig, replay_obj, f"{call}: {f['text']} [{shape2}]")
    for f in sorted(twice_failures, key=lambda f: (len(f["items"]), f["n"]))[:3]:
        replay_obj = {"op": "statevector-twice", "level": 4, "n": f["n"], "items": jitems(f["items"]), "failure": f["text"],
                      "psi": [[int(complex(z).real), int(complex(z).imag)] for z in f["psi"]], "same_object_as": sharing(f["items"]),
                      "lists_in_this_class": len(twice_failures)}
        ctx.violation({"op": "statevector-twice", "error": f["kind"]}, replay_obj,
                      f"BinaryBackend({f['n']}).statevector({describe(f['items'])}, psi0), then the same call on the same list object: {f['text']}")
    cov["second_evaluation_failures"] = len(twice_failures)
    # float family: gates close to the identity
    ni_bad = None
    for k in range(60 if ctx.thorough else 12):
        sd = ctx.seed * 65537 + k
        r = near_identity_case(sd)
        ctx.count()
        if r is not None and ni_bad is None:
            ni_bad = (sd, r)
    cov["near_identity_cases"] = 60 if ctx.thorough else 12
    if ni_bad:
        sd, (desc, text) = ni_bad
        ctx.violation({"op": "near-identity", "error": "gate-dropped"}, {"mode": "near-identity", "seed": sd, "case": desc, "failure": text},
                      f"{desc}: {text}")
    # sequence family: one backend object, one list object, edited between evaluations
    ed_bad = None
    ned = 150 if ctx.thorough else 40
    for k in range(ned):
        sd = ctx.seed * 92821 + k
        r = edited_list_case(sd)
        ctx.count()
        if r is not None and ed_bad is None:
            ed_bad = (sd, r)
    cov["edited_list_sequences"] = ned
    if ed_bad:
        sd, (desc, text) = ed_bad
        ctx.violation({"op": "edited-list", "error": "stale-or-overwritten"}, {"mode": "edited-list", "seed": sd, "case": desc, "failure": text},
                      f"{desc}: {text}")
    if not failures and not ni_bad and not twice_failures and not ed_bad:
        if mismatches:
            ctx.violation({"kind": "correspondence"},
                          {"first": mismatches[0], "count": len(mismatches),
                           "broken": "correspondence circ_optimizer.py / BinaryBackend vs QG.Model.Optimizer / QG.Model.Binary"},
                          f"model and implementation disagree on {len(mismatches)} case(s) although the property's oracle "
                          "passes on every explored list", no_failing_input=True)
        if not lean.ok:
            ctx.violation({"kind": "proof"}, {"broken": lean.failed},
                          "Lean obligations of C02 do not check; the oracle passes on every explored list",
                          no_failing_input=True)
    elif mismatches:
        # The model describes the repaired code, so on a tree where the oracle fails it disagrees with the code at the
        # failing inputs.  D2 (the `loc-1` slip) additionally makes the code *miss* a fusion on inputs where the result is
        # still equivalent; those disagreements are attributed to the D2 class when that class fails in this run.
        failing = {json.dumps(jitems(f["items"])) for f in failures}
        d2_seen = any(k[2].startswith("lone-gate-after") for k in classes)
        other, explained = [], 0
        for m in mismatches:
            if json.dumps(m.get("items")) in failing:
                continue
            pat = [oracle_qubits(q) for _, q in (m.get("items") or [])]
            if d2_seen and m.get("op") == "optimize" and m.get("level", 0) >= 2 and index_slip_sensitive(pat):
                explained += 1
                continue
            if d2_seen and m.get("op") == "statevector":       # the backend returns states, which agree when equivalent
                continue
            other.append(m)
        cov["mismatches_at_equivalent_results_explained_by_the_loc-1_slip"] = explained
        cov["mismatches_not_explained_by_an_oracle_failure"] = len(other)
        if other:
            ctx.violation({"kind": "correspondence"}, {"first": other[0], "count": len(other)},
                          f"model and implementation disagree on {len(other)} case(s) where the oracle passes",
                          no_failing_input=True)
    if failures and not lean.ok:
        cov["note_proofs"] = "Lean obligations do not check (see broken_obligations)"
    cov["timing_s"]["total_check"] = round(time.time() - t_start, 1)


def still_fails(f, items):
    n = f["n"]
    if len(items) == 0:
        return False
    if f["op"] == "optimize":
        X = np.eye(2 ** n, dtype=complex) if n <= 8 else columns_for(__import__("random").Random(0), n)
        err, out = run_optimizer(f["level"], n, items)
        bad = oracle_optimizer(n, items, err, out, X, ref_fold(n, items, X))
        return bad is not None and bad[0] == f["kind"]
    err, out = run_backend(n, items, f["psi"])
    if err is not None:
        return f["kind"] == err["err"]
    want = ref_fold(n, items, np.array(f["psi"], dtype=complex)[:, None])[:, 0]
    return f["kind"] == "state-differs" and not same(out, want)[0]


def shrink(f):
    """greedy: drop items while the same kind of failure persists (only for long random lists)"""
    items = list(f["items"])
    if len(items) <= 6:
        return f
    changed = True
    while changed and len(items) > 1:
        changed = False
        for i in range(len(items)):
            cand = items[:i] + items[i + 1:]
            if still_fails(f, cand):
                items = cand; changed = True
                break
    g = dict(f); g["items"] = items
    return g


def replay(ctx, path):
    rp = json.load(open(path))["replay"]
    if rp.get("mode") == "near-identity":
        r = near_identity_case(rp["seed"])
        print("near-identity case:", r or "holds"); return 1 if r else 0
    if rp.get("mode") == "edited-list":
        r = edited_list_case(rp["seed"])
        print("edited-list sequence:", r or "holds"); return 1 if r else 0
    if "items" not in rp:
        print("replay names a broken obligation / correspondence, no input to re-run:", json.dumps(rp)[:600]); return 1
    n, level = rp["n"], rp["level"]
    items = [[to_np(m), list(q)] for m, q in rp["items"]]
    for i, j in enumerate(rp.get("same_object_as", [])):
        items[i][0] = items[j][0]              # one matrix object used by several items
    print(f"input: n={n} level={level} items={describe(items)}" + (f"  same matrix object: {rp['same_object_as']}" if "same_object_as" in rp else ""))
    for i, (m, q) in enumerate(rp["items"]):
        print(f"  M{i} = {m}  on {q}")
    if rp["op"] == "optimize":
        X = np.eye(2 ** n, dtype=complex) if n <= 8 else columns_for(__import__("random").Random(0), n)
        err, out = run_optimizer(level, n, items)
        bad = oracle_optimizer(n, items, err, out, X, ref_fold(n, items, X))
        print("implementation:", err if err else [[jmat(i[0]), [int(x) for x in i[1]]] for i in out])
    else:
        psi0 = [complex(a, b) for a, b in rp["psi"]]
        err, out = run_backend(n, items, psi0, twice=(rp["op"] == "statevector-twice"))
        want = ref_fold(n, items, np.array(psi0, dtype=complex)[:, None])[:, 0]
        bad = None
        if err is not None:
            bad = (err["err"], f"raised {err['err']}")
        elif not same(out, want)[0]:
            bad = ("state-differs", f"returned {out.tolist()} expected {want.tolist()}")
        print("implementation:", err if err else out.tolist())
    print("oracle:", bad[1] if bad else "holds")
    return 1 if bad else 0
