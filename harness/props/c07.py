"""C07 — zero noise gives the ideal gate exactly; unitary noise gives unitary samples.

Tie: translator (factories.py + gates.py source text -> IR -> lean/QG/Gen/{Factories,GateSets}.lean, regenerated on every
run) + translation validation (literal and poly-mode IR evaluated against the real construct under injected samples).
Lean: QG.Props.C07 (zero_noise_* for every elementary and composite gate and every gate set, *_unitary at T1 = 0).
Oracle: the statement evaluated numerically on real samples of every gate set.
"""
import json, math
import numpy as np
from qgv import core, gatecheck as gc

TG = 35e-9


def derived_pcr(gate, p2, pc, pt):
    k = 3 if gate == "CNOT_inv" else 1
    x = (1 - 0.75 * p2) ** 2 / ((1 - 0.75 * pc) ** 2 * (1 - 0.75 * pt) ** k)
    return (4 / 3) * (1 - x ** 0.25) if x >= 0 else float("nan")


def make_args(gate, rng, mode):
    """mode: 'zero' (all noise parameters zero) | 'unitary' (T1 = 0, the rest on) | 'r2' (derived CR error negative)"""
    out = {}
    for a in gc.GATE_ARGS[gate]:
        if a == "theta":
            # incl. the zero set of the theta denominators (0.0, -0.0) and the small-angle regime of the covariance matrices
            # ... and angles of more than one turn (the rotation has period 4 pi, not 2 pi)
            v = rng.choice([rng.uniform(-7, 7), math.pi, -math.pi / 2, math.pi / 4, 0.0, -0.0, rng.uniform(-6e-4, 6e-4),
                            rng.uniform(-1e-6, 1e-6), rng.choice([2 * math.pi + 0.3, -3 * math.pi, 4 * math.pi + 1.0, 9.0, -2 * math.pi,
                                                                  rng.uniform(6.3, 26)])])
        elif a.startswith("phi"):
            v = rng.uniform(-7, 7)
        elif a in ("t_cnot", "t_ecr"):
            v = rng.choice([rng.uniform(6, 20), rng.uniform(3.1, 6)]) * TG        # long and short (but positive CR time) gates
        elif a == "t_cr":
            v = rng.uniform(0.5, 8) * TG
        elif a in ("Dt", "tm"):
            v = rng.uniform(0.2, 40) * TG
        elif mode == "zero":
            v = 0.0
        elif a.startswith("T1"):
            v = 0.0
        elif a.startswith("T2"):
            v = rng.choice([rng.uniform(5e-6, 300e-6), rng.uniform(5e-6, 300e-6), 0.0])     # dephasing on, or off as well
        elif a in ("p", "p_single_ctr", "p_single_trg"):
            # incl. tiny but non-zero depolarising errors (the exponent of the noise factor is then of size 1e-6 .. 1e-4)
            v = 0.01 if mode == "r2" else rng.choice([rng.uniform(1e-5, 3e-3), 10.0 ** rng.uniform(-12, -8)])
        elif a in ("p_cnot", "p_ecr"):
            v = 0.001 if mode == "r2" else rng.uniform(0.03, 0.12)
        elif a == "p_cr":
            v = rng.uniform(0.0, 0.1)
        elif a == "rout":
            v = rng.uniform(0.0, 0.1)
        else:
            raise KeyError(a)
        out[a] = v
    return out


def noisy_history(gs, hseed):
    """every gate of the gate set is sampled once with ALL noise sources on (p, T1, T2, two-qubit and read-out error non-zero)"""
    import random
    r = random.Random(hseed)
    np.random.seed(hseed)
    for gate in gc.GATE_ARGS:
        a = make_args(gate, r, "unitary")
        for k in a:
            if k.startswith("T1"):
                a[k] = r.uniform(20e-6, 200e-6)
            elif k.startswith("T2"):
                a[k] = r.uniform(10e-6, 40e-6)
        with np.errstate(all="ignore"):
            getattr(gs, gate)(*[a[x] for x in gc.GATE_ARGS[gate]])


def run_case(desc, gate, args, seed, after_noisy=None):
    gs = gc.build_gate_set(desc)
    if after_noisy is not None:
        if desc[0] in ("standard_gates", "numerical_gates"):      # module-level objects: use a private gate set of the same kind
            from quantum_gates._gates.gates import Gates
            from quantum_gates._gates.pulse import constant_pulse, constant_pulse_numerical
            gs = Gates(constant_pulse if desc[0] == "standard_gates" else constant_pulse_numerical)
        noisy_history(gs, after_noisy)
    np.random.seed(seed)
    with np.errstate(all="ignore"):
        return np.array(getattr(gs, gate)(*[args[a] for a in gc.GATE_ARGS[gate]]), dtype=complex)


def oracle(desc, gate, args, seed, mode, after_noisy=None):
    from quantum_gates._gates.gates import NoiseFreeGates
    try:
        G = run_case(desc, gate, args, seed, after_noisy)
    except Exception as e:                      # noqa
        return f"raised {type(e).__name__}: {e}", None
    if mode == "zero":
        ideal = np.array(getattr(NoiseFreeGates(), gate)(*[args[a] for a in gc.GATE_ARGS[gate]]), dtype=complex)
        d = float(np.max(np.abs(G - ideal))) if not np.isnan(G).any() else float("nan")
        if not d <= 1e-12:
            return f"zero-noise sample differs from the noise-free gate by {d:.3e}", d
        return None, d
    d = float(np.max(np.abs(G.conj().T @ G - np.eye(G.shape[0])))) if not np.isnan(G).any() else float("nan")
    if not d <= 1e-10:
        return f"sample with T1 = 0 is not unitary: max |G^dag G - 1| = {d:.3e}", d
    return None, d


def typed_angle_sequence(desc, rng):
    """ONE gate-set object is asked for zero-noise gates first with single-precision angles (np.float32, exactly representable
    values), then with the equal double-precision angles: the second answers must be the noise-free gates to 1e-12."""
    from quantum_gates._gates.gates import NoiseFreeGates
    gs = gc.build_gate_set(desc)
    nf = NoiseFreeGates()
    vals = [0.5, 0.25, -0.75, 1.5, -0.125]
    for gate in ("X", "SX", "single_qubit_gate", "CNOT", "CNOT_inv", "ECR", "ECR_inv", "CR"):
        names = gc.GATE_ARGS[gate]
        base = make_args(gate, rng, "zero")
        ang = {a: rng.choice(vals) for a in names if a == "theta" or a.startswith("phi")}
        for caster in (np.float32, float):
            args = [caster(ang[a]) if a in ang else base[a] for a in names]
            np.random.seed(3)
            try:
                with np.errstate(all="ignore"):
                    G = np.array(getattr(gs, gate)(*args), dtype=complex)
            except Exception as e:              # noqa
                return gate, f"raised {type(e).__name__}: {e}"
        ideal = np.array(getattr(nf, gate)(*[float(ang[a]) if a in ang else base[a] for a in names]), dtype=complex)
        d = float(np.max(np.abs(G - ideal))) if np.isfinite(G).all() else float("nan")
        if not d <= 1e-12:
            return gate, (f"zero-noise {gate} at double-precision angles {ang} differs from the noise-free gate by {d:.3e} after the same gate-set "
                          "object had been asked with the equal single-precision angles")
    return None


def main(ctx):
    cov = ctx.coverage
    ir, fmeta, gmeta, tie_broken = gc.regenerate()
    lean = ctx.lean("QG.Props.C07") if tie_broken is None else None
    tv_n, tv_mism = gc.translation_validation(ctx, ir, n_per=3) if ir is not None else (0, [])
    rng = ctx.rng
    fails, worst, nontrivial, hist = [], {"zero": 0.0, "unitary": 0.0}, set(), {}
    reps = 6 if ctx.thorough else 2
    descs = gc.gate_set_descs(rng, ctx.thorough)
    for desc in descs:
        for gate in gc.GATE_ARGS:
            for mode in ("zero", "unitary"):
                for _ in range(reps):
                    args = make_args(gate, rng, mode)
                    seed = rng.randrange(2 ** 31)
                    bad, d = oracle(desc, gate, args, seed, mode)
                    ctx.count()
                    nontrivial.add(core.sha([desc, gate, mode, args]))
                    hist[f"{gate}/{mode}"] = hist.get(f"{gate}/{mode}", 0) + 1
                    if d is not None and d == d:
                        worst[mode] = max(worst[mode], d)
                    if bad:
                        fails.append(({"kind": "oracle", "gate": gate, "mode": mode}, desc, gate, args, seed, mode, bad))
    # history: the SAME gate-set object was sampled with every noise source on before it is asked for zero-noise / unitary samples
    for desc in descs:
        for gate in gc.GATE_ARGS:
            for mode in ("zero", "unitary"):
                args = make_args(gate, rng, mode)
                seed, hseed = rng.randrange(2 ** 31), rng.randrange(2 ** 31)
                bad, d = oracle(desc, gate, args, seed, mode, after_noisy=hseed)
                ctx.count()
                hist[f"{gate}/{mode}/after-noisy"] = hist.get(f"{gate}/{mode}/after-noisy", 0) + 1
                if bad:
                    fails.append(({"kind": "oracle", "gate": gate, "mode": mode + "-after-noisy"}, desc, gate, dict(args, _after_noisy=hseed), seed, mode,
                                  bad + " (the same gate-set object had sampled every gate with all noise sources on before)"))
    for desc in descs:
        r = typed_angle_sequence(desc, rng)
        ctx.count()
        if r:
            fails.append(({"kind": "oracle", "gate": r[0], "mode": "typed-angle-sequence"}, desc, r[0], {}, 3, "zero", r[1]))
    # the region where the derived cross-resonance error is negative (DESIGN.md section 6, R2)
    for gate in ("CNOT", "CNOT_inv", "ECR", "ECR_inv"):
        args = make_args(gate, rng, "r2")
        seed = rng.randrange(2 ** 31)
        names = gc.GATE_ARGS[gate]
        pcr = derived_pcr(gate, args[names[3]], args[names[4]], args[names[5]])
        bad, d = oracle(["standard_gates"], gate, args, seed, "unitary")
        ctx.count()
        if bad:
            sig = {"kind": "nan-negative-derived-cr-error"} if pcr < 0 and "nan" in bad else {"kind": "oracle", "gate": gate, "mode": "r2"}
            fails.append((sig, ["standard_gates"], gate, args, seed, "unitary", bad + f" (derived CR error = {pcr:.4g} < 0)"))
    ctx.sample({"gate_set": descs[2], "gate": "CNOT", "mode": "unitary", "args": make_args("CNOT", rng, "unitary")})
    cov["distinct_nontrivial"] = len(nontrivial)
    cov["rule"] = ("case = (gate set, gate, mode, arguments, numpy seed); gate sets: standard, numerical, Gates(Gaussian pulses), "
                   "ScaledNoiseGates at two scales; all 11 gates; mode zero = every noise parameter 0 (compared with NoiseFreeGates, "
                   "1e-12), mode unitary = T1 = 0 with p, T2, two-qubit and readout error on (|G^dag G - 1| <= 1e-10); every case has "
                   "random phases / angles / durations, so every distinct case is non-trivial")
    cov["programs"] = len(gc.gf.ALL) + 33
    cov["translation_validation_cases"] = tv_n
    cov["translation_validation_mismatches"] = len(tv_mism)
    cov["case_histogram"] = hist
    cov["worst_deviation"] = worst
    cov["trusted_base"] += [
        "translator harness/qgv/{pyexpr,pymat}.py + harness/gen/{factories,factories_lean,gatesets,gatesets_lean}.py (Python AST -> IR -> "
        "Lean), incl. the fixed rendering table c=cos(theta/2), s=sin(theta/2), e=exp(i phi), eb=exp(-i phi); validated on every run by "
        "evaluating the literal and the poly-mode IR against the real construct under injected samples",
        "scipy.linalg.expm is the matrix exponential; np.kron / @ have their documented index semantics; a sample of N(0, 0) is 0",
        "Real.sqrt is total in Lean; the theorems carry the hypotheses (0 <= p, 0 <= T2, 0 <= derived p_cr, 0 < t_cr) under which it agrees with np.sqrt"]
    ctx.assumptions += ["exact real/complex arithmetic in the theorems; numeric oracle tolerances 1e-12 (zero noise) and 1e-10 (unitarity)",
                        "the region of negative derived cross-resonance error is excluded by hypothesis in the theorems and run on the real code"]
    for sig, desc, gate, args, seed, mode, bad in fails[:6]:
        ctx.violation(sig, {"gate_set": desc, "gate": gate, "args": args, "seed": seed, "mode": mode, "failure": bad},
                      f"{desc} {gate} [{mode}]: {bad}")
    if not [f for f in fails if f[0].get("kind") == "oracle"]:
        broken = tie_broken or (None if lean.ok else f"Lean obligations fail: {list(lean.failed.items())[:3]}") or \
            (f"translation validation: IR and implementation differ: {tv_mism[0]}" if tv_mism else None)
        if broken:
            ctx.violation({"kind": "tie"}, {"broken": broken}, broken + "; the numeric oracle found no failing input",
                          no_failing_input=True)


def replay(ctx, path):
    rp = json.load(open(path))["replay"]
    if "gate" not in rp:
        print("replay names a broken obligation:", json.dumps(rp)[:400]); return 1
    args = dict(rp["args"])
    hseed = args.pop("_after_noisy", None)
    bad, d = oracle(rp["gate_set"], rp["gate"], args, rp["seed"], rp["mode"], after_noisy=hseed)
    print("gate set", rp["gate_set"], "gate", rp["gate"], "args", rp["args"]); print("oracle:", bad or f"holds (deviation {d})")
    return 1 if bad else 0
