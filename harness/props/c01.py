"""C01 — every layer-based backend applies exactly the layered Kronecker product.

Lean: QG.Props.C01 (standard_spec / efficient_spec / ones_spec, binary_layer_spec and corollaries) about QG.Model.Backend.
Tie:  hand-written model + exact differential correspondence through drv_c01
      (i)  plans  n = 1..26: the real `_chunk_list`, and the real regime code with `oe.contract` replaced by a recorder
           (contraction string, operand shapes, operand values = Kronecker product of which layer entries);
      (ii) values n = 1..10 (13 thorough): Gaussian-integer layers and vectors, exact.
Oracle (independent of the model): explicit 2^n x 2^n Kronecker reference (n <= 10) and a factor-by-factor
      tensordot reference (any n), evaluated on the result of the real code.
"""
import json, os, time
os.environ.setdefault("OMP_NUM_THREADS", "1")          # tiny matrices: BLAS threads only cost time
os.environ.setdefault("OPENBLAS_NUM_THREADS", "1")
import numpy as np
from qgv import core
from qgv import c01lib as L

LAYER_BACKENDS = ["standard", "efficient", "ones"]
CLASS = {"standard": "StandardBackend", "efficient": "EfficientBackend", "ones": "BackendForOnes", "binary": "BinaryBackend",
         "grid": "Circuit.statevector"}


# ------------------------------------------------------------------------------------------------ domain of the property
def n_operands_high(n, mn, op):
    k = -(-n // op)
    if n % op and n % op < mn:
        k -= 1
    return k


def in_domain(name, n, mn, op, codes_per_layer, psi_len):
    if not codes_per_layer or psi_len != 2 ** n or n < 1:
        return False
    if not all(L.is_wf(c, n) for c in codes_per_layer):
        return False
    if name == "efficient":
        if not (1 <= mn <= op):
            return False
        if n >= 4 and n >= 2 * op and n_operands_high(n, mn, op) > 13:
            return False                       # the code's documented limit (26 contraction letters)
    if name == "ones" and n > 26:
        return False
    return True


def classify(name, impl, want):
    """None if the real result equals the oracle, else (class signature, description)"""
    cls = CLASS[name]
    if "err" in impl:
        if name == "efficient" and impl["err"] in ("AttributeError", "IndexError"):
            return ({"backend": cls, "kind": "scalar-only-chunk", "error": impl["err"]},
                    f"raises {impl['err']} ({impl.get('msg', '')}) on a well-formed layer list")
        return ({"backend": cls, "kind": "raises", "error": impl["err"]},
                f"raises {impl['err']} ({impl.get('msg', '')}) on a well-formed layer list")
    if "ok" not in impl:
        return ({"backend": cls, "kind": "bad-return", "what": impl.get("other")}, f"returns {impl}")
    if impl["ok"] != want:
        return ({"backend": cls, "kind": "wrong-vector"}, "returned vector differs from (kron last)...(kron first) psi")
    if impl.get("kind") != "num":
        return ({"backend": cls, "kind": "object-dtype-result"},
                "returned array has dtype=object (Python complex objects), not a numeric vector: the values equal the "
                "Kronecker product applied to psi, but the other backends return complex128 for the same input and the "
                "library's own next step (float accumulation of np.square(np.absolute(psi)) in the simulator) raises "
                "UFuncTypeError on it")
    return None


# ------------------------------------------------------------------------------------------------ case generation
def value_cases(ctx):
    rng = ctx.rng
    T = ctx.thorough
    cases = []           # (family, case)

    def add(fam, n, shapes, backends=None, **kw):
        c = L.build_case(rng, n, shapes, **kw)
        if backends:
            c["backends"] = backends
        if n >= 12:
            c["model_big"] = rng.random() < 0.3
        if L.growth(c) < 2 ** 50:
            cases.append((fam, c))

    # corpus (designed / minimised past disagreements)
    add("corpus:D7-all-2x2", 1, [[2]], id_prob=0)
    add("corpus:D7-all-2x2", 2, [[2, 2], [2, 2]], id_prob=0)
    add("corpus:D7-all-2x2", 3, [[2, 2, 2]], id_prob=0.5)
    add("corpus:D8-last-chunk-placeholder", 9, [[2] * 7 + [4, 0]], mn=1, op=4, id_prob=0)
    add("corpus:D8-opt1", 4, [[2, 2, 4, 0]], mn=1, op=1)
    add("corpus:D8-opt1", 5, [[0, 4, 2, 2, 2]], mn=1, op=1)
    add("corpus:D8-two-placeholders-chunk", 5, [[2, 4, 0, 0, 4]], mn=1, op=2)
    add("corpus:D8-two-placeholders-chunk", 6, [[2, 4, 0, 0, 4, 2]], mn=1, op=2)
    add("corpus:D8-two-placeholders-chunk", 6, [[2, 4, 0, 0, 4, 2]], mn=2, op=2)
    add("corpus:straddle-4|4|1", 9, [[2, 2, 2, 4, 0, 2, 2, 2, 2], [2] * 7 + [0, 4]], mn=1, op=4)
    add("corpus:straddle-4|4|1", 9, [[2, 2, 2, 0, 4, 2, 2, 4, 0]], mn=3, op=4)
    add("corpus:all-identity", 7, [[1] * 7, [1] * 7])
    add("corpus:all-identity", 3, [[1] * 3])
    add("corpus:ones-8-run", 8, [[2] * 8], id_prob=0)
    add("corpus:ones-8-run-mid", 9, [[2] * 8 + [1]], id_prob=0)
    # exhaustive small scope: every well-formed shape, n <= 5 (6 thorough), every placeholder side
    for n in range(1, (7 if T else 6)):
        for s in L.all_shapes(n):
            add("exhaustive-shapes", n, [s, rng.choice(L.all_shapes(n))], id_prob=0.3,
                mn=rng.randint(1, 2), op=rng.randint(2, 3))
    # every regime boundary, every chunk setting
    nmax = 13 if T else 10
    for n in range(1, nmax + 1):
        for op in range(1, 7):
            for mn in range(1, op + 1):
                if n > 10 and rng.random() < 0.6:
                    continue
                depth = 1 if n > 10 else rng.randint(1, 3)
                add("chunk-settings", n, [L.rand_shape(rng, n, 0.35) for _ in range(depth)],
                    id_prob=rng.choice([0.0, 0.3, 0.7]), mn=mn, op=op,
                    backends=None if (n <= 6 or mn == op) else ["efficient"])   # the other two ignore the setting
    # blocks straddling a chunk boundary in every position, both placeholder sides
    for n in range(4, nmax + 1):
        for pos in range(n - 1):
            if n > 10 and rng.random() < 0.5:
                continue
            for side in ([4, 0], [0, 4]):
                s = [2] * pos + side + [2] * (n - pos - 2)
                op = rng.randint(1, 4)
                add("straddle", n, [s], id_prob=rng.choice([0.0, 0.4]), mn=rng.randint(1, op), op=op)
    # identity masks for the identity-skipping backend (n >= 7): runs of every length, also with 4x4 blocks
    for n in range(7, nmax + 1):
        for _ in range(14 if T else 8):
            depth = 1 if n > 10 else rng.randint(1, 2)
            add("identity-masks", n, [L.rand_shape(rng, n, rng.choice([0.0, 0.2, 0.5])) for _ in range(depth)],
                id_prob=rng.choice([0.1, 0.5, 0.9]))
        add("identity-masks", n, [[2] * n], id_prob=0.0)
        add("identity-masks", n, [[1] + [2] * (n - 1)], id_prob=0.0)
        add("identity-masks", n, [[2] * (n - 1) + [1]], id_prob=0.0)
        add("identity-masks", n, [[2] * (n - 2) + [1, 2]], id_prob=0.0)
    # complementary identity masks: consecutive layers (one backend object, one call) whose runs have the same lengths - so psi
    # is reshaped into the same legs - but with identities and non-identities exchanged
    for n in range(8, nmax + 1):
        for rep in range(4 if T else 2):
            runs, left = [], n
            while left:
                r = 1 if (rep == 0 or left == 1) else rng.choice([1, 1, 2])
                runs.append(r); left -= r
            def lay(first_non):
                out, non = [], first_non
                for r in runs:
                    if non:
                        out += ([4, 0] if rng.random() < 0.5 else [0, 4]) if (r == 2 and rng.random() < 0.5) else [2] * r
                    else:
                        out += [1] * r
                    non = not non
                return out
            A, B = lay(True), lay(False)
            add("complementary-masks", n, [A, B] if rep % 2 == 0 else [B, A, B], id_prob=0.0, backends=["ones"] if n > 10 else None)
    # richer entries (1+i, 2, ...), basis vectors
    for _ in range(120 if T else 40):
        n = rng.randint(1, 8)
        op = rng.randint(1, 4)
        add("rich-entries", n, [L.rand_shape(rng, n) for _ in range(rng.randint(1, 2))], rich=True,
            mn=rng.randint(1, op), op=op, psi_kind=rng.choice(["rand", "basis"]))
    return cases


def malformed_cases(ctx):
    """outside the property's domain: exercises the error branches of the correspondence only"""
    rng = ctx.rng
    out = []

    def add(fam, n, shapes, psi_n=None, backends=None, **kw):
        c = L.build_case(rng, psi_n if psi_n is not None else n, shapes, **kw)
        c["n"] = n
        if backends:
            c["backends"] = backends
        out.append((fam, c))
    add("empty-list", 2, [])
    add("empty-list", 8, [])
    add("empty-layer", 2, [[]])
    add("empty-layer", 5, [[]])
    add("empty-layer", 8, [[]])
    for n in (2, 3, 5, 6, 7, 8, 9):
        add("too-narrow", n, [[2] * (n - 1)], id_prob=0)
        add("too-wide", n, [[2] * (n + 1)], id_prob=0)
        add("too-wide-identities", n, [[1] * (n + 1)])
        add("wrong-psi", n, [[2] * n], psi_n=n - 1, id_prob=0.2)
    add("only-placeholders", 1, [[0]])
    add("only-placeholders", 2, [[0, 0]])
    add("only-placeholders", 5, [[0, 0, 2, 2, 2]], id_prob=0)
    add("only-placeholders", 5, [[2, 2, 2, 0, 0]], id_prob=0)
    add("only-placeholders", 8, [[0] * 8], backends=["standard", "ones"])   # (EfficientBackend: depends on repair D8)
    add("min>opt", 9, [[2] * 9], mn=5, op=2, id_prob=0)
    add("min>opt", 9, [[2] * 7 + [4, 0]], mn=6, op=4, id_prob=0)
    add("opt=0", 9, [[2] * 9], mn=0, op=0)
    add("too-many-operands", 10, [[2] * 10], mn=1, op=1, psi_n=10, id_prob=0)   # 10 <= 13: fine
    add("too-many-operands", 14, [[1] * 14], mn=1, op=1, psi_n=1)               # 14 > 13: AssertionError before reshape
    return out


def model_affordable(name, case):
    n, depth = case["n"], len(case["layers"])
    if name == "standard":
        return n <= 7 or (depth <= 1 and n <= 10)
    if n >= 12:                                   # 4^n scalar operations per layer in the model: a sample only
        return depth <= 1 and case.get("model_big", False)
    return n <= 11


# ------------------------------------------------------------------------------------------------ plan generation
RUNS = [7, 8, 10, 11, 13, 14, 18, 19, 20, 22, 26]


def plan_cases(ctx):
    rng = ctx.rng
    T = ctx.thorough
    out = []           # (backend, n, mn, op, codes, family)
    for n in range(1, 27):
        cfgs = [(mn, op) for op in range(1, 7) for mn in range(1, op + 1)]
        if n > 14 and not T:
            cfgs = rng.sample(cfgs, 5) + [(3, 4), (1, 4)]
        for mn, op in cfgs:
            shapes = [[2] * n]
            if n >= 2:
                shapes += [[2] * (n - 2) + [4, 0], [2] * (n - 2) + [0, 4]]
            for k in range(1, 4):                                   # straddle the k-th chunk boundary
                pos = k * op - 1
                if 0 <= pos and pos + 2 <= n:
                    shapes.append([2] * pos + rng.choice([[4, 0], [0, 4]]) + [2] * (n - pos - 2))
            if n >= 4 and op == 2:                                  # a chunk made of two placeholders
                pos = 2 * rng.randint(0, (n - 4) // 2) + 1
                if pos + 4 <= n:
                    shapes.append([2] * pos + [4, 0, 0, 4] + [2] * (n - pos - 4))
            shapes.append(L.rand_shape(rng, n, 0.3))
            for s in shapes:
                s = [1 if (c == 2 and rng.random() < 0.2) else c for c in s]
                out.append(("efficient", n, mn, op, s, "eff"))
    for n in range(7, 27):
        for r in RUNS:
            if r > n:
                continue
            fam = f"ones-run{r}"
            out.append(("ones", n, 3, 4, [2] * r + [1] * (n - r), fam + "-start"))         # flushed by an identity unless r = n
            out.append(("ones", n, 3, 4, [1] * (n - r) + [2] * r, fam + "-end"))
            if n - r >= 2:
                a = rng.randint(1, n - r - 1)
                out.append(("ones", n, 3, 4, [1] * a + [2] * r + [1] * (n - r - a), fam + "-mid"))
            # the same run with 4x4 blocks inside (a 4x4 counts as ONE factor of the run)
            for _ in range(2):
                k4 = rng.randint(1, 3)
                if r + k4 <= n:
                    facts = [[2]] * (r - k4) + [rng.choice([[4, 0], [0, 4]]) for _ in range(k4)]
                    rng.shuffle(facts)
                    run = [c for f in facts for c in f]
                    rest = n - len(run)
                    a = rng.randint(0, rest)
                    out.append(("ones", n, 3, 4, [1] * a + run + [1] * (rest - a), fam + "-4x4"))
        for _ in range(30 if T else 10):                                                 # random identity masks
            s = L.rand_shape(rng, n, rng.choice([0.0, 0.1]) if n > 14 else 0.25)
            p = rng.choice([0.05, 0.2, 0.5, 0.8])
            out.append(("ones", n, 3, 4, [1 if (c == 2 and rng.random() < p) else c for c in s], "ones-random-mask"))
        out.append(("ones", n, 3, 4, [1] * n, "ones-all-identity"))
    for n in range(1, 7):
        for s in L.all_shapes(n)[:12]:
            out.append(("ones", n, 3, 4, s, "ones-low"))
    return out


def run_histogram(codes, hist):
    """which split copy / threshold a layer of the identity-skipping backend reaches (computed from the mask alone)"""
    mats = [c for c in codes if c != 0]
    runs, cur = [], 0
    for i, c in enumerate(mats):
        if c == 1:
            if cur:
                runs.append((cur, "mid")); cur = 0
        else:
            cur += 1
    if cur:
        runs.append((cur, "end"))
    for r, where in runs:
        if r >= 19:
            k = "4-way"
        elif r >= (11 if where == "mid" else 14):
            k = "3-way"
        elif r >= 8:
            k = "2-way"
        else:
            k = "unsplit"
        key = f"{where}:{k}:run={r if r in (7, 8, 10, 11, 13, 14, 18, 19) else ('20+' if r >= 20 else 'other')}"
        hist[key] = hist.get(key, 0) + 1


# ------------------------------------------------------------------------------------------------ main
def main(ctx):
    t0 = time.time()
    lean = ctx.lean("QG.Props.C01")
    drv = core.Driver(ctx.pid)
    rng = ctx.rng
    cov = ctx.coverage
    fails = {}            # class key -> (rank, sig, replay, what)
    unexplained = []      # correspondence mismatches without oracle failure
    hist = {"regime_plans": {}, "regime_values": {}, "ones_split_plans": {}, "ones_split_values": {}, "ones_split_large_n_values": {},
            "errors_impl": {}, "family": {}, "n_values": {}, "n_plans": {}, "placeholder": {}}

    def bump(h, k, d=1):
        hist[h][k] = hist[h].get(k, 0) + d

    def fail(sig, rank, replay, what):
        key = json.dumps(sig, sort_keys=True)
        if key not in fails or rank < fails[key][0]:
            fails[key] = (rank, sig, replay, what)

    # ---------------------------------------------------------------- (0) _chunk_list on index lists
    reqs, impl = [], []
    for k in range(0, 31):
        for op in range(0, 8):
            for mn in range(0, 8):
                reqs.append({"op": "chunks", "len": k, "min": mn, "opt": op})
                r = L.real_chunk_list(k, mn, op)
                impl.append(r)
                ctx.count()
                if 1 <= mn <= op and k >= 2 * op:          # oracle: the chunks partition the list, none is short
                    cs = r.get("ok")
                    if cs is None or sum(cs, []) != list(range(k)) or any(len(c) < mn for c in cs):
                        fail({"backend": "EfficientBackend", "kind": "chunk_list"}, k,
                             {"mode": "chunks", "len": k, "min": mn, "opt": op, "observed": r},
                             f"_chunk_list(range({k}), {mn}, {op}) = {r}: not a partition into chunks of >= min entries")
    model = drv.batch(reqs)
    n_chunk_mismatch = 0
    for rq, a, b in zip(reqs, impl, model):
        if a != b:
            n_chunk_mismatch += 1
            unexplained.append({"request": rq, "impl": a, "model": b})
    cov["chunk_list_cases"] = len(reqs)

    # ---------------------------------------------------------------- (i) plans, n = 1..26
    pcs = plan_cases(ctx)
    reqs = [{"op": "plan", "backend": b, "n": n, "min": mn, "opt": op, "layer": codes} for b, n, mn, op, codes, _ in pcs]
    model = drv.batch(reqs)
    plan_mismatch = 0
    nontrivial = set()
    for (b, n, mn, op, codes, fam), rq, mo in zip(pcs, reqs, model):
        layer_py = L.plan_matrices(rng, codes)
        im, operands = L.impl_plan(b, n, mn, op, layer_py)
        ctx.count()
        bump("n_plans", str(n)); bump("family", fam.split("-")[0] + "-plan")
        if b == "ones":
            if n > 6:
                run_histogram(codes, hist["ones_split_plans"])
            bump("regime_plans", "ones:" + ("low(n<=6)" if n <= 6 else "high"))
        else:
            reg = "low(n<4)" if n < 4 else ("high" if n >= 2 * op else "medium")
            bump("regime_plans", "efficient:" + reg)
            if reg == "high" and n % op and n % op < mn:
                bump("regime_plans", "efficient:high:last-chunk-merged")
        if "err" in im:
            bump("errors_impl", f"plan:{b}:{im['err']}")
        dom = in_domain(b, n, mn, op, [codes], 2 ** n)
        if dom and "err" in im:
            sig, what = classify(b, im, None)
            fail(sig, n * 100 + 50, {"mode": "plan", "backend": b, "n": n, "min": mn, "opt": op, "codes": codes, "observed": im},
                 f"{CLASS[b]}(n={n}, min={mn}, opt={op}) on layer shape {codes}: {what}")
            oracle_failed = True
        else:
            oracle_failed = False
        # correspondence: kind / string / shapes exact, operands = kron of the factors the model names
        same = False
        if "err" in im or "err" in mo:
            same = im.get("err") == mo.get("err")
        elif "ok" in im and "ok" in mo:
            mk = dict(mo["ok"]); factors = mk.pop("factors", None)
            if im["ok"]["kind"] == "dense":
                same = mk.get("kind") == "dense" and mk.get("dim") == im["ok"]["dim"]
            elif im["ok"]["kind"] == "skip":
                same = mk == {"kind": "skip"}
            else:
                same = mk == im["ok"] and L.operands_match(layer_py, factors, operands)
                if same and (len(im["ok"]["dims"]) > 1 or len(im["ok"]["shape"]) > len(im["ok"]["dims"])):
                    nontrivial.add(json.dumps([b, n, mn, op, codes]))
        if not same:
            plan_mismatch += 1
            if not oracle_failed:
                unexplained.append({"request": rq, "impl": im, "model": mo})
                # failing-input search: the same layer shape with concrete values (the plan level cannot see values)
                if dom and n <= 23 and cov.get("large_value_followups", 0) < 3:
                    cov["large_value_followups"] = cov.get("large_value_followups", 0) + 1
                    sd = ctx.seed * 7919 + n
                    bad = L.large_value_followup(sd, b, n, mn, op, codes)
                    if bad:
                        fail({"backend": CLASS[b], "kind": "wrong-vector-large-n"}, n * 100 + 60,
                             {"mode": "large-value", "backend": b, "n": n, "min": mn, "opt": op, "codes": codes, "seed": sd, "failure": bad},
                             f"{CLASS[b]}(n={n}, min={mn}, opt={op}) on layer shape {codes}: {bad}")
    cov["plan_cases"] = len(pcs)
    ctx.sample({"plan_request": reqs[len(reqs) // 2], "model_plan": model[len(reqs) // 2]})
    t_plans = time.time() - t0

    # ---------------------------------------------------------------- (ii) values
    vcs = value_cases(ctx)
    mal = malformed_cases(ctx)
    reqs, meta = [], []
    value_mismatch = 0
    n_oracle = 0
    for idx, (fam, case) in enumerate(vcs + mal):
        malformed = idx >= len(vcs)
        n = case["n"]
        bump("family", ("malformed:" if malformed else "") + fam)
        bump("n_values", str(n))
        codes = [L.codes_of(case, i) for i in range(len(case["layers"]))]
        if not malformed:
            for c in codes:
                i = 0
                while i < len(c):
                    if c[i] == 4:
                        bump("placeholder", "after"); i += 2
                    elif c[i] == 0:
                        bump("placeholder", "before"); i += 2
                    else:
                        i += 1
        want = None
        wf_input = bool(codes) and len(case["psi"]) == 2 ** n and all(L.is_wf(c, n) for c in codes)
        if wf_input:
            w = L.oracle_factor(case)
            if n <= 10:
                w2 = L.oracle_explicit(case)
                if not np.array_equal(w, w2):
                    raise RuntimeError("the two oracles disagree: " + json.dumps(L.case_to_json(case))[:300])
            want = L.canon_vec(w)["ok"]
        for b in case.get("backends", LAYER_BACKENDS):
            if b == "standard" and n > (11 if ctx.thorough else 10):
                continue
            if b == "standard" and n >= 9 and len(codes) >= 2 and all(x != 0 for c in codes for x in c):
                continue                       # (object-dtype matrix products of defect D7 would take minutes here)
            im, raw, untouched = L.run_layers(b, case)
            ctx.count()
            if "err" in im:
                bump("errors_impl", f"value:{b}:{im['err']}")
            dom = wf_input and in_domain(b, n, case["min"], case["opt"], codes, len(case["psi"]))
            if dom and b == "ones":
                bump("regime_values", "ones:" + ("low(n<=6)" if n <= 6 else "high"))
                if n > 6:
                    for c in codes:
                        run_histogram(c, hist["ones_split_values"])
            elif dom and b == "efficient":
                op_, mn_ = case["opt"], case["min"]
                reg = "low(n<4)" if n < 4 else ("high" if n >= 2 * op_ else "medium")
                bump("regime_values", "efficient:" + reg)
                if reg == "high" and n % op_ and n % op_ < mn_:
                    bump("regime_values", "efficient:high:last-chunk-merged")
            bad = None
            if dom:
                n_oracle += 1
                bad = classify(b, im, want)
                if bad is None and not untouched:
                    bad = ({"backend": CLASS[b], "kind": "input-modified"}, "the input vector was modified")
                if bad:
                    sig, what = bad
                    fail(sig, n * 100 + len(case["layers"]),
                         {"mode": "value", "backend": b, "case": L.case_to_json(case), "expected": want, "observed": im},
                         f"{CLASS[b]}(n={n}" + (f", min={case['min']}, opt={case['opt']}" if b == "efficient" else "")
                         + f") on layers {codes}: {what}")
            if model_affordable(b, case):
                reqs.append(L.value_request(b, case))
                meta.append((b, case, {k: v for k, v in im.items() if k != "msg"}, bad is not None))
    t_impl = time.time() - t0
    model = drv.batch(reqs)
    for (b, case, im, oracle_failed), mo in zip(meta, model):
        if "ok" in mo:
            mo = {"ok": mo["ok"], "kind": "num"}
        if im != mo:
            value_mismatch += 1
            if not oracle_failed:
                unexplained.append({"backend": b, "case": L.case_to_json(case), "impl": im, "model": mo})
        elif "ok" in im and len(case["layers"]) and any(k != 0 for k in case["layers"][0]):
            nontrivial.add(json.dumps([b, case["n"], case["min"], case["opt"], case["layers"]]))
    cov["value_cases"] = len(vcs)
    cov["malformed_cases"] = len(mal)
    cov["value_runs_vs_model"] = len(reqs)
    cov["value_runs_vs_oracle"] = n_oracle
    t_values = time.time() - t0

    # ---------------------------------------------------------------- (iii) side clauses on the real code
    side = {"linearity": 0, "identity_variants": 0, "near_identity": 0, "binary": 0, "binary_blocked_by_c02": 0,
            "large_n_values": 0, "item_lists": 0}
    sub = [c for f, c in vcs if c["n"] <= (11 if ctx.thorough else 9)]
    rng.shuffle(sub)
    for case in sub[: (300 if ctx.thorough else 80)]:
        n = case["n"]
        codes = [L.codes_of(case, i) for i in range(len(case["layers"]))]
        phi = np.array([rng.choice([0, 1, -1, 1j]) for _ in range(2 ** n)], dtype=complex)
        a, bb = rng.choice([2, -1, 1j]), rng.choice([1, -2, 1 - 1j])
        for b in LAYER_BACKENDS:
            if not in_domain(b, n, case["min"], case["opt"], codes, 2 ** n):
                continue
            r1, v1, _ = L.run_layers(b, case)
            if r1.get("kind") == "object":
                continue                       # already reported by the exact stream; object arithmetic is very slow
            r2, v2, _ = L.run_layers(b, case, psi=phi.copy())
            r3, v3, _ = L.run_layers(b, case, psi=a * case["psi"] + bb * phi)
            ctx.count(3)
            if v1 is None or v2 is None or v3 is None:
                continue                       # already reported by the value oracle
            side["linearity"] += 1
            if not np.array_equal(np.asarray(v3).astype(complex), a * np.asarray(v1).astype(complex) + bb * np.asarray(v2).astype(complex)):
                fail({"backend": CLASS[b], "kind": "not-linear"}, n,
                     {"mode": "value", "backend": b, "case": L.case_to_json(case), "expected": None, "observed": r3},
                     f"{CLASS[b]}: result is not linear in the input vector")
            for var in ("copy", "complex"):
                r4, v4, _ = L.run_layers(b, case, layers=L.py_layers(case, var))
                ctx.count()
                side["identity_variants"] += 1
                if {k: v for k, v in r4.items() if k != "kind"} != {k: v for k, v in r1.items() if k != "kind"}:
                    fail({"backend": CLASS[b], "kind": "identity-representation"}, n,
                         {"mode": "value", "backend": b, "case": L.case_to_json(case), "id_variant": var, "expected": r1.get("ok"), "observed": r4},
                         f"{CLASS[b]}: replacing np.eye(2) by an equal identity matrix ({var}) changes the result")
    # near-identity entries must NOT be skipped (float data, tolerance 1e-10 relative; the skipped term is 1e-6)
    for _ in range(60 if ctx.thorough else 20):
        n = rng.randint(7, 10)
        case = L.build_case(rng, n, [L.rand_shape(rng, n, 0.2)], id_prob=0.6)
        E = np.array([[rng.choice([1, -1]), rng.choice([0, 1])], [rng.choice([0, -1]), rng.choice([1, 2])]], dtype=complex)
        near = np.eye(2) + 1e-6 * E
        slots = [i for i, k in enumerate(case["layers"][0]) if k == 0]
        if not slots:
            continue
        case["mats"].append(near)
        for i in rng.sample(slots, max(1, len(slots) // 2)):
            case["layers"][0][i] = len(case["mats"]) - 1
        want = L.oracle_factor(case)
        for b in LAYER_BACKENDS:
            try:
                got = np.asarray(L.make_backend(b, n, 3, 4).statevector(L.py_layers(case), case["psi"].copy())).astype(complex)
            except Exception:                  # noqa  (object-dtype / other defects are reported by the exact stream)
                continue
            ctx.count()
            side["near_identity"] += 1
            err = float(np.max(np.abs(got - want)))
            if err > 1e-10 * max(1.0, float(np.max(np.abs(want)))):
                fail({"backend": CLASS[b], "kind": "float-near-identity-mismatch"}, n,
                     {"mode": "float", "backend": b, "n": n, "layer": case["layers"][0],
                      "mats": [[[float(z.real), float(z.imag)] for z in np.asarray(M, dtype=complex).reshape(-1)] for M in case["mats"]],
                      "psi": L.flat_ints(case["psi"]), "max_abs_err": err},
                     f"{CLASS[b]}(n={n}) on float data with near-identity entries 1 + 1e-6*E: result differs from the oracle by "
                     f"{err:.2e} (tolerance 1e-10; an entry wrongly treated as the identity gives ~1e-6)")
    # wide dynamic range (float data; scalings by powers of two are exact): entries far below 1e-8 next to entries far above 1 -
    # nothing may be dropped or rounded away because it is small in absolute terms
    side["dynamic_range"] = 0
    for _ in range(60 if ctx.thorough else 16):
        n = rng.randint(2, 8)
        case = L.build_case(rng, n, [L.rand_shape(rng, n, 0.3) for _ in range(rng.randint(1, 2))], id_prob=0.2)
        case["mats"] = [np.array(M, dtype=complex) for M in case["mats"]]
        used = sorted({k for l in case["layers"] for k in l if k > 0})          # index 0 is the exact identity
        if len(used) < 2:
            continue
        k = rng.choice([31, 34, 40])
        a, b = rng.sample(used, 2)
        case["mats"][a] = case["mats"][a] * 2.0 ** -k
        case["mats"][b] = case["mats"][b] * 2.0 ** k
        want = L.oracle_factor(case)
        scale = max(float(np.max(np.abs(want))), 2.0 ** -k)
        codes = [L.codes_of(case, i) for i in range(len(case["layers"]))]
        runs = [(bk, (lambda bk=bk: L.run_layers(bk, case))) for bk in LAYER_BACKENDS
                if in_domain(bk, n, case["min"], case["opt"], codes, 2 ** n)]
        runs.append(("binary", lambda: L.run_binary(case, optimize=False)))
        for bk, go in runs:
            r, vec, _ = go()
            ctx.count()
            side["dynamic_range"] += 1
            if vec is None or np.asarray(vec).ndim != 1 or np.asarray(vec).dtype.kind == "O":
                continue                       # exceptions / object results on integer-like data are the exact stream's business
            err = float(np.max(np.abs(np.asarray(vec).astype(complex) - want)))
            if err > 1e-10 * scale:
                fail({"backend": CLASS.get(bk, "BinaryBackend"), "kind": "float-dynamic-range-mismatch"}, n,
                     {"mode": "float-scaled", "backend": bk, "n": n, "min": case["min"], "opt": case["opt"], "layers": case["layers"],
                      "mats": [[[float(z.real), float(z.imag)] for z in np.asarray(M, dtype=complex).reshape(-1)] for M in case["mats"]],
                      "psi": L.flat_ints(case["psi"]),
                      "scaled": {"mat": [a, b], "by": [f"2^-{k}", f"2^{k}"]}, "max_abs_err": err, "scale": scale},
                     f"{CLASS.get(bk, 'BinaryBackend')}(n={n}) on layers {codes} with one matrix scaled by 2^-{k} and another by 2^{k} "
                     f"(exact scalings): result differs from the layered Kronecker product by {err:.2e} (largest entry {scale:.2e}) - "
                     f"small entries were dropped or rounded away")
    # the index-based backend on the same matrices item by item
    # (a) the item lists handed to the real BinaryBackend have the qubits `itemQubits` (the theorem's item list) names
    ireqs, iwant = [], []
    for f, c in vcs:
        for li in range(len(c["layers"])):
            one = dict(c, layers=[c["layers"][li]])
            ireqs.append({"op": "items", "layer": L.codes_of(c, li)})
            iwant.append({"ok": [it[1] for it in L.items_of(one)]})
    igot = drv.batch(ireqs)
    side["item_lists"] = len(ireqs)
    for rq, a, b in zip(ireqs, iwant, igot):
        if a != b:
            unexplained.append({"request": rq, "harness_items": a, "model": b})
    blocked = []
    bsub = [c for f, c in vcs if c["n"] <= (10 if ctx.thorough else 8) and c["layers"]]
    rng.shuffle(bsub)
    for case in bsub[: (250 if ctx.thorough else 70)]:
        n = case["n"]
        want = L.canon_vec(L.oracle_factor(case))["ok"]
        r_raw, _, unt = L.run_binary(case, optimize=False)
        r_opt, _, unt2 = L.run_binary(case, optimize=True)
        ctx.count(2)
        side["binary"] += 1
        bad = classify("binary", r_raw, want)
        codes = [L.codes_of(case, i) for i in range(len(case["layers"]))]
        if bad is None and not (unt and unt2):
            bad = ({"backend": "BinaryBackend", "kind": "input-modified"}, "the input vector was modified")
        if bad:
            fail(bad[0], n * 100 + len(case["layers"]),
                 {"mode": "binary", "case": L.case_to_json(case), "expected": want, "observed": r_raw},
                 f"BinaryBackend(n={n}) (operator construction, optimizer bypassed) on the items of layers {codes}: {bad[1]}")
        elif classify("binary", r_opt, want) is not None:
            side["binary_blocked_by_c02"] += 1
            if len(blocked) < 3:
                blocked.append({"n": n, "layers": codes, "with_optimizer": {k: v for k, v in r_opt.items() if k != "ok"}})
    # thorough: execute the 11/14/19-term splits for real (values, n = 11..21), real code vs the factor oracle
    if ctx.thorough:
        big = []
        for n, shape in [(11, [2] * 11), (12, [2] * 11 + [1]), (14, [2] * 14), (15, [1] + [2] * 14), (15, [2] * 13 + [1, 2]),
                         (16, [2] * 4 + [4, 0] + [2] * 8 + [1, 2]), (19, [2] * 19), (20, [2] * 19 + [1]), (20, [2] * 20),
                         (21, [1] + [2] * 18 + [0, 4]), (21, [2] * 8 + [1] + [2] * 12), (18, [2] * 18), (17, [0, 4] + [2] * 15)]:
            c = L.build_case(rng, n, [shape], id_prob=0.0, mn=rng.choice([1, 2, 3]), op=rng.choice([3, 4, 5]))
            big.append(c)
        for case in big:
            n = case["n"]
            codes = [L.codes_of(case, 0)]
            want = L.canon_vec(L.oracle_factor(case))["ok"]
            run_histogram(codes[0], hist["ones_split_large_n_values"])
            for b in ("efficient", "ones"):
                if not in_domain(b, n, case["min"], case["opt"], codes, 2 ** n):
                    continue
                im, _, unt = L.run_layers(b, case)
                ctx.count()
                side["large_n_values"] += 1
                bad = classify(b, im, want)
                if bad:
                    fail(bad[0], n * 100, {"mode": "value", "backend": b, "case": L.case_to_json(case), "expected": want,
                                           "observed": {k: v for k, v in im.items() if k != "ok"}},
                         f"{CLASS[b]}(n={n}) on layer {codes}: {bad[1]}")
    cov["side_clauses"] = side
    if blocked:
        ctx.notes["binary_blocked_by_c02_examples"] = blocked

    # ---------------------------------------------------------------- evidence
    cov["distinct_nontrivial"] = len(nontrivial)
    cov["rule"] = ("plans: (backend, n, chunk setting, layer shape with identity mask) whose real execution reaches an einsum "
                   "with more than one operand or with an untouched identity leg, and whose contraction string, operand "
                   "shapes, tensor shape and operand values (= Kronecker product of exactly the entries the model names) "
                   "agree with the model; values: distinct (backend, n, chunk setting, layer list) with at least one "
                   "matrix on which real code and model return the same exact vector")
    cov["correspondence_mismatches"] = {"chunk_list": n_chunk_mismatch, "plans": plan_mismatch, "values": value_mismatch,
                                        "unexplained_by_oracle": len(unexplained)}
    cov["histograms"] = hist
    cov["timings_s"] = {"lean+chunks+plans": round(t_plans, 1), "values_impl": round(t_impl - t_plans, 1),
                        "values_model": round(t_values - t_impl, 1), "side": round(time.time() - t0 - t_values, 1)}
    cov["trusted_base"] += [
        "hand-written model QG/Model/Backend.lean (of the code after repairs D7/D8), tied on every run by exact differential "
        "correspondence: _chunk_list on all (len<=30, min<=7, opt<=7); plans n<=26 (contraction string, shapes, operand "
        "values) from the real regime code with oe.contract replaced by a recorder; values n<=10/13 on Gaussian integers",
        "np.kron / @ / reshape (row-major) / np.array_equal have their documented semantics; opt_einsum.contract computes "
        "the sum its contraction string denotes (the model's `contractAt` is that sum; tied by the exact value stream)",
        "the shape-level code is shared between real matrices (value ops) and symbolic matrices (plan ops): the plan "
        "stream exercises the same Lean functions the theorems are about",
    ]
    ctx.assumptions += [
        "layers are well formed (Layer.WF n): 2x2 / 4x4 ndarrays, each 4x4 with exactly one Python-int placeholder 1 immediately "
        "before or after it, n entries per layer; psi has length 2^n; at least one layer",
        "1 <= min_chunk_size <= optimal_chunk_size; the code's own documented limit of 26 contraction letters "
        "(<= 13 operands in EfficientBackend, <= 26 matrices per layer in BackendForOnes) is a hypothesis",
        "'input vector left unmodified' is an aliasing statement: observed by the harness (bytes before/after), not a theorem",
        "the index-based clause is the theorem binary_layer_spec (C02's binary_spec + the embed/kron bridge) about C02's model of "
        "BinaryBackend (tied to the code by C02's correspondence); here the real BinaryBackend is additionally run on the item "
        "lists (whose qubits are compared with the model's itemQubits) against the oracle, with the optimizer bypassed "
        "(backend.py's own operator construction); disagreements that appear only with the optimizer are C02's (counted as "
        "blocked, not reported here)",
        "exact comparison uses integer-valued complex128 data with all partial sums below 2^50; floating-point rounding "
        "is outside the theorems",
    ]
    # ---------------------------------------------------------------- (G) Circuit.statevector: the product of the column krons
    n_grid = 0
    for fam, case in vcs:
        n = case["n"]
        codes = [L.codes_of(case, i) for i in range(len(case["layers"]))]
        if n > 8 or not codes or len(case["psi"]) != 2 ** n or not all(L.is_wf(c, n) for c in codes):
            continue
        want = L.canon_vec(L.oracle_factor(case))["ok"]
        im, raw, untouched = L.run_layers("grid", case)
        ctx.count(); n_grid += 1
        bad = classify("grid", im, want)
        if bad is None and not untouched:
            bad = ({"backend": "Circuit.statevector", "kind": "input-modified"}, "the input vector was modified")
        if bad:
            sig, what = bad
            fail(dict(sig, backend="Circuit.statevector"), n * 100 + len(codes),
                 {"mode": "value", "backend": "grid", "case": L.case_to_json(case), "failure": what},
                 f"Circuit(n={n}, depth={len(codes)}).statevector on columns {codes}: {what}")
    cov["grid_statevector_cases"] = n_grid
    # ---------------------------------------------------------------- (R) one backend object, several calls
    import random as _random
    n_reuse = 0
    for name in ("standard", "efficient", "ones"):
        for n in ([2, 3, 5, 7, 8, 9] if not ctx.thorough else [1, 2, 3, 4, 5, 6, 7, 8, 9, 10, 11]):
            for rep in range(2 if not ctx.thorough else 4):
                sd = ctx.seed * 100003 + 1000 * n + 10 * rep + len(name)
                mn, op = ((3, 4) if rep % 2 == 0 else (1, 2))
                bad, _case = L.reuse_sequence(_random.Random(sd), name, n, mn, op)
                ctx.count(); n_reuse += 1
                if bad:
                    fail({"backend": CLASS[name], "kind": "reused-backend-object"}, n,
                         {"mode": "reuse", "backend": name, "n": n, "min": mn, "opt": op, "seed": sd, "failure": bad},
                         f"{CLASS[name]}(n={n}) used for several statevector() calls: {bad}")
    cov["reuse_sequences"] = n_reuse
    # ---------------------------------------------------------------- decide
    for key in sorted(fails):
        rank, sig, replay, what = fails[key]
        ctx.violation(sig, replay, what)
    if not fails:
        if unexplained:
            ctx.violation({"kind": "correspondence"}, {"first": unexplained[0], "count": len(unexplained),
                          "broken": "correspondence backend.py vs QG.Model.Backend"},
                          "model and implementation disagree although the property's oracle passes on every explored input",
                          no_failing_input=True)
        if not lean.ok:
            ctx.violation({"kind": "proof"}, {"broken": lean.failed}, "Lean obligations of C01 do not check; the oracle "
                          "passes on every explored input", no_failing_input=True)
    elif unexplained:
        cov["unexplained_mismatch_sample"] = unexplained[:2]
        print(f"[C01] note: {len(unexplained)} correspondence mismatch(es) not explained by an oracle failure; first: "
              + json.dumps(unexplained[0], default=str)[:300])


# ------------------------------------------------------------------------------------------------ replay
def replay(ctx, path):
    rp = json.load(open(path))["replay"]
    mode = rp.get("mode")
    if mode == "value":
        case = L.case_from_json(rp["case"])
        b = rp["backend"]
        want = L.canon_vec(L.oracle_factor(case))["ok"]
        im, raw, unt = L.run_layers(b, case)
        bad = classify(b, im, want) or (None if unt else ("-", "the input vector was modified"))
        print(f"backend: {CLASS[b]}  n={case['n']} min={case['min']} opt={case['opt']}  layers(entry codes): "
              f"{[L.codes_of(case, i) for i in range(len(case['layers']))]}")
        print("implementation:", {k: (v if k != "ok" else v[:16]) for k, v in im.items()})
        print("oracle (first components):", want[:16])
        if raw is not None and getattr(raw, "dtype", None) is not None and raw.dtype.kind == "O":
            try:
                acc = np.zeros(len(raw)); acc += np.square(np.absolute(raw))
            except Exception as e:              # noqa
                print("float accumulation of np.square(np.absolute(result)) ->", type(e).__name__, str(e)[:100])
        print("verdict:", bad[1] if bad else "holds")
        return 1 if bad else 0
    if mode == "plan":
        import random
        b, n = rp["backend"], rp["n"]
        layer_py = L.plan_matrices(random.Random(0), rp["codes"])
        try:
            out = L.make_backend(b, n, rp["min"], rp["opt"]).statevector([layer_py], np.zeros(2 ** n, dtype=np.int8))
            ok = isinstance(out, np.ndarray) and not np.any(out)
            print("implementation returned", "the zero vector (holds)" if ok else out); return 0 if ok else 1
        except Exception as e:                  # noqa
            print(f"{CLASS[b]}(n={n}, min={rp['min']}, opt={rp['opt']}) on layer shape {rp['codes']} raises {type(e).__name__}: {e}")
            return 1
    if mode == "binary":
        case = L.case_from_json(rp["case"])
        want = L.canon_vec(L.oracle_factor(case))["ok"]
        r, _, _ = L.run_binary(case, optimize=False)
        bad = classify("binary", r, want)
        print("implementation:", {k: (v if k != "ok" else v[:16]) for k, v in r.items()}); print("oracle:", want[:16])
        print("verdict:", bad[1] if bad else "holds"); return 1 if bad else 0
    if mode == "large-value":
        bad = L.large_value_followup(rp["seed"], rp["backend"], rp["n"], rp["min"], rp["opt"], rp["codes"])
        print(f"{CLASS[rp['backend']]}(n={rp['n']}) on layer shape {rp['codes']}:", bad or "holds"); return 1 if bad else 0
    if mode == "reuse":
        import random
        bad, _ = L.reuse_sequence(random.Random(rp["seed"]), rp["backend"], rp["n"], rp["min"], rp["opt"])
        print(f"{CLASS[rp['backend']]}(n={rp['n']}) serving several calls:", bad or "holds"); return 1 if bad else 0
    if mode == "chunks":
        r = L.real_chunk_list(rp["len"], rp["min"], rp["opt"])
        cs = r.get("ok")
        bad = cs is None or sum(cs, []) != list(range(rp["len"])) or any(len(c) < rp["min"] for c in cs)
        print("_chunk_list ->", r, "VIOLATES partition" if bad else "holds"); return 1 if bad else 0
    if mode == "float-scaled":
        mats = []
        for f in rp["mats"]:
            d = int(round(len(f) ** 0.5))
            M = np.array([complex(a, b) for a, b in f]).reshape(d, d)
            mats.append(L.ID2 if np.array_equal(M, L.ID2) else M)
        f = rp["psi"]
        psi = np.array([complex(f[2 * i], f[2 * i + 1]) for i in range(len(f) // 2)])
        case = {"n": rp["n"], "min": rp["min"], "opt": rp["opt"], "mats": mats, "layers": rp["layers"], "psi": psi}
        want = L.oracle_factor(case)
        bk = rp["backend"]
        r, vec, _ = L.run_binary(case, optimize=False) if bk == "binary" else L.run_layers(bk, case)
        if vec is None:
            print("implementation:", r); return 1
        err = float(np.max(np.abs(np.asarray(vec).astype(complex) - want)))
        scale = float(np.max(np.abs(want)))
        print(f"{CLASS.get(bk, 'BinaryBackend')}(n={rp['n']}), matrices {rp['scaled']['mat']} scaled by {rp['scaled']['by']}: "
              f"max |result - layered Kronecker product| = {err:.3e}, largest entry {scale:.3e}")
        bad = err > 1e-10 * max(scale, 1e-300)
        print("verdict:", "small entries were dropped or rounded away" if bad else "holds"); return 1 if bad else 0
    if mode == "float":
        mats = []
        for f in rp["mats"]:
            d = int(round(len(f) ** 0.5))
            M = np.array([complex(a, b) for a, b in f]).reshape(d, d)
            mats.append(L.ID2 if np.array_equal(M, L.ID2) else M)
        f = rp["psi"]
        psi = np.array([complex(f[2 * i], f[2 * i + 1]) for i in range(len(f) // 2)])
        case = {"n": rp["n"], "min": 3, "opt": 4, "mats": mats, "layers": [rp["layer"]], "psi": psi}
        want = L.oracle_factor(case)
        got = np.asarray(L.make_backend(rp["backend"], rp["n"], 3, 4).statevector(L.py_layers(case), psi.copy())).astype(complex)
        err = float(np.max(np.abs(got - want)))
        bad = err > 1e-10 * max(1.0, float(np.max(np.abs(want))))
        print(f"{CLASS[rp['backend']]}(n={rp['n']}) layer {rp['layer']} (entry = index into mats; near-identity = last matrix): "
              f"max |result - oracle| = {err:.3e} ->", "VIOLATES (tolerance 1e-10)" if bad else "holds")
        return 1 if bad else 0
    print("replay names a broken obligation, no input to re-run:", json.dumps(rp)[:400]); return 1
