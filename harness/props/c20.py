"""C20 — calibration import reproduces the backend's values for the requested qubits.

Lean: QG.Props.C20 (per_qubit_spec, per_qubit_at, table_shape, table_spec, table_spec_no_self_pair,
      table_single_label_zero, calib_eq_some_iff / _none_iff / calib_single_gate, error_order, rejects_unsupported_type,
      rejects_no_native_gate, load_ok_iff, ...) about QG.Model.Calibration.load, the hand-written model of
      DeviceParameters.load_from_backend AS REPAIRED by notes/fixes/D25-mixed-two-qubit-basis.diff (every supported
      two-qubit gate of the basis is imported; an unsupported device is rejected before any calibration value is read).
      On the unrepaired code the correspondence disagrees and the oracle produces the failing inputs (FakeCairoV2 with a
      layout reaching an ecr-calibrated pair; FakeKingston with a layout naming qubit 146).
Tie:  exact differential correspondence.  The harness reads the raw props_*.json / conf_*.json of a backend with plain
      `json` (never through BackendProperties), builds the model's backend record from them, sends it to the model
      driver and compares with the real `load_from_backend` (tokens = repr(float)), for
        * the 68 bundled fake backends x layout families (single label 0 / k, full, reversed, scattered, repeated ...),
        * bundled devices served through the plain-BackendV2 branch,
        * seeded synthetic devices written to a scratch directory and loaded as FakeBackendV2 subclasses / BackendV2
          objects (designed edge corpus first: self-coupled pair, mixed cx/ecr, missing dt, missing calibration ...),
        * a malformed stream: non-backend objects, bases without ecr/cx, labels out of range, empty layouts.
Oracle (independent of the model): the statement of C20 evaluated on the returned object against the raw JSON values:
      per-qubit lists, dt, table shape; every ordered pair below the largest label that the JSON calibrates with a supported
      gate of the basis (cx or ecr) holds that gate's gate_error / gate_length (either gate's if both calibrate it), zero
      elsewhere; unsupported type / no ecr, cx in the basis => ValueError for EVERY layout.
"""
import inspect, json, os, random, shutil, tempfile, time, types
import numpy as np
from qgv import core

FIVE = ("t1", "t2", "xerr", "rerr", "rlen")
ATTR = (("T1", "t1"), ("T2", "t2"), ("p", "xerr"), ("rout", "rerr"), ("tm", "rlen"))
QNAMES = {"T1": "t1", "T2": "t2", "readout_error": "rerr", "readout_length": "rlen"}
PREFIX = {"f": -15, "p": -12, "n": -9, "u": -6, "µ": -6, "m": -3, "k": 3, "M": 6, "G": 9, "T": 12, "P": 15}
DATE = "2024-01-01T00:00:00+00:00"


# ------------------------------------------------------------------------------------------------------------------
# independent reading of the raw calibration JSON

def si(value, unit):
    """SI value of a (value, unit) pair: the arithmetic of qiskit.utils.units.apply_prefix (divide for sub-units)."""
    if not unit or len(unit) == 1:
        return value
    k = PREFIX[unit[0]]
    return value / 10 ** (-k) if k < 0 else value * 10 ** k


def raw_record(props, conf):
    """what load_from_backend is supposed to reproduce, straight from the two JSON documents"""
    rec = {"n": len(props["qubits"]), "t1": {}, "t2": {}, "xerr": {}, "rerr": {}, "rlen": {}, "gate2": {},
           "anomalies": [], "coupling": len(conf.get("coupling_map") or [])}
    for q, plist in enumerate(props["qubits"]):
        for nd in plist:
            if nd["name"] in QNAMES:
                m = rec[QNAMES[nd["name"]]]
                if q in m:
                    rec["anomalies"].append(f"duplicate {nd['name']} on qubit {q}")
                m[q] = si(nd["value"], nd["unit"])
    for g in props["gates"]:
        qs = tuple(g["qubits"])
        pr = {p["name"]: si(p["value"], p["unit"]) for p in g["parameters"]}
        if g["gate"] == "x" and len(qs) == 1:
            if qs[0] in rec["xerr"]:
                rec["anomalies"].append(f"duplicate x record on qubit {qs[0]}")
            if "gate_error" in pr:
                rec["xerr"][qs[0]] = pr["gate_error"]
        if g["gate"] in ("ecr", "cx"):
            tbl = rec["gate2"].setdefault(g["gate"], {})
            if len(qs) != 2 or "gate_error" not in pr or "gate_length" not in pr:
                rec["anomalies"].append(f"{g['gate']}{list(qs)}: arity or parameters unexpected")
                continue
            if qs in tbl:
                rec["anomalies"].append(f"duplicate {g['gate']} record on {qs}")
            tbl[qs] = (pr["gate_error"], pr["gate_length"])
    rec["dt"] = conf["dt"] * 1e-9 if conf.get("dt") is not None else None      # configuration stores dt in ns
    rec["basis"] = list(conf["basis_gates"])
    return rec


def tok(v):
    return repr(float(v))


def request(rec, kind, layout):
    return {"op": "load", "kind": kind, "layout": list(layout),
            **{m: [[q, tok(v)] for q, v in rec[m].items()] for m in FIVE},
            "dt": None if rec["dt"] is None else tok(rec["dt"]), "basis": rec["basis"],
            "gate2": [[name, [[i, j, tok(e), tok(l)] for (i, j), (e, l) in tbl.items()]]
                      for name, tbl in rec["gate2"].items()]}


# ------------------------------------------------------------------------------------------------------------------
# the real code

def run_impl(backend, layout, prior=None):
    """prior: another backend the SAME DeviceParameters object is loaded from first (a reload must leave exactly the second device's values)"""
    from quantum_gates._utility.device_parameters import DeviceParameters
    dp = DeviceParameters(list(layout))
    if prior is not None:
        try:
            dp.load_from_backend(prior)
        except Exception:                                    # noqa
            pass
    try:
        dp.load_from_backend(backend)
    except Exception as e:                                   # noqa
        return {"err": type(e).__name__}, None
    out = {}
    try:
        for a in ("T1", "T2", "p", "rout", "tm", "dt"):
            out[a] = [tok(x) for x in getattr(dp, a)]
        for a in ("p_int", "t_int"):
            t = np.asarray(getattr(dp, a))
            out[a] = [[tok(x) for x in row] for row in t.tolist()] if t.ndim == 2 else {"shape": list(t.shape)}
    except Exception as e:                                   # noqa
        return {"uncanonical": f"{type(e).__name__}: {e}"}, dp
    return {"ok": out}, dp


TAG_MIXED = "mixed-basis-second-gate-not-imported"
TAG_ORDER = "unsupported-device-rejected-after-property-lookups"


def oracle(rec, kind, layout, res, dp):
    """C20 evaluated directly on the returned object against the raw JSON record.
    Returns (failure text or None, classification of the case, defect tag or None)."""
    err = res.get("err")
    got = f"raised {err}" if err else "returned normally"
    # -- rejection clause: "a backend without a supported two-qubit gate or of an unsupported type is rejected with
    #    ValueError" — for every layout and whatever else the calibration record holds or lacks
    if kind == "other":
        return (None if err == "ValueError" else f"object of unsupported type is not rejected with ValueError ({got})"), "reject:type", None
    if rec["anomalies"]:
        return None, "outside:anomalous calibration record", None
    native = list(dict.fromkeys(g for g in rec["basis"] if g in ("ecr", "cx")))       # supported gates, basis order
    if not native:
        if err == "ValueError":
            return None, "reject:no ecr/cx in basis", None
        return (f"backend without ecr/cx in its basis is not rejected with ValueError ({got})", "reject:no ecr/cx in basis",
                TAG_ORDER if err in ("BackendPropertyError", "AttributeError") else None)
    # -- import clauses: the domain is a non-empty layout of labels whose calibration record is complete
    if not layout:
        return None, "outside:empty layout", None
    if any(q < 0 for q in layout):
        return (None if err else "returned although a label is negative"), "outside:negative label", None
    miss = [q for q in layout if any(q not in rec[m] for m in FIVE)]
    if miss:
        return ((None if err else f"returned although qubit {miss[0]} has no complete calibration record"),
                "outside:a requested qubit lacks a calibration value" if any(q < rec["n"] for q in miss)
                else "outside:label beyond the device", None)
    if rec["dt"] is None:
        return None, "outside:configuration without dt", None
    norec = [g for g in native if g not in rec["gate2"]]
    if norec:
        return None, f"outside:basis names {norec[0]} but the properties hold no {norec[0]} record", None
    if any(i == j for g in native for (i, j) in rec["gate2"][g]):
        return None, "outside:self-coupled pair in the calibration record", None
    cls = "in-domain" if len(native) == 1 else "in-domain:mixed cx/ecr basis"
    if err or dp is None or "ok" not in res:
        return f"valid backend and layout, but the import {got} / {json.dumps(res)[:120]}", cls, None
    for a, m in ATTR:
        xs = list(getattr(dp, a))
        if len(xs) != len(layout):
            return f"{a} has length {len(xs)}, layout has {len(layout)}", cls, None
        for k, q in enumerate(layout):
            if not (xs[k] == rec[m][q]):
                return f"{a}[{k}]={xs[k]!r} but the backend's value for qubit {q} is {rec[m][q]!r}", cls, None
    if not (len(dp.dt) == 1 and dp.dt[0] == rec["dt"]):
        return f"dt={list(dp.dt)!r}, backend dt={rec['dt']!r}", cls, None
    # -- tables: every ordered pair (i, j), i, j <= max(layout), that the raw JSON calibrates with a supported gate of the
    #    basis holds that gate's (gate_error, gate_length); if both gates calibrate the pair either gate's values are
    #    accepted (the same gate in both tables); every other cell is zero
    M = max(layout)
    Pm, Tm = np.asarray(dp.p_int), np.asarray(dp.t_int)
    for name, have in (("p_int", Pm), ("t_int", Tm)):
        if have.shape != (M + 1, M + 1):
            return f"{name}.shape={have.shape}, expected {(M + 1, M + 1)}", cls, None
    ok = np.zeros((M + 1, M + 1), dtype=bool)
    cal = np.zeros((M + 1, M + 1), dtype=bool)
    for g in native:
        P, T, mask = np.zeros((M + 1, M + 1)), np.zeros((M + 1, M + 1)), np.zeros((M + 1, M + 1), dtype=bool)
        for (i, j), (e, l) in rec["gate2"][g].items():
            if i <= M and j <= M:
                P[i, j], T[i, j], mask[i, j] = e, l, True
        ok |= mask & (Pm == P) & (Tm == T)
        cal |= mask
    ok |= ~cal & (Pm == 0) & (Tm == 0)
    if ok.all():
        return None, cls, None
    i, j = [int(v[0]) for v in np.nonzero(~ok)]
    have = f"p_int[{i},{j}]={float(Pm[i, j])!r}, t_int[{i},{j}]={float(Tm[i, j])!r}"
    if not cal[i, j]:
        return f"{have} but no supported gate of the basis calibrates the ordered pair ({i},{j}): zero expected", cls, None
    gs = [g for g in native if (i, j) in rec["gate2"][g]]
    want = ", ".join(f"{g}: gate_error={float(rec['gate2'][g][(i, j)][0])!r}, gate_length={float(rec['gate2'][g][(i, j)][1])!r}" for g in gs)
    tag = TAG_MIXED if len(native) > 1 and native[0] not in gs and Pm[i, j] == 0 and Tm[i, j] == 0 else None
    return (f"{have} but the backend calibrates the ordered pair ({i},{j}) with {want}"
            + (f" (basis {native}: only {native[0]} was imported)" if tag else ""), cls, tag)


# ------------------------------------------------------------------------------------------------------------------
# backends

def bundled_classes():
    from qiskit_ibm_runtime import fake_provider
    from qiskit_ibm_runtime.fake_provider.fake_backend import FakeBackendV2
    return {n: c for n, c in sorted(vars(fake_provider).items())
            if inspect.isclass(c) and issubclass(c, FakeBackendV2) and c is not FakeBackendV2}


def bundled_raw(cls):
    with open(os.path.join(cls.dirname, cls.props_filename)) as f:
        props = json.load(f)
    with open(os.path.join(cls.dirname, cls.conf_filename)) as f:
        conf = json.load(f)
    return props, conf


CONF_TEMPLATE = {"backend_name": "synth", "backend_version": "1.0.0", "n_qubits": 1, "basis_gates": [], "gates": [],
                 "local": False, "simulator": False, "conditional": False, "open_pulse": False, "memory": True,
                 "max_shots": 100, "coupling_map": [], "online_date": DATE, "description": "synthetic device"}


class Scratch:
    """synthetic devices as JSON files in a scratch directory + FakeBackendV2 subclasses pointing at them"""

    def __init__(self):
        self.dir = tempfile.mkdtemp(prefix="c20-")
        self.k = 0

    def fake(self, props, conf):
        from qiskit_ibm_runtime.fake_provider.fake_backend import FakeBackendV2
        self.k += 1
        pf, cf = f"props_{self.k}.json", f"conf_{self.k}.json"
        with open(os.path.join(self.dir, pf), "w") as f:
            json.dump(props, f)
        with open(os.path.join(self.dir, cf), "w") as f:
            json.dump(conf, f)
        cls = type(f"Synth{self.k}", (FakeBackendV2,), {"dirname": self.dir, "conf_filename": cf,
                                                        "props_filename": pf, "backend_name": f"synth{self.k}"})
        return cls()

    def close(self):
        shutil.rmtree(self.dir, ignore_errors=True)


def as_v2(fake):
    """the same calibration data behind a plain BackendV2 (the `elif isinstance(backend, Backend)` branch)"""
    from qiskit.providers import BackendV2, Options
    from qiskit_ibm_runtime.models import BackendProperties, BackendConfiguration
    fake._set_props_dict_from_json()
    p, c = fake._props_dict, fake._conf_dict

    class MiniV2(BackendV2):
        def properties(self):
            return BackendProperties.from_dict(p)

        def configuration(self):
            return BackendConfiguration.from_dict(c)

        @property
        def target(self):
            return None

        @property
        def max_circuits(self):
            return None

        @classmethod
        def _default_options(cls):
            return Options()

        def run(self, *a, **k):
            raise NotImplementedError
    return MiniV2(name="mini")


def as_other(fake, flavour):
    """objects that are not backends (some of them quack like one)"""
    if flavour == "duck":
        fake._set_props_dict_from_json()
        return types.SimpleNamespace(properties=fake.properties, configuration=fake.configuration,
                                     _props_dict=fake._props_dict, _conf_dict=fake._conf_dict,
                                     _set_props_dict_from_json=lambda: None)
    return {"none": None, "dict": {"basis_gates": ["cx"]}, "str": "FakeLimaV2", "class": type(fake)}[flavour]


def build(scr, spec):
    """spec -> (backend object, raw record).  spec: {"src":"bundled","name":..} | {"src":"synthetic","props":..,"conf":..};
    "kind": fake|v2|other (+"flavour")"""
    if spec["src"] == "bundled":
        cls = bundled_classes()[spec["name"]]
        props, conf = bundled_raw(cls)
        fake = cls()
    else:
        props, conf = spec["props"], spec["conf"]
        fake = scr.fake(props, conf)
    rec = raw_record(props, conf)
    if spec["kind"] == "fake":
        return fake, rec
    if spec["kind"] == "v2":
        return as_v2(fake), rec
    return as_other(fake, spec.get("flavour", "none")), rec


# ------------------------------------------------------------------------------------------------------------------
# generators

def nduv(name, unit, value):
    return {"date": DATE, "name": name, "unit": unit, "value": value}


def synth(n, basis, pairs, dt=0.25, drop=(), units=("us", "us", "ns", "ns"), val=None, extra_gates=()):
    """pairs: {gate name: [(i, j), ...]}; drop: set of (property, qubit) to leave out; val(tag, *idx) -> number"""
    val = val or (lambda tag, *ix: {"T1": 100.5, "T2": 60.25, "re": 0.01, "rl": 700.0, "xe": 0.001, "ge": 0.02,
                                    "gl": 300.0}[tag] + sum(ix[k] * (1 + 7 * k) for k in range(len(ix))) / 8)
    qubits = []
    for q in range(n):
        pl = [nduv("frequency", "GHz", 5.0 + q)]
        for name, tag, unit in (("T1", "T1", units[0]), ("T2", "T2", units[1]), ("readout_error", "re", ""),
                                ("readout_length", "rl", units[2])):
            if (name, q) not in drop:
                pl.append(nduv(name, unit, val(tag, q)))
        qubits.append(pl)
    gates = []
    for q in range(n):
        if ("x", q) not in drop:
            gates.append({"qubits": [q], "gate": "x", "name": f"x{q}",
                          "parameters": [nduv("gate_error", "", val("xe", q)), nduv("gate_length", "ns", 35.5)]})
        gates.append({"qubits": [q], "gate": "sx", "name": f"sx{q}",
                      "parameters": [nduv("gate_error", "", 0.5), nduv("gate_length", "ns", 35.5)]})
    for g, pl in pairs.items():
        for (i, j) in pl:
            gates.append({"qubits": [i, j], "gate": g, "name": f"{g}{i}_{j}",
                          "parameters": [nduv("gate_error", "", val("ge", i, j) if g != "ecr" else val("ge", j, i) + 0.5),
                                         nduv("gate_length", units[3], val("gl", i, j))]})
    gates += list(extra_gates)
    props = {"backend_name": "synth", "backend_version": "1.0.0", "last_update_date": DATE, "general": [],
             "qubits": qubits, "gates": gates}
    conf = dict(CONF_TEMPLATE, n_qubits=n, basis_gates=list(basis),
                coupling_map=sorted({tuple(p) for pl in pairs.values() for p in pl}))
    if dt is not None:
        conf["dt"] = dt
    return {"src": "synthetic", "props": props, "conf": conf}


LINE = lambda n: [(i, i + 1) for i in range(n - 1)] + [(i + 1, i) for i in range(n - 1)]   # noqa


def designed():
    """(label, spec without kind, layouts) — edge cases first"""
    std = ["id", "rz", "sx", "x"]
    return [
        ("self-coupled pair (0,0): guard max_qubit>1", synth(3, ["ecr"] + std, {"ecr": [(0, 0), (0, 1), (2, 1)]}),
         [[0], [0, 0], [1], [1, 0], [2]]),
        ("mixed basis cx before ecr", synth(4, ["cx", "ecr"] + std, {"cx": [(0, 1), (1, 0)], "ecr": [(1, 2), (3, 2)]}),
         [[0, 1, 2, 3], [3], [0]]),
        ("mixed basis ecr before cx", synth(4, std + ["ecr", "cx"], {"cx": [(0, 1), (1, 0)], "ecr": [(1, 2), (3, 2)]}),
         [[0, 1, 2, 3], [2, 0]]),
        ("mixed basis, pair (0,1) calibrated with both gates", synth(3, ["cx", "ecr"] + std, {"cx": [(0, 1), (1, 0)], "ecr": [(0, 1), (1, 2)]}),
         [[0, 1, 2], [2], [1]]),
        ("mixed basis ecr first, pair (0,1) calibrated with both gates", synth(3, std + ["ecr", "cx"], {"cx": [(0, 1), (1, 0)], "ecr": [(0, 1), (1, 2)]}),
         [[0, 1, 2], [2, 0]]),
        ("basis names ecr, properties hold only cx", synth(3, ["ecr"] + std, {"cx": LINE(3)}), [[0, 1], [2]]),
        ("ecr records present but basis is cx", synth(3, std + ["cx", "reset"], {"cx": LINE(3), "ecr": [(0, 2)]}),
         [[0, 1, 2], [2, 0]]),
        ("no dt", synth(3, std + ["cx"], {"cx": LINE(3)}, dt=None), [[0, 1], [], [5]]),
        ("no native gate, complete calibration", synth(3, ["cz"] + std, {"cz": LINE(3)}), [[0], [2, 1, 0], []]),
        ("no native gate and T1 of qubit 1 missing", synth(3, ["cz"] + std, {"cz": LINE(3)}, drop={("T1", 1)}),
         [[0], [1], [2, 1], [0, 2]]),
        ("readout_length of qubit 2 missing and no dt", synth(3, std + ["cx"], {"cx": LINE(3)}, dt=None,
                                                              drop={("readout_length", 2)}), [[2], [0]]),
        ("x calibration of qubit 0 missing", synth(3, std + ["cx"], {"cx": LINE(3)}, drop={("x", 0)}),
         [[0], [1, 2], [2, 0]]),
        ("one-qubit device without two-qubit gate", synth(1, std, {}), [[0], [0, 0]]),
        ("one-qubit device whose basis lists cx (no record)", synth(1, std + ["cx"], {}), [[0]]),
        ("one-qubit device, cx in basis, empty-handed neighbour records", synth(2, std + ["cx"], {"cx": [(1, 0)]}),
         [[0], [1], [0, 1], [1, 1]]),
        ("pairs beyond the largest label are skipped", synth(5, std + ["cx"], {"cx": LINE(5)}),
         [[1], [2, 0], [3, 3, 1], [4], [0, 1, 2, 3, 4], [4, 3, 2, 1, 0], [5], [0, 7]]),
        ("directed ecr, scattered labels", synth(7, ["ecr"] + std, {"ecr": [(0, 1), (2, 1), (2, 3), (4, 3), (5, 4), (5, 6)]}),
         [[6, 0], [3], [5, 2, 4], [1, 1, 1], list(range(7)), list(range(6, -1, -1))]),
        ("integer-valued entries and other units", synth(3, std + ["cx"], {"cx": LINE(3)}, units=("µs", "ms", "us", "s"),
                                                         val=lambda tag, *ix: 1 + sum(ix) if tag in ("ge", "rl", "xe") else 2.5 + sum(ix)),
         [[0, 1, 2], [2]]),
        ("three-qubit gate records and unrelated two-qubit gates are ignored",
         synth(3, std + ["cx", "rzz", "ccx"], {"cx": LINE(3), "rzz": LINE(3)},
               extra_gates=[{"qubits": [0, 1, 2], "gate": "ccx", "name": "ccx0_1_2",
                             "parameters": [nduv("gate_error", "", 0.3), nduv("gate_length", "ns", 900.0)]}]),
         [[0, 1, 2]]),
    ]


def random_synth(rng):
    n = rng.choice([1, 2, 2, 3, 3, 4, 5, 6, 7])
    pool = ["id", "rz", "sx", "x", "reset", "u3", "rzz", "cz"]
    basis = rng.sample(pool, rng.randint(2, 5))
    mode = rng.choice(["cx", "cx", "ecr", "ecr", "both", "none", "cz"])
    if mode in ("cx", "both"):
        basis.insert(rng.randint(0, len(basis)), "cx")
    if mode in ("ecr", "both"):
        basis.insert(rng.randint(0, len(basis)), "ecr")
    allp = [(i, j) for i in range(n) for j in range(n) if i != j]
    pairs = {}
    for g in ("cx", "ecr", "cz"):
        have = (g in basis and rng.random() < 0.92) or (g not in basis and g != "cz" and rng.random() < 0.25)
        if have and allp:
            pl = rng.sample(allp, rng.randint(1, min(len(allp), 2 * n)))
            if g == "cx":
                pl = sorted(set(pl) | {(j, i) for i, j in pl})
            if rng.random() < 0.06:
                pl.append((rng.randrange(n),) * 2)
            pairs[g] = pl
        elif have and rng.random() < 0.5:
            pairs[g] = [(0, 0)]
    drop = set()
    if rng.random() < 0.3:
        for _ in range(rng.randint(1, 2)):
            drop.add((rng.choice(["T1", "T2", "readout_error", "readout_length", "x"]), rng.randrange(n)))
    seed = rng.random()
    ints = rng.random() < 0.15

    def val(tag, *ix):
        r = random.Random(f"{seed}-{tag}-{ix}")
        return r.randint(0, 9) if ints and tag in ("ge", "xe", "rl", "gl") else r.random() * r.choice([1e-3, 1.0, 250.0])
    units = (rng.choice(["us", "µs", "ms"]), rng.choice(["us", "µs", "s"]), rng.choice(["ns", "us"]), rng.choice(["ns", "ns", "ps"]))
    spec = synth(n, basis, pairs, dt=None if rng.random() < 0.06 else rng.choice([0.2222222222222222, 0.5, 4.0, rng.random()]),
                 drop=drop, units=units, val=val)
    layouts = []
    for _ in range(3):
        r = rng.random()
        if r < 0.04:
            L = []
        elif r < 0.10:
            L = [rng.randrange(n + 3) for _ in range(rng.randint(1, 3))]
        else:
            L = [rng.randrange(n) for _ in range(rng.choice([1, 1, 2, 3, n, n + 1]))]
            if rng.random() < 0.5:
                L = list(dict.fromkeys(L))
        layouts.append(L)
    layouts.append(rng.choice([[0], list(range(n)), list(range(n - 1, -1, -1))]))
    return spec, layouts


def layouts_for(rng, n, rec, budget):
    """layout families for a bundled device of n qubits; budget = how many (the cheap, informative ones first)"""
    fam = [("single0", [0])]
    if n > 1:
        fam.append(("singlek", [rng.randrange(1, n)]))
        sub = rng.sample(range(n), min(n, rng.randint(2, 6)))
        fam.append(("scattered", sub))
        fam.append(("reversed", list(range(n - 1, -1, -1))))
        fam.append(("full", list(range(n))))
        perm = list(range(n)); rng.shuffle(perm)
        fam.append(("shuffled", perm))
        fam.append(("repeated", [rng.randrange(n) for _ in range(rng.randint(2, 5))] + [rng.randrange(n)] * 2))
        fam.append(("prefix", list(range(rng.randint(1, max(1, min(n - 1, 6))) + 1))))
    else:
        fam.append(("repeated", [0, 0]))
    fam.append(("beyond_device", [0, n + rng.randint(0, 3)]))
    holes = [q for q in range(n) if any(q not in rec[m] for m in FIVE)]
    out = fam[:budget]
    if not any(g in ("ecr", "cx") for g in rec["basis"]) and budget < len(fam):
        out.append(fam[-1])                                       # unsupported device: the rejection must not depend on the layout
    if holes and len(holes) < n:                                  # a device with a hole in its calibration (FakeKingston)
        out.append(("incomplete_qubit", [holes[0]]))
        out.append(("around_incomplete_qubit", [q for q in rng.sample(range(n), min(n, 5)) if q not in holes] or [0]))
    return out


# ------------------------------------------------------------------------------------------------------------------

def shrink_layout(scr, spec, layout, tag=None):
    """drop labels while the oracle keeps failing in the same way (bounded number of re-executions)"""
    tries = 0
    cur = list(layout)
    changed = True
    while changed and tries < 40 and len(cur) > 1:
        changed = False
        for k in range(len(cur)):
            cand = cur[:k] + cur[k + 1:]
            tries += 1
            b, rec = build(scr, spec)
            res, dp = run_impl(b, cand)
            o = oracle(rec, spec["kind"], cand, res, dp)
            if o[0] and o[2] == tag:
                cur, changed = cand, True
                break
            if tries >= 40:
                break
    return cur


def main(ctx):
    lean = ctx.lean("QG.Props.C20")
    rng = ctx.rng
    scr = Scratch()
    try:
        _run(ctx, lean, rng, scr)
    finally:
        scr.close()


def _run(ctx, lean, rng, scr):
    cases = []          # (spec, layout, family, rec, backend)
    devices = {}
    t0 = time.time()
    classes = bundled_classes()
    # ---- 1. designed corpus (synthetic), every kind
    for label, spec, layouts in designed():
        for kind in ("fake", "v2"):
            s = dict(spec, kind=kind, label=label)
            b, rec = build(scr, s)
            for L in layouts:
                cases.append((s, L, "designed:" + kind, rec, b))
    # ---- 2. the bundled devices
    for name, cls in classes.items():
        props, conf = bundled_raw(cls)
        rec = raw_record(props, conf)
        n = rec["n"]
        native = [g for g in rec["basis"] if g in ("ecr", "cx")]
        loads = bool(native) and native[0] in rec["gate2"]
        if ctx.thorough:
            budget = 9
        elif n >= 100:
            budget = 5 if loads else 2
        elif n > 30:
            budget = 6 if loads else 3
        else:
            budget = 9
        s = {"src": "bundled", "name": name, "kind": "fake"}
        b = cls()
        lays = layouts_for(rng, n, rec, budget)
        if ctx.thorough and n > 1:
            for _ in range(6 if n >= 100 else 12):
                lays.append(("random", [rng.randrange(n) for _ in range(rng.randint(1, min(n, 12)))]))
        for fam, L in lays:
            cases.append((s, L, "bundled:" + fam, rec, b))
        devices[name] = {"qubits": n, "basis": rec["basis"], "native_in_basis": native,
                         "two_qubit_records": {g: len(t) for g, t in rec["gate2"].items()},
                         "x_records": len(rec["xerr"]), "coupling_map_pairs": rec["coupling"], "anomalies": rec["anomalies"],
                         "self_coupled_pairs": sum(i == j for t in rec["gate2"].values() for (i, j) in t), "layouts": len(lays)}
    # ---- 3. bundled devices behind the plain-BackendV2 branch, and as non-backends
    small = [n for n in classes if devices[n]["qubits"] <= 30]
    for name in rng.sample(small, min(len(small), 20 if ctx.thorough else 8)):
        s = {"src": "bundled", "name": name, "kind": "v2"}
        b, rec = build(scr, s)
        for fam, L in layouts_for(rng, rec["n"], rec, 4):
            cases.append((s, L, "bundled-v2:" + fam, rec, b))
    for flavour in ("none", "dict", "str", "class", "duck"):
        s = {"src": "bundled", "name": "FakeLimaV2", "kind": "other", "flavour": flavour}
        b, rec = build(scr, s)
        cases.append((s, [0, 1], "object:" + flavour, rec, b))
    # ---- 4. seeded synthetic devices
    for _ in range(4000 if ctx.thorough else 350):
        spec, layouts = random_synth(rng)
        r = rng.random()
        s = dict(spec, kind="fake" if r < 0.6 else "v2" if r < 0.9 else "other", flavour="duck")
        b, rec = build(scr, s)
        for L in layouts:
            cases.append((s, L, "synthetic:" + s["kind"], rec, b))
    # ---- negative labels: not representable in the model (labels are Nat); real code + oracle only
    neg = []
    for name in ("FakeLimaV2", "FakePerth"):
        s = {"src": "bundled", "name": name, "kind": "fake"}
        b, rec = build(scr, s)
        for L in ([-1], [0, -2], [-1, 3]):
            neg.append((s, L, "negative_label", rec, b))
    t_gen = time.time() - t0

    # ---- run the real code, the oracle, and collect the model requests
    t0 = time.time()
    reqs, impl, fails, classes_seen, fam_hist, out_hist, len_hist, side_hist = [], [], [], {}, {}, {}, {}, {}
    seen, nontrivial = set(), set()
    guard_skips = pairs_skipped = 0
    per_dev_outcome = {}
    for idx, (s, L, fam, rec, b) in enumerate(cases + neg):
        res, dp = run_impl(b, L)
        ctx.count()
        bad, cl, tag = oracle(rec, s["kind"], L, res, dp)
        classes_seen[cl] = classes_seen.get(cl, 0) + 1
        fam_hist[fam] = fam_hist.get(fam, 0) + 1
        oc = res.get("err") or ("ok" if "ok" in res else "uncanonical")
        out_hist[oc] = out_hist.get(oc, 0) + 1
        len_hist[len(L)] = len_hist.get(len(L), 0) + 1
        if bad:
            fails.append((s, L, fam, bad, cl, tag))
        if idx < len(cases):
            impl.append(res)
            reqs.append(request(rec, s["kind"], L))
        if s["src"] == "bundled" and s["kind"] == "fake":
            per_dev_outcome.setdefault(s["name"], {}).setdefault(oc, 0)
            per_dev_outcome[s["name"]][oc] += 1
        key = core.sha([s.get("name") or s["props"], s.get("conf"), s["kind"], L])
        if key not in seen:
            seen.add(key)
            filled = "ok" in res and any(x != "0.0" for row in res["ok"]["p_int"] for x in row)
            if (filled and L != list(range(rec["n"]))) or "err" in res:
                nontrivial.add(key)
        if "ok" in res:
            M = max(L)
            side_hist[M + 1] = side_hist.get(M + 1, 0) + 1
            guard_skips += M == 0
            native = [g for g in rec["basis"] if g in ("ecr", "cx")]
            if native and any(i > M or j > M for (i, j) in rec["gate2"].get(native[0], {})):
                pairs_skipped += 1
    # ---- reload: one DeviceParameters object loaded from a first device, then from a second one with another coupling map
    loadable = [(s, L, rec, b) for (s, L, fam, rec, b), r in zip(cases, impl) if "ok" in r and s["kind"] in ("fake", "v2")]
    n_reload = 0
    for _ in range(120 if ctx.thorough else 30):
        if len(loadable) < 2:
            break
        (s1, L1, rec1, b1), (s2, L2, rec2, b2) = rng.sample(loadable, 2)
        if b1 is b2 or max(L2) >= rec1["n"]:
            continue
        res, dp = run_impl(b2, L2, prior=b1)
        ctx.count(); n_reload += 1
        bad, cl, tag = oracle(rec2, s2["kind"], L2, res, dp)
        if bad:
            s2r = dict(s2, _prior=s1)
            fails.append((s2r, L2, "reload", bad + " (the same DeviceParameters object had been loaded from another device before)", cl, "reload-keeps-values-of-the-first-device"))
    fam_hist["reload"] = n_reload
    t_impl = time.time() - t0
    t0 = time.time()
    model = core.Driver(ctx.pid).batch(reqs)
    t_model = time.time() - t0
    mism = [(cases[i], impl[i], model[i]) for i in range(len(reqs)) if impl[i] != model[i]]

    # ---- evidence
    for name, d in devices.items():
        oc = per_dev_outcome.get(name, {})
        d["outcomes"] = oc
        nat = list(dict.fromkeys(d["native_in_basis"]))
        if not nat:
            d["status"] = ("unsupported (basis has neither ecr nor cx): must be rejected with ValueError for every layout; observed "
                           + ", ".join(f"{k} x{v}" for k, v in sorted(oc.items())))
        elif "ok" not in oc:
            d["status"] = ("outside the import clauses: " + ("calibration predates the x gate (no `x` record for any qubit)" if not d["x_records"]
                           else "no layout loads") + f"; every layout ends in {sorted(oc)}; the model predicts the same exception")
        elif len(nat) > 1:
            d["status"] = (f"loads; MIXED basis {nat}: " + ", ".join(f"{d['two_qubit_records'].get(g, 0)} ordered pairs calibrated with {g}" for g in nat)
                           + "; the oracle demands the values of every calibrated pair whichever of the two gates calibrates it (defect D25 on "
                           "the unrepaired code: only the first gate of the basis was imported)")
        else:
            d["status"] = "loads: every clause of the statement checked against the raw JSON"
        if "BackendPropertyError" in oc and "ok" in oc:
            d["status"] += (f"; {oc['BackendPropertyError']} layout(s) naming a qubit without a complete calibration record or beyond "
                            "the device end in BackendPropertyError (outside the statement; predicted by the model)")
    cov = ctx.coverage
    cov["distinct_nontrivial"] = len(nontrivial)
    cov["rule"] = ("case = (device, backend type, layout). Devices: the %d bundled fake backends (every one, with 2-9+ layouts: "
                   "single label 0, single label k>0, scattered subset in random order, reversed, full, shuffled, repeated labels, "
                   "prefix, label beyond the device, qubits with a hole in the calibration), bundled devices behind the plain "
                   "BackendV2 branch, non-backend objects, a designed synthetic corpus and seeded synthetic devices (1-7 qubits; "
                   "cx/ecr/both/neither; directed pairs; missing records; units us/µs/ms/s/ns/ps; integer values). non-trivial = "
                   "distinct case that either fills at least one table cell with a layout other than 0..n-1 ascending, or ends in "
                   "a rejection / accessor error" % len(classes))
    cov["traces_validated_against_impl"] = len(reqs)
    cov["correspondence_mismatches"] = len(mism)
    cov["oracle_failures"] = len(fails)
    cov["bundled_backends"] = len(classes)
    cov["bundled_outcome_summary"] = {
        "load": sum(1 for d in devices.values() if d["status"].startswith("loads")),
        "rejected_no_ecr_cx": sum(1 for d in devices.values() if d["status"].startswith("unsupported")),
        "outside_no_x_calibration": sum(1 for d in devices.values() if d["status"].startswith("outside")),
        "mixed_cx_ecr": [n for n, d in devices.items() if len(set(d["native_in_basis"])) > 1]}
    cov["devices"] = devices
    cov["oracle_classification"] = dict(sorted(classes_seen.items()))
    cov["family_histogram"] = dict(sorted(fam_hist.items()))
    cov["outcome_histogram"] = out_hist
    cov["layout_length_histogram"] = {str(k): v for k, v in sorted(len_hist.items())}
    cov["table_side_histogram"] = {str(k): v for k, v in sorted(side_hist.items())}
    cov["branches"] = {"guard_max_qubit_gt_1_skipped_loop": int(guard_skips), "loads_with_pairs_beyond_largest_label_skipped": pairs_skipped,
                       "negative_label_cases_real_code_only": len(neg)}
    cov["timing_s"] = {"generate": round(t_gen, 1), "real_code_and_oracle": round(t_impl, 1), "model_driver": round(t_model, 1)}
    for i in (0, 6, len(designed()) * 2 + 3):
        if i < len(cases):
            s, L, fam, rec, _ = cases[i]
            ctx.sample({"family": fam, "device": s.get("name") or s.get("label") or "synthetic", "kind": s["kind"], "layout": L,
                        "impl": json.dumps(impl[i])[:300]})
    cov["remarks"] = [
        "D25 (defect, both parts repaired by notes/fixes/D25-mixed-two-qubit-basis.diff; the model follows the repaired code): "
        "(a) on a device whose basis lists both cx and ecr (FakeCairoV2: 12 cx pairs, 14 ecr pairs) the unrepaired code imports only the "
        "first of the two in basis order, the pairs calibrated with the other gate get error 0 and duration 0; (b) the unrepaired code "
        "tests for a supported two-qubit gate after the per-qubit lookups, so an unsupported device is rejected with "
        "BackendPropertyError / AttributeError instead of ValueError when the layout names a qubit without a complete calibration record "
        "(FakeKingston, qubit 146: no T1/T2), a label beyond the device, or the configuration has no dt.",
        "on a pair calibrated with BOTH supported gates of a mixed basis the oracle accepts either gate's values (the same gate in "
        "both tables); the model and the correspondence pin the choice: the gate that comes first in the basis (theorem table_spec, `calib`).",
        "two-qubit records of a gate that is not in basis_gates are not 'native' and are not imported (designed corpus).",
        "the guard `max_qubit > 1` only matters for a self-coupled pair (0,0), which no device has (table_spec vs "
        "table_spec_no_self_pair); exercised by the designed corpus."]
    cov["trusted_base"] += [
        "hand-written model QG/Model/Calibration.lean, tied by exact differential correspondence with load_from_backend on every "
        "case of this run (a dict = its item list; calibration values are opaque tokens, compared as repr(float))",
        "the backend record fed to the model is read from the raw props/conf JSON by harness/props/c20.py:raw_record (plain json; "
        "last record wins on duplicates, as in a dict); unit prefixes are applied with the arithmetic of "
        "qiskit.utils.units.apply_prefix (value / 10**k), dt is conf['dt'] * 1e-9 as in QasmBackendConfiguration",
        "Qiskit's BackendProperties accessors (t1, t2, gate_error, readout_error, readout_length, gate_property) return the JSON "
        "values keyed as modelled and raise BackendPropertyError on a missing entry: observed through the correspondence, not proved",
        "not modelled: the metadata entry; a cx/ecr record lacking gate_error or gate_length (KeyError; none in the bundled data); "
        "negative labels (run on the real code only: BackendPropertyError)"]
    ctx.assumptions += [
        "layout labels are natural numbers; a two-qubit gate record couples two distinct qubits (hypothesis of "
        "table_spec_no_self_pair; true of all bundled devices, checked on the raw JSON on every run)",
        "'the backend's native two-qubit gate values of an ordered pair' are read as: the gate_error / gate_length the properties hold "
        "for the pair under a supported gate (ecr, cx) that basis_gates lists (`calib`, calib_eq_some_iff / calib_eq_none_iff)",
        "for a SUPPORTED device, devices whose calibration has no `x` gate record (10 bundled u1/u2/u3 devices), layouts naming a qubit "
        "without a complete record or beyond the device, empty layouts, a configuration without dt and a basis naming ecr/cx without "
        "any such record are outside the import clauses; the check still requires the model to predict the exception raised. The "
        "rejection clause (unsupported type / no ecr, cx in the basis => ValueError) is evaluated for every layout and record"]
    # ---- decide
    # one representative per kind of failure (defect tag), bundled devices and in-device layouts first; then a few more
    def rank(f):
        s, L = f[0], f[1]
        n = json.dumps(s.get("name") or "")
        return (s["src"] != "bundled", s["kind"] != "fake", any(q >= 200 for q in L), len(L), n)
    by_tag = {}
    for f in fails:
        by_tag.setdefault(f[5], []).append(f)
    report = []
    for tag, fl in by_tag.items():
        fl = sorted(fl, key=rank)
        if tag == TAG_ORDER:                       # prefer a layout inside the device (a qubit with a calibration hole)
            fl = sorted(fl, key=lambda f: (f[0]["src"] != "bundled", f[2] != "bundled:incomplete_qubit") + rank(f))
        report += fl[:2 if tag else 4]
    cov["oracle_failures_by_defect"] = {str(t): len(fl) for t, fl in by_tag.items()}
    for s, L, fam, bad, cl, tag in report:
        Ls = shrink_layout(scr, s, L, tag) if (len(L) > 1 and "_prior" not in s) else L
        if Ls != L:
            b, rec = build(scr, s)
            res, dp = run_impl(b, Ls)
            bad = oracle(rec, s["kind"], Ls, res, dp)[0] or bad
        dev = s.get("name") or s.get("label") or "synthetic"
        sig = {"kind": "oracle", "defect": tag, "device": dev, "backend_type": s["kind"], "class": cl.split(":")[0]}
        rp = {"spec": {k: v for k, v in s.items()}, "layout": Ls, "original_layout": L, "failure": bad, "classification": cl,
              "defect": tag}
        ctx.violation(sig, rp, f"load_from_backend({dev}, kind={s['kind']}, layout={Ls}): {bad}")
    if not fails:
        if mism:
            (s, L, fam, rec, _), a, m = mism[0]
            diff = a if ("ok" not in a or "ok" not in m) else {k: "differs" for k in a["ok"] if a["ok"][k] != m["ok"].get(k)}
            ctx.violation({"kind": "correspondence"},
                          {"spec": s, "layout": L, "family": fam, "impl": json.dumps(a)[:600], "model": json.dumps(m)[:600], "diff": diff,
                           "mismatches": len(mism), "broken": "correspondence load_from_backend vs QG.Model.Calibration.load"},
                          f"model and implementation disagree on {len(mism)} case(s) (first: {s.get('name') or s.get('label') or 'synthetic'}, "
                          f"layout {L}) although the property's oracle passes on every explored case", no_failing_input=True)
        if not lean.ok:
            ctx.violation({"kind": "proof"}, {"broken": lean.failed}, "Lean obligations of C20 do not check; oracle passes on every "
                          "explored case", no_failing_input=True)
    print(f"[{ctx.pid}] {len(classes)} bundled devices, {len(cases) + len(neg)} cases, {len(mism)} correspondence mismatches, "
          f"{len(fails)} oracle failures; real code {t_impl:.1f}s, model {t_model:.1f}s")


def replay(ctx, path):
    rp = json.load(open(path))["replay"]
    if "spec" not in rp or "layout" not in rp or rp.get("broken"):
        print("replay names a broken obligation, no input to re-run:", json.dumps(rp)[:600]); return 1
    scr = Scratch()
    try:
        s, L = rp["spec"], rp["layout"]
        prior = s.pop("_prior", None)
        b, rec = build(scr, s)
        pb = build(scr, prior)[0] if prior else None
        res, dp = run_impl(b, L, prior=pb)
        bad, cl, _tag = oracle(rec, s["kind"], L, res, dp)
        print("device:", s.get("name") or s.get("label") or "synthetic", "kind:", s["kind"], "layout:", L)
        print("implementation:", json.dumps(res)[:800])
        print("classification:", cl); print("oracle:", bad or "holds")
        return 1 if bad else 0
    finally:
        scr.close()
