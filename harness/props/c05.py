"""C05 — each sampled gate contracts volume by exactly its qubits' T1 decay.

Tie: translator (factories.py source text -> lean/QG/Gen/Factories.lean on every run) + translation validation.
Lean: QG.Props.C05 (det of every elementary and composite gate, for all samples / pulses / parameters), Jacobi's formula
QG.Spec.det_exp.  Oracle: np.linalg.det of real samples against the law, control and target parameters drawn independently.
"""
import json, math
import numpy as np
from qgv import core, gatecheck as gc

TG = 35e-9


def tau(gate, a):
    """summed duration scheduled on (first slot, second slot) / on the single qubit — the property's tau_q"""
    if gate in ("X", "SX", "single_qubit_gate"):
        return [TG]
    if gate == "relaxation":
        return [a["Dt"]]
    if gate in ("bitflip", "depolarizing"):
        return [0.0]
    if gate == "CR":
        return [a["t_cr"], a["t_cr"]]
    if gate in ("CNOT", "CNOT_inv"):
        return [a["t_cnot"], a["t_cnot"]]
    if gate == "ECR":
        return [a["t_ecr"] - TG, a["t_ecr"] - TG]
    if gate == "ECR_inv":
        return [a["t_ecr"] + TG, a["t_ecr"] + TG]
    raise KeyError(gate)


def t1s(gate, a):
    if "T1" in a:
        return [a["T1"]]
    if "T1_ctr" in a:
        return [a["T1_ctr"], a["T1_trg"]]
    return [0.0]


def law(gate, a):
    ts, T = tau(gate, a), t1s(gate, a)
    d = 1.0 if len(ts) == 1 else 2.0          # d = matrix dimension / 2
    s = sum((t / t1 if t1 != 0 else 0.0) for t, t1 in zip(ts, T))
    return math.exp(-(d / 2.0) * s)


def make_args(gate, rng):
    out = {}
    for a in gc.GATE_ARGS[gate]:
        if a == "theta":
            v = rng.choice([rng.uniform(-7, 7), math.pi, -math.pi / 2, math.pi / 4, -math.pi / 4, 0.0, rng.uniform(-1e-4, 1e-4)])
        elif a.startswith("phi"):
            v = rng.uniform(-7, 7)
        elif a in ("t_cnot", "t_ecr"):
            v = rng.choice([rng.uniform(6, 20), rng.uniform(3.1, 6)]) * TG       # long and short (positive CR time) gates
        elif a == "t_cr":
            v = rng.uniform(0.5, 8) * TG
        elif a in ("Dt", "tm"):
            v = rng.uniform(0.2, 40) * TG
        elif a.startswith("T1"):
            v = rng.choice([rng.uniform(1e-6, 8e-6), rng.uniform(20e-6, 300e-6), 0.0 if rng.random() < 0.15 else rng.uniform(2e-6, 50e-6)])
        elif a.startswith("T2"):
            v = None
        elif a in ("p", "p_single_ctr", "p_single_trg"):
            v = rng.uniform(1e-5, 3e-3)
        elif a in ("p_cnot", "p_ecr"):
            v = rng.uniform(0.03, 0.12)
        elif a in ("p_cr", "rout"):
            v = rng.uniform(0.0, 0.1)
        else:
            raise KeyError(a)
        out[a] = v
    for a in list(out):
        if a.startswith("T2"):
            t1 = out["T1" + a[2:]]
            # incl. the switch T2 = 0 ("no pure dephasing") next to a finite T1
            out[a] = (0.0 if rng.random() < 0.12 else rng.uniform(0.3, 2.0) * t1) if t1 else rng.uniform(5e-6, 100e-6)
    return out


_GATE_SETS = {}


def sample_det(desc, gate, args, seed):
    # ONE gate-set object per description serves all cases of the run (as a simulator's gate set does): a sample must
    # follow the law whatever was requested from the object before
    key = json.dumps(desc)
    if key not in _GATE_SETS:
        _GATE_SETS[key] = gc.build_gate_set(desc)
    gs = _GATE_SETS[key]
    np.random.seed(seed)
    with np.errstate(all="ignore"):
        G = np.array(getattr(gs, gate)(*[args[a] for a in gc.GATE_ARGS[gate]]), dtype=complex)
    return complex(np.linalg.det(G))


def oracle(desc, gate, args, seeds):
    from quantum_gates._gates.gates import NoiseFreeGates
    scale = desc[1] if desc[0] == "ScaledNoiseGates" else 1.0
    eff = dict(args)
    for k in eff:
        if k.startswith("T1"):
            eff[k] = args[k] / scale
    ideal = complex(np.linalg.det(np.array(getattr(NoiseFreeGates(), gate)(*[args[a] for a in gc.GATE_ARGS[gate]]), dtype=complex)))
    want = ideal * law(gate, eff)
    dets = []
    for s in seeds:
        try:
            dets.append(sample_det(desc, gate, args, s))
        except Exception as e:                   # noqa
            return f"raised {type(e).__name__}: {e}", None
    worst = max(abs(d - want) / abs(want) for d in dets)
    if not worst <= 1e-9:
        return (f"det = {dets[0]:.12g}, the law det(ideal)*exp(-(d/2) sum tau_q/T1_q) gives {want:.12g} "
                f"(ratio {abs(dets[0]) / abs(want):.6f})"), worst
    spread = max(abs(d - dets[0]) for d in dets) / abs(want)
    if not spread <= 1e-10:
        return f"det fluctuates from sample to sample by {spread:.3e}", spread
    return None, worst


def main(ctx):
    cov = ctx.coverage
    ir, fmeta, gmeta, tie_broken = gc.regenerate()
    lean = ctx.lean("QG.Props.C05") if tie_broken is None else None
    tv_n, tv_mism = gc.translation_validation(ctx, ir, n_per=2) if ir is not None else (0, [])
    rng = ctx.rng
    fails, worst, nontrivial, hist = [], 0.0, set(), {}
    reps = 8 if ctx.thorough else 3
    descs = gc.gate_set_descs(rng, ctx.thorough)
    for desc in descs:
        for gate in gc.GATE_ARGS:
            for _ in range(reps):
                args = make_args(gate, rng)
                seeds = [rng.randrange(2 ** 31) for _ in range(3)]
                bad, d = oracle(desc, gate, args, seeds)
                ctx.count()
                T = t1s(gate, args)
                if any(t != 0 for t in T):
                    nontrivial.add(core.sha([desc, gate, args]))
                asym = "asym" if len(T) == 2 and T[0] != T[1] else "single"
                hist[f"{gate}/{asym}"] = hist.get(f"{gate}/{asym}", 0) + 1
                if d is not None and d == d and not bad:
                    worst = max(worst, d)
                if bad:
                    fails.append(({"kind": "det-law", "gate": gate}, desc, gate, args, seeds, bad))
    # sweeps on one gate-set object: the same request with only the gate time (or only one T1) changed
    for desc in descs:
        for gate in ("CNOT", "CNOT_inv", "ECR", "ECR_inv", "CR", "relaxation"):
            base = make_args(gate, rng)
            tkey = next(k for k in base if k in ("t_cnot", "t_ecr", "t_cr", "Dt"))
            earlier = []
            for f in (1.0, 1.7, 0.6):
                args = dict(base)
                args[tkey] = base[tkey] * f if base[tkey] * f > 3.1 * TG or tkey in ("t_cr", "Dt") else base[tkey] * 1.3
                seeds = [rng.randrange(2 ** 31) for _ in range(2)]
                bad, d = oracle(desc, gate, args, seeds)
                ctx.count()
                hist[f"{gate}/sweep"] = hist.get(f"{gate}/sweep", 0) + 1
                if bad:
                    fails.append(({"kind": "det-law", "gate": gate}, desc, gate, dict(args, _earlier_requests=list(earlier)), seeds,
                                  bad + " (gate-time sweep on one gate-set object)"))
                earlier.append(dict(args))
    # sweeps on one gate-set object: the same request with only one T1 changed by a fraction of a microsecond (a calibration drift)
    for desc in descs:
        for gate in ("CR", "CNOT", "ECR", "CNOT_inv", "ECR_inv", "X", "single_qubit_gate"):
            base = make_args(gate, rng)
            tk = rng.choice([k for k in base if k.startswith("T1")])
            if base[tk] == 0:
                base[tk] = 50e-6
            t2k = "T2" + tk[2:]
            base[t2k] = min(base[t2k], 1.99 * base[tk])       # stay inside the physical domain T2 <= 2 T1 for every T1 of the sweep
            earlier = []
            for f in (1.0, 1.0 + 2e-3, 1.0 - 1e-3, 1.0 + 3e-4):
                args = dict(base)
                args[tk] = base[tk] * f
                seeds = [rng.randrange(2 ** 31) for _ in range(2)]
                bad, d = oracle(desc, gate, args, seeds)
                ctx.count()
                hist[f"{gate}/T1-sweep"] = hist.get(f"{gate}/T1-sweep", 0) + 1
                if bad:
                    fails.append(({"kind": "det-law", "gate": gate}, desc, gate, dict(args, _earlier_requests=list(earlier)), seeds,
                                  bad + f" ({tk} sweep by fractions of a microsecond on one gate-set object)"))
                earlier.append(dict(args))
    # a second request served by the same gate set while the first is inside its numerical integration (forced thread interleaving,
    # qgv/interleave.py): the determinant of the first sample follows the law of ITS OWN arguments
    from qgv import interleave as IL
    from quantum_gates._gates.gates import NoiseFreeGates
    for _ in range(16 if ctx.thorough else 5):
        ga = rng.choice(["X", "SX", "single_qubit_gate", "CR", "CNOT", "ECR", "CNOT_inv", "ECR_inv"])
        gb = rng.choice(["X", "SX", "single_qubit_gate", "CR", "CNOT"])
        A, B = make_args(ga, rng), make_args(gb, rng)
        if "theta" in A and abs(A["theta"]) < 1e-3:
            A["theta"] = 0.9
        la, lb = [A[a] for a in gc.GATE_ARGS[ga]], [B[a] for a in gc.GATE_ARGS[gb]]
        bad = None
        try:
            GA, Gref, fired, errB = IL.interleaved(ga, la, gb, lb, inject=False)
            ideal = complex(np.linalg.det(np.array(getattr(NoiseFreeGates(), ga)(*la), dtype=complex)))
            want = ideal * law(ga, A)
            det = complex(np.linalg.det(GA))
            if errB:
                bad = f"the second request raised {errB}"
            elif not abs(det - want) / abs(want) <= 1e-9:
                bad = (f"det = {det:.12g} while {gb} with other parameters was served by the same gate set inside this request's integration; the "
                       f"law for this request's own T1 gives {want:.12g} (ratio {abs(det) / abs(want):.6f})")
        except Exception as e:                  # noqa
            bad = f"raised {type(e).__name__}: {e}"
        ctx.count()
        hist["interleaved"] = hist.get("interleaved", 0) + 1
        if bad:
            fails.append(({"kind": "det-law-interleaved", "gate": ga}, ["Gates", ["user-smooth-hooked"]], ga, dict(A, _interleaved_with=[gb, B]), [], bad))
    ctx.sample({"gate_set": descs[0], "gate": "CNOT_inv", "args": make_args("CNOT_inv", rng)})
    cov["distinct_nontrivial"] = len(nontrivial)
    cov["rule"] = ("case = (gate set, gate, arguments, 3 numpy seeds); control/target p, T1, T2 drawn independently (strongly "
                   "asymmetric T1 included, T1 = 0 'off' in ~15%); non-trivial = distinct case with at least one T1 != 0 "
                   "(a decay factor different from 1); oracle: |det - det(ideal) exp(-(d/2) sum tau_q/T1_q)| <= 1e-9 relative, "
                   "no fluctuation between seeds")
    cov["programs"] = len(gc.gf.ALL)
    cov["translation_validation_cases"] = tv_n
    cov["translation_validation_mismatches"] = len(tv_mism)
    cov["case_histogram"] = hist
    cov["worst_relative_deviation"] = worst
    cov["trusted_base"] += [
        "translator (harness/qgv/{pyexpr,pymat}.py, harness/gen/factories*.py) incl. the rendering table; validated on every run by "
        "evaluating the literal and poly-mode IR against the real construct under injected samples",
        "Jacobi's formula det(exp A) = exp(tr A) is proved in QG/Spec/DetExp.lean (not an axiom)",
        "scipy.linalg.expm is the matrix exponential; the integrator returns the pulse-shaped integrals (C12); pulse "
        "parametrisations are continuous"]
    ctx.assumptions += ["T1 >= 0 (0 = off); exact arithmetic in the theorems",
                        "tau_q per gate: tg for single-qubit pulses, t_cr for CR, Dt for idle, t for CNOT/CNOT_inv, t-tg for ECR, "
                        "t+tg for reversed ECR (sum of the scheduled pulses on each qubit, proved from the extracted product tree)"]
    seen = set()
    for sig, desc, gate, args, seeds, bad in fails:
        if gate in seen:
            continue
        seen.add(gate)
        ctx.violation(sig, {"gate_set": desc, "gate": gate, "args": args, "seeds": seeds, "failure": bad},
                      f"{desc} {gate}: {bad}")
    if not fails:
        broken = tie_broken or (None if lean.ok else f"Lean obligations fail: {list(lean.failed.items())[:3]}") or \
            (f"translation validation: IR and implementation differ: {tv_mism[0]}" if tv_mism else None)
        if broken:
            ctx.violation({"kind": "tie"}, {"broken": broken}, broken + "; the numeric oracle found no failing input",
                          no_failing_input=True)


def replay(ctx, path):
    rp = json.load(open(path))["replay"]
    if "gate" not in rp:
        print("replay names a broken obligation:", json.dumps(rp)[:400]); return 1
    args = dict(rp["args"])
    if "_interleaved_with" in args:
        from qgv import interleave as IL
        from quantum_gates._gates.gates import NoiseFreeGates
        gb, B = args.pop("_interleaved_with")
        ga = rp["gate"]
        la, lb = [args[a] for a in gc.GATE_ARGS[ga]], [B[a] for a in gc.GATE_ARGS[gb]]
        GA, Gref, fired, errB = IL.interleaved(ga, la, gb, lb, inject=False)
        want = complex(np.linalg.det(np.array(getattr(NoiseFreeGates(), ga)(*la), dtype=complex))) * law(ga, args)
        det = complex(np.linalg.det(GA))
        print(f"{ga} {args} with {gb} {B} served inside its integration: det = {det:.12g}, law {want:.12g}")
        return 0 if abs(det - want) / abs(want) <= 1e-9 and not errB else 1
    for prev in args.pop("_earlier_requests", []):                 # a sweep: the same gate-set object served these first
        oracle(rp["gate_set"], rp["gate"], prev, rp["seeds"][:1])
    bad, d = oracle(rp["gate_set"], rp["gate"], args, rp["seeds"])
    print("gate set", rp["gate_set"], "gate", rp["gate"], "args", rp["args"]); print("oracle:", bad or f"holds (deviation {d})")
    return 1 if bad else 0
