"""C10 — fixed numpy seed reproduces results; sampling has no hidden history.

Tie.  (T) harness/gen/determinism.py regenerates lean/QG/Gen/Determinism.lean from the source text on every run (cache key
tuple, coerced parameters, where `_cache` lives and who writes it, per-factory draw scripts, `__init__` tables, per-shot
copies); (M) the hand-written model QG/Model/IntegratorCache.lean runs, through the driver `drv_c10`, the same event
histories as the real code with the extracted configuration and must predict every hit / miss / AssertionError, the origin
of every returned value, the final contents of every `_cache` and which objects share a dict.
Lean: QG.Props.C10 (key_determines_value, cache_transparent(_exact), cache_scoped_per_pulse, gate_set_owns_one_integrator,
sample_deterministic, run_seq_deterministic, run_seq_repeatable, ...).

Oracle (independent of model and translator; the property statement evaluated on the real code):
  A  integrator level: every answer in a random history equals the answer of a fresh `Integrator(pulse)` to the same call
     (same exception / numerically equal value; bitwise except for the sign of a zero);
  B  gate level: after a random history of gate requests on several gate sets alive in the process, re-seed and request a
     final gate (a) on the warm objects, (a') again on the warm objects, (b) on fresh objects: the three matrices are
     bit-identical (`tobytes()`) and numpy's generator is left in the same state;
  C  simulator: two sequential runs on one simulator object with the same seed (with gate requests and other runs in
     between) and a run on fresh objects give the identical dict; the caller's psi0 / device parameters are untouched.
Translation validation: the draws the real code performs (pass-through spy on np.random.normal / multivariate_normal) and
the integrand names it requests are compared with the extracted scripts, per gate and over whole simulator runs (a recording
gate-set proxy gives the sequence of gate-set calls of every shot).
"""
import contextlib, copy, json, math, os, struct, subprocess, sys, time, warnings
# Thread settings.  The matrices here are at most 8x8, BLAS never splits them; idle BLAS worker threads only burn CPU.  The quick
# tier therefore pins the BLAS / OpenMP pools to one thread unless the environment says otherwise; the thorough tier keeps the
# ambient (default, multi-threaded) settings, so that bitwise repetition is also observed under the default configuration.
_THOROUGH = "thorough" in sys.argv or os.environ.get("VERIF_TIER") == "thorough"
if not _THOROUGH:
    for _v in ("OMP_NUM_THREADS", "OPENBLAS_NUM_THREADS", "MKL_NUM_THREADS"):
        os.environ.setdefault(_v, "1")
import numpy as np
from qgv import core, pyexpr
from qgv import gatecheck as gc
from gen import determinism as gen

TG = 35e-9
PYTY = {"float": float, "int": lambda x: int(x), "bool": lambda x: bool(x), "np.float64": np.float64,
        "np.int64": lambda x: np.int64(int(x)), "np.float32": np.float32, "np.float16": np.float16}
REPR_OF_CLASS = {"f64": "float", "npf64": "np.float64", "int": "int", "i64": "np.int64", "bool": "bool", "f32": "np.float32",
                 "f16": "np.float16"}            # model type tag -> the Python / numpy type it stands for
REDUCED = {"bool", "f32", "f16"}                  # types numpy evaluates in less than double precision (np.sin(True) is a float16)
ALL_FIELDS = ["integrand", "theta", "a"]


# ------------------------------------------------------------------------------------------------ numbers
def bits(x):
    return struct.unpack(">Q", struct.pack(">d", float(x)))[0]


def from_bits(b):
    return struct.unpack(">d", struct.pack(">Q", int(b)))[0]


def fl(x, ty="float"):
    """typed number descriptor (JSON-serialisable, exact)"""
    return [ty, float(x).hex()]


class NanPool:
    """NaN objects by index: the dictionary lookup short-cuts on object identity, so identity is part of the input"""
    def __init__(self):
        self.objs = []

    def get(self, k):
        while len(self.objs) <= k:
            self.objs.append(float("nan"))
        return self.objs[k]

    def index_of(self, x):
        for i, o in enumerate(self.objs):
            if o is x:
                return i
        self.objs.append(x)
        return len(self.objs) - 1


def build_num(d, pool):
    if d[0] == "nan":
        return pool.get(d[1])
    return PYTY[d[0]](float.fromhex(d[1]))


def class_of_obj(x):
    """the model's numeric type tag of an object (numpy promotes Python scalars weakly, numpy scalars strongly: both kinds are kept)"""
    if isinstance(x, (bool, np.bool_)):
        return "bool"
    if isinstance(x, np.integer):
        return "i64"
    if isinstance(x, int):
        return "int"
    if isinstance(x, np.float16):
        return "f16"
    if isinstance(x, np.float32):
        return "f32"
    if isinstance(x, np.float64):
        return "npf64"
    if isinstance(x, float):
        return "f64"
    raise TypeError(type(x))


def model_num(x, pool):
    """[class, kind, payload] as the driver expects it, from the object the real code received"""
    c = class_of_obj(x)
    f = float(x)
    if math.isnan(f):
        return [c, "nan", pool.index_of(x)]
    return [c, "val", str(bits(f))]


def canon_val(v):
    f = float(v)
    return "nan" if math.isnan(f) else bits(f)


def num_equal(x, y):
    """the property's notion of 'same value': numerically equal (or both NaN)"""
    x, y = float(x), float(y)
    return (math.isnan(x) and math.isnan(y)) or x == y


# ------------------------------------------------------------------------------------------------ real objects
_PULSES = {}


def pulse_obj(desc):
    k = json.dumps(desc)
    if k not in _PULSES:
        _PULSES[k] = gc.build_pulse(desc)
    return _PULSES[k]


def fresh_gate_set(desc):
    """new objects with the same description (module-level instances are rebuilt from their pulse)"""
    from quantum_gates._gates.gates import Gates, ScaledNoiseGates
    if desc[0] == "standard_gates":
        return Gates(pulse_obj(["constant"]))
    if desc[0] == "numerical_gates":
        return Gates(pulse_obj(["constant-numerical"]))
    if desc[0] == "Gates":
        return Gates(pulse_obj(desc[1]))
    if desc[0] == "ScaledNoiseGates":
        return ScaledNoiseGates(noise_scaling=desc[1], pulse=pulse_obj(desc[2]))
    raise KeyError(desc)


def pulse_of_gate_set(desc):
    return {"standard_gates": ["constant"], "numerical_gates": ["constant-numerical"]}.get(desc[0]) or \
        (desc[1] if desc[0] == "Gates" else desc[2])


def integrator_of(gs):
    return gs.gates.integrator if hasattr(gs, "gates") else gs.integrator


_PERSISTENT = {}


def alive_gate_set(desc, persistent):
    """module-level instances are the process-wide objects themselves; `persistent` descriptions live for the whole run"""
    from quantum_gates._gates import gates as G
    if desc[0] in ("standard_gates", "numerical_gates"):
        return getattr(G, desc[0]), True
    if persistent:
        k = json.dumps(desc)
        if k not in _PERSISTENT:
            _PERSISTENT[k] = fresh_gate_set(desc)
        return _PERSISTENT[k], True
    return fresh_gate_set(desc), False


@contextlib.contextmanager
def quiet():
    with warnings.catch_warnings(), np.errstate(all="ignore"):
        warnings.simplefilter("ignore")
        yield


# ------------------------------------------------------------------------------------------------ configuration of the model
def model_cfg(ex):
    """what the driver is told about the code: from the translator, or (translator failed closed) the defaults"""
    if ex is None:
        return {"key_fields": ALL_FIELDS, "coerced": [], "known": None, "instance_level": True}
    return {"key_fields": ex["integrate"]["key_fields"], "coerced": ex["integrate"]["coerced"], "known": ex["integrate"]["known"],
            "instance_level": ex["state"]["instance_level"]}


def known_keys():
    from quantum_gates._gates.integrator import Integrator
    return list(Integrator._INTEGRAL_LOOKUP)


# ------------------------------------------------------------------------------------------------ cold evaluation
class Cold:
    """answers of fresh integrators, memoised: (pulse desc, integrand, typed theta, typed a) -> ('ok', bits) | ('err', name)"""
    def __init__(self, pool):
        self.memo, self.pool, self.n = {}, pool, 0

    def raw(self, pdesc, integrand, theta, a, key):
        from quantum_gates._gates.integrator import Integrator
        if key not in self.memo:
            self.n += 1
            try:
                with quiet():
                    v = Integrator(pulse_obj(pdesc)).integrate(integrand, theta, a)
                self.memo[key] = ("ok", canon_val(v))
            except Exception as e:                         # noqa
                self.memo[key] = ("err", type(e).__name__)
        return self.memo[key]

    def of_descs(self, pdesc, integrand, dth, da):
        key = json.dumps([pdesc, integrand, dth, da])
        return self.raw(pdesc, integrand, build_num(dth, self.pool), build_num(da, self.pool), key)

    def of_objs(self, pdesc, integrand, theta, a):
        key = json.dumps([pdesc, integrand, type(theta).__name__, model_num(theta, self.pool), type(a).__name__, model_num(a, self.pool)])
        return self.raw(pdesc, integrand, theta, a, key)

    def of_token(self, pulses, tok):
        """token of the model's `compute`: p<pulse>|<integrand>|<class>:<bits>|<class>:<bits>"""
        p, rest = tok.split("|", 1)
        integrand, th, a = rest.rsplit("|", 2)

        def num(s):
            c, b = s.split(":")
            if b.startswith("nan"):
                return self.pool.get(int(b[3:])) if c == "f64" else PYTY[REPR_OF_CLASS[c]](float("nan"))
            return PYTY[REPR_OF_CLASS[c]](from_bits(b))
        return self.raw(pulses[int(p[1:])], integrand, num(th), num(a), "tok:" + json.dumps(pulses[int(p[1:])]) + tok)


# ================================================================================================ a pristine process
class Pristine:
    """Cold values from a process without any history.  In-process 'fresh objects' cannot expose state kept at class or module
    level (a class-level `_cache`, a module-level memo): new objects would share it.  A server process imports the package and
    never runs anything itself; for every question it forks a child that answers from that pristine state and exits."""
    SERVER = "import sys\nfrom props import c10\nc10.serve()\n"

    def __init__(self):
        env = dict(os.environ)
        env["PYTHONPATH"] = os.pathsep.join([os.path.join(core.VERIF, "harness"), os.path.join(core.REPO, "src"), env.get("PYTHONPATH", "")])
        env["VERIF_REPO"] = core.REPO
        self.p = subprocess.Popen([sys.executable, "-W", "ignore", "-c", self.SERVER], stdin=subprocess.PIPE, stdout=subprocess.PIPE,
                                  text=True, env=env, cwd=core.VERIF)
        self.n = 0

    def ask(self, req):
        self.n += 1
        self.p.stdin.write(json.dumps(req) + "\n"); self.p.stdin.flush()
        line = self.p.stdout.readline()
        if not line:
            raise RuntimeError("pristine process died")
        out = json.loads(line)
        if "error" in out:
            raise RuntimeError("pristine process: " + out["error"])
        return out

    def close(self):
        try:
            self.p.stdin.close(); self.p.wait(timeout=10)
        except Exception:                                   # noqa
            self.p.kill()


def serve():
    import quantum_gates._gates.gates, quantum_gates.simulators      # noqa: import everything, run nothing
    for line in sys.stdin:
        req = json.loads(line)
        r, w = os.pipe()
        pid = os.fork()
        if pid == 0:
            try:
                out = _answer(req)
            except BaseException as e:                      # noqa
                out = {"error": f"{type(e).__name__}: {e}"}
            os.write(w, (json.dumps(out) + "\n").encode())
            os._exit(0)
        os.close(w)
        data = b""
        while True:
            chunk = os.read(r, 1 << 16)
            if not chunk:
                break
            data += chunk
        os.close(r)
        os.waitpid(pid, 0)
        sys.stdout.write(data.decode()); sys.stdout.flush()


def state_digest():
    s = np.random.get_state()
    return [s[0], core.sha(np.asarray(s[1]).tobytes().hex()), int(s[2]), int(s[3]), float(s[4])]


def _answer(req):
    pool = NanPool()
    if req["kind"] == "gate":
        gs, _ = alive_gate_set(req["set"], persistent=False)      # module-level instances: the (pristine) objects themselves
        np.random.seed(req["seed"])
        m = call_gate(gs, req["gate"], req["args"], pool)
        return {"bytes": m.tobytes().hex(), "state": state_digest()}
    if req["kind"] == "integrate":
        from quantum_gates._gates.integrator import Integrator
        try:
            with quiet():
                v = Integrator(pulse_obj(req["pulse"])).integrate(req["integrand"], build_num(req["theta"], pool), build_num(req["a"], pool))
            return {"res": ["ok", canon_val(v)]}
        except Exception as e:                              # noqa
            return {"res": ["err", type(e).__name__]}
    if req["kind"] == "sim":
        from quantum_gates.simulators import MrAndersonSimulator
        from quantum_gates._simulation import circuit as cm
        import random as _r
        case = req["case"]
        qc = build_circuit(case)
        n = case["n"]
        dev = device_params(_r.Random(case["dev_seed"]), n)
        psi0 = np.zeros(2 ** n); psi0[0] = 1.0
        gs, _ = alive_gate_set(case["set"], persistent=False)
        sim = MrAndersonSimulator(gates=gs, CircuitClass=getattr(cm, case["cls"]), parallel=False)
        np.random.seed(case["seed"])
        with quiet():
            r = sim.run(t_qiskit_circ=qc, qubits_layout=list(range(n)), psi0=psi0, shots=case["shots"], device_param=dev, nqubit=n)
        return {"res": canon_dict(r), "state": state_digest()}
    raise KeyError(req["kind"])


# ================================================================================================ part A: integrator histories
A_FAMILIES = ["plain", "eq-theta-diff-a", "eq-a-diff-theta", "typed", "signed-zero", "malformed", "mixed"]
TYPED_VALUES = [1.0, 0.5, 2.0, 0.25, 3.0, 0.0, 1.5]
GATE_ANGLES = [math.pi, math.pi / 2, math.pi / 4, -math.pi / 4, -math.pi, -math.pi / 2]
CR_RATIOS = [(4e-7 / 2 - TG) / TG, (6.6e-7 / 2 - TG) / TG, 3.7, (5.3e-7 - 3 * TG) / 2 / TG]


def rand_theta(rng):
    return rng.choice([rng.choice(GATE_ANGLES), rng.uniform(-7, 7), rng.uniform(-1e-3, 1e-3), rng.uniform(10, 40)])


def rand_a(rng):
    return rng.choice([rng.choice(CR_RATIOS), math.exp(rng.uniform(math.log(0.1), math.log(12.0)))])


def typed(rng, v, tys=("float", "int", "bool", "np.float64", "np.int64", "np.float32", "np.float16")):
    ok = [t for t in tys if (t not in ("int", "np.int64") or float(v).is_integer()) and (t != "bool" or v in (0.0, 1.0))]
    return fl(v, rng.choice(ok))


def gen_integrator_case(rng, family, pulse_descs, idx):
    keys = known_keys()
    integrands = rng.sample(keys, rng.randint(1, 3))
    fam = family if family != "mixed" else rng.choice(A_FAMILIES[:-1])
    if fam == "plain":
        thetas = [fl(rand_theta(rng)) for _ in range(4)]
        as_ = [fl(1, "int")] + [fl(rand_a(rng)) for _ in range(2)]
    elif fam == "eq-theta-diff-a":
        thetas = [fl(rand_theta(rng))]
        as_ = [fl(1, "int"), fl(1.0)] + [fl(rand_a(rng)) for _ in range(4)]
    elif fam == "eq-a-diff-theta":
        thetas = [fl(rand_theta(rng)) for _ in range(6)]
        as_ = [fl(rand_a(rng))]
    elif fam == "typed":
        vs = rng.sample(TYPED_VALUES, 3)
        thetas = [typed(rng, v) for v in vs for _ in range(3)] + [fl(v) for v in vs]
        avs = rng.sample([1.0, 2.0, 4.0, 0.5], 2)
        as_ = [typed(rng, v) for v in avs for _ in range(2)] + [fl(avs[0])]
    elif fam == "signed-zero":
        thetas = [fl(0.0), fl(-0.0), fl(0, "int"), fl(0, "bool"), fl(-0.0, "np.float64"), fl(0.5), fl(rand_theta(rng))]
        as_ = [fl(1, "int"), fl(rand_a(rng))]
    else:                                                   # malformed
        thetas = [fl(rand_theta(rng)), ["nan", 0], ["nan", 0], ["nan", 1], fl(math.inf), fl(-math.inf), fl(1.0)]
        as_ = [fl(1, "int"), fl(0.0), fl(-1.0), fl(-0.0), ["nan", 2], fl(rand_a(rng)), fl(-2, "int")]
        integrands = integrands + ["sin(theta)", ""]
    n_obj = rng.randint(1, 4)
    events = [["new", rng.randrange(len(pulse_descs))] for _ in range(n_obj)]
    if family == "eq-theta-diff-a" and n_obj >= 2:
        events[1][1] = events[0][1]                         # two integrators of the SAME pulse: still nothing shared
    n_objs = n_obj
    for _ in range(rng.randint(8, 36)):
        r = rng.random()
        if r < 0.06 and n_objs < 7:
            events.append(["new", rng.randrange(len(pulse_descs))]); n_objs += 1
        elif r < 0.14 and n_objs < 7:
            events.append(["copy", rng.randrange(n_objs)]); n_objs += 1
        else:
            events.append(["req", rng.randrange(n_objs), rng.choice(integrands), rng.choice(thetas), rng.choice(as_)])
    if fam == "malformed" and any(p == ["constant"] for p in pulse_descs):
        # a = +inf passes `a > 0`; only on the lookup branch (quad over an infinite range is slow and beside the point)
        i = next(k for k, e in enumerate(events) if e[0] == "new")
        events[i][1] = pulse_descs.index(["constant"])
        tgt = sum(1 for e in events[:i] if e[0] in ("new", "copy"))
        events.append(["req", tgt, integrands[0], fl(1.0), fl(math.inf)])
        events.append(["req", tgt, integrands[0], fl(1.0), fl(math.inf)])
    return {"level": "integrator", "family": family, "sub": fam, "idx": idx, "pulses": pulse_descs, "events": events}


@contextlib.contextmanager
def counting_routines(counter):
    """count the calls of the two integration routines (a miss computes, a hit does not)"""
    from quantum_gates._gates.integrator import Integrator
    oa, on = Integrator._analytical_integration, Integrator._numerical_integration

    def wa(self, *a, **k):
        counter[0] += 1
        return oa(self, *a, **k)

    def wn(self, *a, **k):
        counter[0] += 1
        return on(self, *a, **k)
    Integrator._analytical_integration, Integrator._numerical_integration = wa, wn
    try:
        yield
    finally:
        Integrator._analytical_integration, Integrator._numerical_integration = oa, on


def canon_key(k, pool):
    out = []
    if not isinstance(k, (tuple, list)):         # a cache whose keys are not the argument tuples (e.g. their hash): reported as such,
        return ["opaque-key:" + type(k).__name__, repr(k)[:40]]      # the correspondence with the model's cache cells then disagrees
    for x in k:
        if isinstance(x, str):
            out.append("s:" + x)
        else:
            f = float(x)
            out.append("n:nan%d" % pool.index_of(x) if math.isnan(f) else "n:%d" % bits(f))
    return out


def run_integrator_case(case, pool, cold, pristine=None):
    """the real code on one event history: observations for the correspondence, oracle verdict per request"""
    from quantum_gates._gates.integrator import Integrator
    objs, pulse_of, obs, oracle_fail, sign_diffs, hits = [], [], [], [], 0, 0
    model_events = []
    counter = [0]
    with counting_routines(counter), quiet():
        for ev in case["events"]:
            if ev[0] == "new":
                objs.append(Integrator(pulse_obj(case["pulses"][ev[1]]))); pulse_of.append(ev[1])
                obs.append({"c": len(objs) - 1}); model_events.append(["new", ev[1]])
            elif ev[0] == "copy":
                objs.append(copy.deepcopy(objs[ev[1]])); pulse_of.append(pulse_of[ev[1]])
                obs.append({"c": len(objs) - 1}); model_events.append(["copy", ev[1]])
            else:
                _, i, integrand, dth, da = ev
                theta, a = build_num(dth, pool), build_num(da, pool)
                o = objs[i]
                c0, n0 = counter[0], len(o._cache)
                try:
                    v = o.integrate(integrand, theta, a)
                    real = ("ok", canon_val(v))
                    status = "miss" if counter[0] > c0 else "hit"
                    if (status == "hit") != (len(o._cache) == n0):
                        status += "?"                       # routine calls and dict growth disagree: reported as a mismatch
                except Exception as e:                     # noqa
                    real, status = ("err", type(e).__name__), "err"
                hits += status == "hit"
                obs.append({"r": [status, real[0], real[1]]})
                model_events.append(["req", i, integrand, model_num(theta, pool), model_num(a, pool)])
                # ---- oracle: the same call on a fresh integrator of the same pulse
                want = cold.of_descs(case["pulses"][pulse_of[i]], integrand, dth, da)
                if want != real:
                    same = want[0] == real[0] == "ok" and want[1] != "nan" and real[1] != "nan" and \
                        from_bits(want[1]) == from_bits(real[1])
                    if same:
                        sign_diffs += 1                     # numerically equal, sign of zero differs
                    else:
                        oracle_fail.append({"event": len(obs) - 1, "obj": i, "pulse": case["pulses"][pulse_of[i]],
                                            "call": [integrand, dth, da], "warm": list(real), "cold": list(want)})
    # the last request once more against a process without any history (class / module level state would be shared in-process)
    last = max((k for k, e in enumerate(case["events"]) if e[0] == "req"), default=None)
    if pristine is not None and last is not None and not any(f["event"] == last for f in oracle_fail):
        _, i, integrand, dth, da = case["events"][last]
        if dth[0] != "nan" and da[0] != "nan":
            want = tuple(pristine.ask({"kind": "integrate", "pulse": case["pulses"][pulse_of[i]], "integrand": integrand, "theta": dth, "a": da})["res"])
            real = tuple(obs[last]["r"][1:])
            if want != real and not (want[0] == real[0] == "ok" and "nan" not in (want[1], real[1]) and from_bits(want[1]) == from_bits(real[1])):
                oracle_fail.append({"event": last, "obj": i, "pulse": case["pulses"][pulse_of[i]], "call": [integrand, dth, da],
                                    "warm": list(real), "cold": list(want), "cold_from": "pristine process"})
    final = {"cells": [[(canon_key(k, pool), canon_val(v)) for k, v in o._cache.items()] for o in objs],
             "share": [min(j for j, p in enumerate(objs) if p._cache is o._cache) for o in objs]}
    return {"obs": obs, "final": final, "model_events": model_events, "oracle_fail": oracle_fail, "sign_diffs": sign_diffs,
            "hits": hits, "pulse_of": pulse_of}


def compare_with_model(case_pulses, real, ans, cold):
    """exact comparison of the real observations with the driver's answer; returns list of mismatch texts"""
    mism = []
    outs = ans["outs"]
    if len(outs) != len(real["obs"]):
        return [f"{len(outs)} model answers for {len(real['obs'])} events"]
    for k, (o, m) in enumerate(zip(real["obs"], outs)):
        if "c" in o:
            if not (isinstance(m, dict) and "c" in m and m["c"][0] == o["c"]):
                mism.append(f"event {k}: object creation {o} vs model {m}")
            continue
        if not (isinstance(m, dict) and "r" in m):
            mism.append(f"event {k}: {o} vs model {m}"); continue
        hit, kind, payload = m["r"]
        status, rk, rv = o["r"]
        want_status = "err" if kind == "err" else ("hit" if hit else "miss")
        if status != want_status:
            mism.append(f"event {k}: real {status}, model {want_status}"); continue
        if kind == "err":
            if rv != payload:
                mism.append(f"event {k}: real raises {rv}, model {payload}")
        else:
            want = cold.of_token(case_pulses, payload)
            if want != (rk, rv):
                mism.append(f"event {k}: real value {rv}, model says compute({payload}) = {want}")
    # final state: which objects share a dict, keys in insertion order, cached values
    mshare = [min(j for j, q in enumerate(ans["objs"]) if q[1] == p[1]) for p in ans["objs"]]
    if mshare != real["final"]["share"]:
        mism.append(f"objects sharing a _cache dict: real {real['final']['share']}, model {mshare}")
    for i, p in enumerate(ans["objs"]):
        mcell = ans["cells"][p[1]]
        rcell = real["final"]["cells"][i]
        if [k for k, _ in mcell] != [k for k, _ in rcell]:
            mism.append(f"object {i}: cache keys real {[k for k, _ in rcell][:4]}.. ({len(rcell)}), model {[k for k, _ in mcell][:4]}.. ({len(mcell)})")
            continue
        for (k, tok), (_, rv) in zip(mcell, rcell):
            w = cold.of_token(case_pulses, tok)
            if w != ("ok", rv):
                mism.append(f"object {i}: cached value under {k} is {rv}, model says compute({tok}) = {w}")
    return mism


def type_collision(model_events, k):
    """does request k collide (Python ==) with an earlier request on the same object that was passed with another numeric type?"""
    ev = model_events[k]
    if ev[0] != "req":
        return False

    def val(n):
        if n[1] == "nan":
            return ("nan", n[2])
        f = from_bits(n[2])
        return ("v", 0.0 if f == 0 else f)
    for e in model_events[:k]:
        if e[0] == "req" and e[2] == ev[2] and val(e[3]) == val(ev[3]) and val(e[4]) == val(ev[4]) and \
                (e[3][0], e[4][0]) != (ev[3][0], ev[4][0]) and REDUCED & {e[3][0], e[4][0], ev[3][0], ev[4][0]}:
            return True
    return False


# ================================================================================================ part B: gate histories
B_FAMILIES = ["eq-angle-diff-duration", "eq-duration-diff-angle", "cr-tcr", "interleaved", "multi-gateset", "warm-exact",
              "typed-theta", "signed-zero-theta", "periodic-angle", "tiny-angles", "tiny-angles", "hash-collision", "random"]
SINGLE = ["X", "SX", "single_qubit_gate"]
TWO = ["CNOT", "CNOT_inv", "ECR", "ECR_inv", "CR"]
NOISE = ["relaxation", "bitflip", "depolarizing"]


def gate_args(gate, rng, **fixed):
    out = {}
    for a in gc.GATE_ARGS[gate]:
        if a in fixed:
            out[a] = fixed[a]; continue
        if a == "theta":
            v = rng.choice([rng.uniform(-7, 7), math.pi, -math.pi / 2, math.pi / 4, -math.pi / 4, 0.0, -0.0, rng.uniform(-1e-6, 1e-6)])
        elif a.startswith("phi"):
            v = rng.choice([rng.uniform(-7, 7), 0.0, -0.0, math.pi / 2])
        elif a in ("t_cnot", "t_ecr"):
            v = rng.choice([4e-7, 6.6e-7, 5.3e-7, rng.uniform(6, 20) * TG])
        elif a == "t_cr":
            v = rng.choice([rng.uniform(0.5, 8) * TG, 3.7 * TG, TG])
        elif a in ("Dt", "tm"):
            v = rng.uniform(0.2, 40) * TG
        elif a.startswith("T1"):
            v = rng.choice([rng.uniform(20e-6, 300e-6), rng.uniform(2e-6, 10e-6), 0.0 if rng.random() < 0.1 else rng.uniform(2e-6, 50e-6)])
        elif a.startswith("T2"):
            v = None
        elif a in ("p", "p_single_ctr", "p_single_trg"):
            v = rng.choice([rng.uniform(1e-5, 3e-3), 0.0 if rng.random() < 0.1 else rng.uniform(1e-4, 1e-3)])
        elif a in ("p_cnot", "p_ecr"):
            v = rng.uniform(0.03, 0.12)
        elif a in ("p_cr", "rout"):
            v = rng.uniform(0.0, 0.1)
        else:
            raise KeyError(a)
        out[a] = None if v is None else fl(v)
    for a in list(out):
        if out[a] is None:
            t1 = float.fromhex(out["T1" + a[2:]][1])
            out[a] = fl(rng.uniform(0.3, 2.0) * t1 if t1 else rng.uniform(5e-6, 100e-6))
    return out


def gen_gate_case(rng, family, set_descs, idx):
    n_alive = rng.randint(2, min(4, len(set_descs)))
    alive = rng.sample(range(len(set_descs)), n_alive)
    if family == "multi-gateset":
        alive = list(range(len(set_descs)))[: max(3, n_alive)]
    hist = []
    pick = lambda: rng.choice(alive)
    if family in ("eq-angle-diff-duration", "cr-tcr"):
        theta = fl(rng.choice([math.pi / 4, -math.pi / 4, rng.uniform(-3, 3)]))
        base = gate_args("CR", rng, theta=theta)
        durs = [fl(rng.uniform(0.5, 8) * TG) for _ in range(4)]
        g = pick()
        for _ in range(rng.randint(3, 8)):
            hist.append([g if rng.random() < 0.8 else pick(), "CR", dict(base, t_cr=rng.choice(durs), phi=fl(rng.uniform(-3, 3)))])
        if family == "eq-angle-diff-duration":
            cn = gate_args("CNOT", rng)
            for _ in range(rng.randint(1, 3)):
                hist.append([g, "CNOT", dict(cn, t_cnot=fl(rng.choice([4e-7, 5.3e-7, 6.6e-7])))])
        final = [g, "CR", dict(base, t_cr=rng.choice(durs + [fl(rng.uniform(0.5, 8) * TG)]))]
    elif family == "eq-duration-diff-angle":
        t = fl(rng.uniform(0.5, 8) * TG)
        base = gate_args("CR", rng, t_cr=t)
        angles = [fl(x) for x in (math.pi / 4, -math.pi / 4, rng.uniform(-3, 3), rng.uniform(-3, 3))]
        g = pick()
        for _ in range(rng.randint(3, 8)):
            if rng.random() < 0.7:
                hist.append([g, "CR", dict(base, theta=rng.choice(angles))])
            else:
                hist.append([g, "single_qubit_gate", gate_args("single_qubit_gate", rng, theta=rng.choice(angles))])
        final = rng.choice([[g, "CR", dict(base, theta=rng.choice(angles))],
                            [g, "single_qubit_gate", gate_args("single_qubit_gate", rng, theta=rng.choice(angles))]])
    elif family == "interleaved":
        for _ in range(rng.randint(6, 16)):
            gate = rng.choice(["X", "SX", "CNOT", "ECR", "X", "SX", "CNOT_inv", "ECR_inv"] + NOISE)
            hist.append([pick(), gate, gate_args(gate, rng)])
        gate = rng.choice(["CNOT", "ECR", "X", "SX", "CNOT_inv", "ECR_inv"])
        final = [pick(), gate, gate_args(gate, rng)]
    elif family == "multi-gateset":
        gate = rng.choice(SINGLE + TWO)
        args = gate_args(gate, rng)
        for _ in range(rng.randint(1, 3)):
            for g in rng.sample(alive, len(alive)):
                hist.append([g, gate, args])
                if rng.random() < 0.4:
                    g2 = rng.choice(SINGLE + TWO)
                    hist.append([g, g2, gate_args(g2, rng)])
        final = [pick(), gate, args]
    elif family == "warm-exact":
        gate = rng.choice(SINGLE + TWO + NOISE)
        args = gate_args(gate, rng)
        g = pick()
        for _ in range(rng.randint(1, 4)):
            hist.append([g, gate, args])
        final = [g, gate, args]
    elif family == "typed-theta":
        v = rng.choice([1.0, 0.5, 2.0, 0.25, 3.0, 1.5])
        g = pick()
        rest = gate_args("single_qubit_gate", rng)
        for _ in range(rng.randint(1, 4)):
            hist.append([g, "single_qubit_gate", dict(gate_args("single_qubit_gate", rng), theta=typed(rng, v))])
        if rng.random() < 0.5:
            hist.append([g, "CR", gate_args("CR", rng, theta=typed(rng, v))])
        final = [g, "single_qubit_gate", dict(rest, theta=fl(v, rng.choice(["float", "float", "np.float64"])))]
    elif family == "periodic-angle":
        # angles that differ by whole periods of the trigonometric integrands (2 pi, 4 pi, pi): equal as rotations modulo a period,
        # different as pulses - nothing computed for one may be reused for the other
        g = pick()
        base_t = rng.choice([math.pi / 2, math.pi / 4, -math.pi / 2, 0.5, rng.uniform(-3, 3), -1.0])
        shifts = [0.0, 4 * math.pi, -4 * math.pi, 2 * math.pi, 8 * math.pi, math.pi]
        if base_t == -1.0:
            shifts = [0.0, -1.0, -1.0, 1.0]          # -1.0 and -2.0: different angles with EQUAL hash in CPython (hash(-1) == -2)
        rest = gate_args("single_qubit_gate", rng)
        # ... including pairs that are congruent EXACTLY in floating point: the reduced angle is computed from the large one
        big = base_t + rng.choice(shifts[1:5])
        period = rng.choice([4 * math.pi, 2 * math.pi])
        exact = [big, math.fmod(big, period), math.remainder(big, period)]
        shifts += [x - base_t for x in exact]
        for x in (exact if rng.random() < 0.7 else []):
            hist.append([g, "single_qubit_gate", dict(rest, theta=fl(x))])
        for _ in range(rng.randint(2, 6)):
            th = fl(base_t + rng.choice(shifts))
            if rng.random() < 0.75:
                hist.append([g, "single_qubit_gate", dict(rest if rng.random() < 0.6 else gate_args("single_qubit_gate", rng), theta=th)])
            else:
                hist.append([g, "CR", gate_args("CR", rng, theta=th)])
        final = rng.choice([[g, "single_qubit_gate", dict(rest, theta=fl(rng.choice(exact)))],
                            [g, "single_qubit_gate", dict(rest, theta=fl(base_t + rng.choice(shifts[1:])))],
                            [g, "CR", gate_args("CR", rng, theta=fl(base_t + rng.choice(shifts[1:])))]])
    elif family == "hash-collision":
        # different angles / durations whose Python hashes are EQUAL (hash(-1.0) == hash(-2.0) == -2 in CPython): same integrand, same
        # other arguments - anything keyed by a hash instead of the values themselves confuses them
        g = pick()
        rest = gate_args("single_qubit_gate", rng)
        first, second = rng.choice([(-1.0, -2.0), (-2.0, -1.0)])
        hist.append([g, "single_qubit_gate", dict(rest, theta=fl(first))])
        if rng.random() < 0.5:
            hist.append([g, "CR", gate_args("CR", rng, theta=fl(first))])
        final = [g, "single_qubit_gate", dict(rest, theta=fl(second))]
    elif family == "tiny-angles":
        # many small rotation angles (log-uniform in [1e-9, 4e-4]) on one gate set: each must be reproducible after a seed like any other
        g = pick()
        rest = gate_args("single_qubit_gate", rng)
        for _ in range(rng.randint(6, 14)):
            th = fl(rng.choice([-1, 1]) * 10.0 ** rng.uniform(-9, -3.4))
            hist.append([g, "single_qubit_gate", dict(rest, theta=th)])
        final = [g, "single_qubit_gate", dict(rest, theta=fl(rng.choice([-1, 1]) * 10.0 ** rng.uniform(-9, -3.4)))]
    elif family == "signed-zero-theta":
        g = pick()
        zs = [fl(0.0), fl(-0.0), fl(0, "int"), fl(-0.0, "np.float64")]
        rest = gate_args("single_qubit_gate", rng)
        if rng.random() < 0.5:
            rest.update(p=fl(0.0), T1=fl(0.0), T2=fl(0.0))
        for _ in range(rng.randint(1, 4)):
            hist.append([g, "single_qubit_gate", dict(rest if rng.random() < 0.5 else gate_args("single_qubit_gate", rng), theta=rng.choice(zs))])
        final = [g, "single_qubit_gate", dict(rest, theta=rng.choice(zs[:2]))]
    else:
        for _ in range(rng.randint(2, 14)):
            gate = rng.choice(SINGLE + TWO + NOISE)
            hist.append([pick(), gate, gate_args(gate, rng)])
        gate = rng.choice(SINGLE + TWO + NOISE)
        final = [pick(), gate, gate_args(gate, rng)]
    return {"level": "gate", "family": family, "idx": idx, "sets": set_descs, "alive": alive, "history": hist, "final": final,
            "seed": rng.randrange(2 ** 31), "history_seed": rng.randrange(2 ** 31)}


def call_gate(gs, gate, args, pool):
    with quiet():
        return np.array(getattr(gs, gate)(*[build_num(args[a], pool) for a in gc.GATE_ARGS[gate]]), dtype=complex)


class IntegrateSpy:
    """records every request an integrator serves (pass-through; installed as an instance attribute, removed afterwards)"""
    def __init__(self, integ, log, obj_id):
        self.integ, self.log, self.obj_id = integ, log, obj_id
        orig = integ.integrate

        def spy(integrand, theta, a):
            n0 = len(integ._cache)
            try:
                v = orig(integrand, theta, a)
            except Exception as e:                          # noqa
                log.append((obj_id, integrand, theta, a, "err", type(e).__name__)); raise
            log.append((obj_id, integrand, theta, a, "hit" if len(integ._cache) == n0 else "miss", v))
            return v
        integ.__dict__["integrate"] = spy

    def remove(self):
        self.integ.__dict__.pop("integrate", None)


@contextlib.contextmanager
def draw_recorder(log):
    """pass-through spy on the two modelled entry points of numpy's global generator"""
    o1, o2 = np.random.normal, np.random.multivariate_normal

    def n(*a, **k):
        log.append(["normal"])
        return o1(*a, **k)

    def m(mean, *a, **k):
        log.append(["mvn", len(mean)])
        return o2(mean, *a, **k)
    np.random.normal, np.random.multivariate_normal = n, m
    try:
        yield
    finally:
        np.random.normal, np.random.multivariate_normal = o1, o2


class GateWorld:
    """the gate sets alive in this process during part B, with the global log of integrator requests for the model"""
    def __init__(self, pool):
        self.pool = pool
        self.objs = []            # (gate set object, desc, pulse desc); the list keeps every object alive (ids stay unique)
        self.index = {}           # id(gate set) -> object number
        self.log = []             # (object number, integrand, theta, a, 'pre'|'hit'|'miss'|'err', value) of all objects, in order

    def register(self, gs, desc):
        if id(gs) in self.index:
            return self.index[id(gs)]
        k = len(self.objs)
        self.objs.append((gs, desc, pulse_of_gate_set(desc)))
        self.index[id(gs)] = k
        # a gate set that was alive before part B started (module-level instances) may already hold entries
        for key, v in list(integrator_of(gs)._cache.items()):
            self.log.append((k, key[0], key[1], key[2], "pre", v))
        return k


def run_gate_case(case, world, pool, ex, isolated=False, prewarm=None, pristine=None):
    """returns dict(fail=None|text, detail, info)"""
    sets, persistent = {}, {}
    for gi in case["alive"]:
        desc = case["sets"][gi]
        if isolated:
            sets[gi], persistent[gi] = fresh_gate_set(desc), False
        else:
            sets[gi], persistent[gi] = alive_gate_set(desc, persistent=(gi % 2 == 0))
    if prewarm:
        for gi, reqs in prewarm.items():
            for integrand, dth, da in reqs:
                with quiet():
                    try:
                        integrator_of(sets[int(gi)]).integrate(integrand, build_num(dth, pool), build_num(da, pool))
                    except Exception:                      # noqa
                        pass
    spies, log0 = [], None
    if world is not None:
        log0 = len(world.log)
        for gi, gs in sets.items():
            k = world.register(gs, case["sets"][gi])
            if "integrate" not in integrator_of(gs).__dict__:
                spies.append(IntegrateSpy(integrator_of(gs), world.log, k))
    try:
        np.random.seed(case["history_seed"])
        for gi, gate, args in case["history"]:
            call_gate(sets[gi], gate, args, pool)
        gi, gate, args = case["final"]
        gs = sets[gi]
        mark = len(world.log) if world is not None else 0
        np.random.seed(case["seed"])
        m_warm = call_gate(gs, gate, args, pool)
        st_warm = np.random.get_state()
        mark2 = len(world.log) if world is not None else 0
        draws = []
        np.random.seed(case["seed"])
        with draw_recorder(draws):
            m_again = call_gate(gs, gate, args, pool)
        st_again = np.random.get_state()
    finally:
        for s in spies:
            s.remove()
    fresh = fresh_gate_set(case["sets"][gi])
    np.random.seed(case["seed"])
    m_cold = call_gate(fresh, gate, args, pool)
    st_cold = np.random.get_state()
    same_state = lambda s, t: s[0] == t[0] and np.array_equal(s[1], t[1]) and s[2:] == t[2:]
    fail = None
    if m_warm.tobytes() != m_again.tobytes() or not same_state(st_warm, st_again):
        fail = "two identical requests on the same warm objects after the same seed differ"
    elif m_warm.tobytes() != m_cold.tobytes():
        d = np.abs(m_warm - m_cold)
        fail = ("the sample on the warm objects differs from the sample on fresh objects after the same seed "
                f"(max |difference| = {np.nanmax(d) if d.size else 0:.3e}; numerically equal: {bool(np.array_equal(m_warm, m_cold, equal_nan=True))})")
    elif not same_state(st_warm, st_cold):
        fail = "warm and fresh objects leave numpy's generator in different states"
    elif pristine is not None:
        np.random.set_state(st_warm)
        dig = state_digest()
        ans = pristine.ask({"kind": "gate", "set": case["sets"][gi], "gate": gate, "args": args, "seed": case["seed"]})
        if ans["bytes"] != m_warm.tobytes().hex():
            m_cold = np.frombuffer(bytes.fromhex(ans["bytes"]), dtype=complex).reshape(m_warm.shape)
            d = np.abs(m_warm - m_cold)
            fail = ("the sample on the warm objects differs from the sample a process without any history draws after the same seed "
                    f"(max |difference| = {np.nanmax(d) if d.size else 0:.3e}); fresh objects in this process agree with the warm ones, so "
                    "the history is kept at class or module level")
        elif ans["state"] != dig:
            fail = "the warm objects and a process without any history leave numpy's generator in different states"
    info = {"draws": draws, "final_reqs": [], "final_hits": 0}
    if world is not None:
        fin = world.log[mark:mark2]
        info["final_reqs"] = fin
        info["final_hits"] = sum(1 for r in fin if r[4] == "hit")
        info["new_log"] = (log0, len(world.log))
    detail = {"warm_sha": core.sha(m_warm.tobytes().hex()), "cold_sha": core.sha(m_cold.tobytes().hex()),
              "warm": [[repr(complex(x)) for x in r] for r in m_warm], "cold": [[repr(complex(x)) for x in r] for r in m_cold]} if fail else None
    return {"fail": fail, "detail": detail, "info": info, "gs_index": gi, "world_k": world.index[id(gs)] if world is not None else None}


# ================================================================================================ part C: simulator
def device_params(rng, n):
    rs = np.random.RandomState(rng.randrange(2 ** 31))
    return {"T1": rs.uniform(50e-6, 150e-6, n), "T2": rs.uniform(30e-6, 90e-6, n), "p": rs.uniform(1e-4, 8e-4, n),
            "rout": rs.uniform(0.01, 0.04, n), "p_int": rs.uniform(5e-3, 2e-2, (n, n)), "t_int": rs.uniform(3e-7, 6e-7, (n, n)),
            "tm": rs.uniform(1e-6, 5e-6, n), "dt": np.array([2.2e-10])}


def gen_sim_case(rng, idx, classes, set_descs):
    n = rng.choice([2, 3])
    two = rng.choice(["cx", "ecr"])
    ops = []
    for _ in range(rng.randint(3, 9)):
        k = rng.choice(["rz", "sx", "x", two, two, "delay"])
        if k == two:
            a, b = rng.sample(range(n), 2)
            if abs(a - b) != 1:
                b = a + 1 if a + 1 < n else a - 1
            ops.append([k, [a, b]])
        elif k == "rz":
            ops.append([k, [rng.randrange(n)], rng.uniform(-3, 3)])
        elif k == "delay":
            ops.append([k, [rng.randrange(n)], rng.choice([80, 160, 16])])
        else:
            ops.append([k, [rng.randrange(n)]])
    if not any(o[0] == two for o in ops):
        ops.insert(rng.randrange(len(ops) + 1), [two, [0, 1]])
    for q in range(n):                                      # every qubit is touched and measured
        ops.append(["sx", [q]])
    return {"level": "simulator", "idx": idx, "n": n, "ops": ops, "cls": rng.choice(classes), "set": rng.choice(set_descs),
            "shots": rng.choice([1, 2, 3]), "seed": rng.randrange(2 ** 31), "dev_seed": rng.randrange(2 ** 31),
            "disturb_seed": rng.randrange(2 ** 31)}


def build_circuit(case):
    from qiskit import QuantumCircuit
    qc = QuantumCircuit(case["n"], case["n"])
    for op in case["ops"]:
        if op[0] == "rz": qc.rz(op[2], op[1][0])
        elif op[0] == "sx": qc.sx(op[1][0])
        elif op[0] == "x": qc.x(op[1][0])
        elif op[0] == "cx": qc.cx(*op[1])
        elif op[0] == "ecr": qc.ecr(*op[1])
        elif op[0] == "delay": qc.delay(op[2], op[1][0])
    for q in range(case["n"]):
        qc.measure(q, q)
    return qc


CALLS = []


class SpyGates(object):
    """gate-set proxy that records which gate-set methods a shot calls (the log is module-level: deep copies share it)"""
    def __init__(self, inner):
        self.inner = inner

    def __getattr__(self, name):
        if name in ("inner", "__deepcopy__", "__getstate__", "__setstate__"):
            raise AttributeError(name)
        f = getattr(self.inner, name)
        if not callable(f):
            return f

        def g(*a, **k):
            CALLS.append(name)
            return f(*a, **k)
        return g


def canon_dict(d):
    return [[k, canon_val(v)] for k, v in d.items()]


def run_sim_case(case, ex, pool, pristine=None):
    import random as _r
    from quantum_gates.simulators import MrAndersonSimulator
    from quantum_gates._simulation import circuit as cm
    rng = _r.Random(case["disturb_seed"])
    qc = build_circuit(case)
    n = case["n"]
    dev = device_params(_r.Random(case["dev_seed"]), n)
    psi0 = np.zeros(2 ** n); psi0[0] = 1.0
    layout = list(range(n))
    snap = lambda: (psi0.tobytes(), {k: np.asarray(v).tobytes() for k, v in dev.items()}, list(layout), len(qc.data))
    gs, _ = alive_gate_set(case["set"], persistent=True)
    sim = MrAndersonSimulator(gates=gs, CircuitClass=getattr(cm, case["cls"]), parallel=False)
    before = snap()
    out = {"fail": None}

    def run(s, seed):
        np.random.seed(seed)
        with quiet():
            r = s.run(t_qiskit_circ=qc, qubits_layout=layout, psi0=psi0, shots=case["shots"], device_param=dev, nqubit=n)
        return canon_dict(r), np.random.get_state()
    r1, st1 = run(sim, case["seed"])
    # disturb: gate requests on the simulator's own gate set (warms its cache), another run with another seed
    np.random.seed(rng.randrange(2 ** 31))
    for _ in range(rng.randint(1, 5)):
        gate = rng.choice(["X", "SX", "CNOT", "ECR", "single_qubit_gate", "CR"])
        call_gate(gs, gate, gate_args(gate, rng), pool)
    if rng.random() < 0.6:
        run(sim, rng.randrange(2 ** 31))
    cache_before = len(integrator_of(gs)._cache)
    r2, st2 = run(sim, case["seed"])
    cache_after = len(integrator_of(gs)._cache)
    same_state = lambda s, t: s[0] == t[0] and np.array_equal(s[1], t[1]) and s[2:] == t[2:]
    sim3 = MrAndersonSimulator(gates=fresh_gate_set(case["set"]), CircuitClass=getattr(cm, case["cls"]), parallel=False)
    r3, st3 = run(sim3, case["seed"])
    # translation validation of (iv): gate-set calls and draws of the whole run
    del CALLS[:]
    draws = []
    sim4 = MrAndersonSimulator(gates=SpyGates(gs), CircuitClass=getattr(cm, case["cls"]), parallel=False)
    with draw_recorder(draws):
        r4, st4 = run(sim4, case["seed"])
    calls = list(CALLS)
    # the simulator's public attribute `gates` is replaced between runs: the next run samples from the NEW gate set only
    other = ["ScaledNoiseGates", 3.0, ["constant"]] if case["set"][0] != "ScaledNoiseGates" else ["standard_gates"]
    sim.gates = fresh_gate_set(other)
    r5, st5 = run(sim, case["seed"])
    sim6 = MrAndersonSimulator(gates=fresh_gate_set(other), CircuitClass=getattr(cm, case["cls"]), parallel=False)
    r6, st6 = run(sim6, case["seed"])
    sim.gates = gs
    if r1 != r2:
        out["fail"] = "two sequential runs on one simulator object after the same seed return different dicts"
    elif not same_state(st1, st2):
        out["fail"] = "two sequential runs on one simulator object leave numpy's generator in different states"
    elif r1 != r3 or not same_state(st1, st3):
        out["fail"] = "a run on the used simulator object and a run on fresh objects after the same seed differ"
    elif snap() != before:
        out["fail"] = "the run modified the caller's psi0 / device parameters / layout / circuit"
    elif pristine is not None and pristine.ask({"kind": "sim", "case": case})["res"] != r1:
        out["fail"] = "a run on the used simulator object differs from the run a process without any history performs after the same seed"
    elif r5 != r6 or not same_state(st5, st6):
        out["fail"] = ("after the simulator's gate set was replaced (sim.gates = ...), a run after the same seed differs from the run of a "
                       "new simulator built on that gate set: an earlier run's gate set is still in use")
    elif r4 != r1:
        out["fail"] = "a run through a pass-through recording proxy of the gate set differs (the shot loop depends on more than the gate set's methods)"
    if out["fail"] is None:
        # the SAME circuit object edited in place between two runs of the same simulator (read-out removed, gates appended, read out
        # again): the run must simulate the circuit as it is now - exactly what new objects give for a new circuit of that content
        extra = [["x", [min(1, n - 1)]], ["rz", [0], 0.37], ["sx", [0]]]
        for _ in range(n):
            qc.data.pop()
        for op in extra:
            (qc.rz(op[2], op[1][0]) if op[0] == "rz" else getattr(qc, op[0])(op[1][0]))
        for q in range(n):
            qc.measure(q, q)
        r7, st7 = run(sim, case["seed"])
        case8 = dict(case, ops=case["ops"] + extra)
        qc_keep, qc = qc, build_circuit(case8)
        sim8 = MrAndersonSimulator(gates=fresh_gate_set(case["set"]), CircuitClass=getattr(cm, case["cls"]), parallel=False)
        r8, st8 = run(sim8, case["seed"])
        qc = qc_keep
        if r7 != r8 or not same_state(st7, st8):
            out["fail"] = ("the circuit object was edited in place between two runs of one simulator (read-out removed, x / rz / sx appended, read "
                           "out again): the second run differs from the run of new objects on a new circuit with the same content after the "
                           "same seed - the simulator kept something of the earlier run")
    if out["fail"] is None:
        # the caller changes the SAME device-parameter mapping in place between two runs of one simulator (a noise sweep): the
        # second run uses the new values - exactly what a new simulator returns for them after the same seed
        qc = build_circuit(case)
        r9a, _ = run(sim, case["seed"])
        dev["T1"] = dev["T1"] * 0.8                       # rebinding an entry (T2 <= 2 T1 stays true: T2 is reduced as well)
        dev["T2"] = dev["T2"] * 0.4
        dev["p"][min(1, n - 1)] *= 3.0                    # writing into an array
        dev["p_int"] = dev["p_int"] * 2.0
        r9, st9 = run(sim, case["seed"])
        sim10 = MrAndersonSimulator(gates=fresh_gate_set(case["set"]), CircuitClass=getattr(cm, case["cls"]), parallel=False)
        r10, st10 = run(sim10, case["seed"])
        if r9 != r10 or not same_state(st9, st10):
            out["fail"] = ("the device-parameter mapping was changed in place between two runs of one simulator (T1, T2 rebound, p[k] and p_int "
                           "rescaled): the second run differs from the run of a new simulator on the changed mapping after the same seed - "
                           "the simulator kept the earlier calibration")
    out.update(r1=r1, r2=r2, r3=r3, calls=calls, draws=draws, cache_growth=cache_after - cache_before)
    return out


def tiny_angle_repetitions(seed, n):
    """n small rotation angles (log-uniform in [1e-9, 4e-4], both signs): after the same numpy seed the same request on the same gate
    set gives the same matrix, bit for bit.  Returns (requests, failure | None)."""
    import random
    from quantum_gates._gates.gates import standard_gates
    rng = random.Random(seed)
    for i in range(n):
        th = rng.choice([-1, 1]) * 10.0 ** rng.uniform(-9, -3.4)
        args = (th, rng.uniform(-3, 3), 1e-3, 1e-4, 5e-5)
        out = []
        for _ in range(2):
            np.random.seed(11)
            with quiet():
                out.append(np.array(standard_gates.single_qubit_gate(*args)))
        if out[0].tobytes() != out[1].tobytes():
            return 2 * (i + 1), (f"standard_gates.single_qubit_gate{args}: two requests after numpy.random.seed(11) differ by "
                                 f"{float(np.abs(out[0] - out[1]).max()):.3e} - the sample does not depend on numpy's global generator only")
    return 2 * n, None


def short_lived_gate_sets(n):
    """returns (gate sets built, failure | None)"""
    import gc as _gc
    from quantum_gates._gates.gates import Gates
    from quantum_gates._gates.pulse import GaussianPulse
    shapes = [(0.5, 0.4), (0.5, 0.08), (0.2, 0.25), (0.8, 0.15)]
    keep, built = [], 0
    args = (0.9, 0.3, 1e-3, 1e-4, 5e-5)
    for i in range(n):
        loc, scale = shapes[i % len(shapes)]
        p = GaussianPulse(loc=loc, scale=scale)
        g = Gates(p)
        np.random.seed(7)
        with quiet():
            A = np.array(g.single_qubit_gate(*args))
        del g, p
        _gc.collect()
        p2 = GaussianPulse(loc=loc, scale=scale)
        g2 = Gates(p2)
        keep.append((p2, g2))
        built += 2
        np.random.seed(7)
        with quiet():
            B = np.array(g2.single_qubit_gate(*args))
        if A.tobytes() != B.tobytes():
            return built, (f"Gates(GaussianPulse({loc}, {scale})).single_qubit_gate{args} after numpy seed 7: the sample of gate set number {2 * i + 1} of the "
                           f"process differs from the sample of gate set number {2 * i + 2} on a new pulse of the same shape by "
                           f"{float(np.abs(A - B).max()):.3e} (earlier gate sets on other pulse shapes had been dropped): a sample depends on other "
                           f"gate-set objects of the process")
    return built, None


def predicted_draws(ex, calls):
    meth = ex["gates"]["methods"]
    out = []
    for c in calls:
        out += ex["factories"][meth[c]]["script"]
    return out


# ================================================================================================ main
def driver_request(cfg, events, known):
    return {"op": "history", "key_fields": cfg["key_fields"], "coerced": cfg["coerced"], "known": cfg["known"] or known,
            "instance_level": cfg["instance_level"], "events": events}


def main(ctx):
    cov = ctx.coverage
    rng = ctx.rng
    t_start = time.time()
    tie_broken, ex = None, None
    try:
        ex = gen.generate()
    except (pyexpr.Unsupported, SyntaxError, OSError, KeyError, IndexError, AttributeError, TypeError) as e:
        tie_broken = f"translator fails closed: {type(e).__name__}: {e}"
        print(f"[{ctx.pid}] {tie_broken}")
    lean = ctx.lean("QG.Props.C10") if tie_broken is None else None
    cfg = model_cfg(ex)
    known = known_keys()
    pool = NanPool()
    cold = Cold(pool)
    pristine = Pristine()
    violations = []                    # (sig, replay, what)
    corr_mism, script_mism = [], []
    hist = {"A_family": {}, "A_status": {}, "B_family": {}, "B_gate": {}, "B_integrator_status": {}, "C_class": {}, "C_set": {}}
    bump = lambda h, k: hist[h].__setitem__(k, hist[h].get(k, 0) + 1)
    nontrivial = set()

    # ---------------------------------------------------------------- A: integrator histories (model correspondence + oracle)
    pulse_descs = [["constant"], ["constant-numerical"], ["gaussian", 0.5, 0.3],
                   ["gaussian", round(rng.uniform(0.1, 0.9), 3), round(rng.uniform(0.1, 1.0), 3)], ["constant"]]
    nA = 420 if ctx.thorough else 130
    casesA = []
    for fam in A_FAMILIES:                                   # designed corpus first: one case per family with fixed structure
        casesA.append(gen_integrator_case(rng, fam, pulse_descs, len(casesA)))
    casesA.insert(0, {"level": "integrator", "family": "corpus", "sub": "typed", "idx": -1, "pulses": [["constant"]],
                      "events": [["new", 0], ["req", 0, "sin(theta/a)", fl(1, "bool"), fl(1, "int")],
                                 ["req", 0, "sin(theta/a)", fl(1.0), fl(1, "int")]]})
    casesA.insert(1, {"level": "integrator", "family": "corpus", "sub": "typed", "idx": -2, "pulses": [["constant-numerical"]],
                      "events": [["new", 0], ["req", 0, "sin(theta/a)**2", fl(0.5, "np.float32"), fl(2.0)],
                                 ["req", 0, "sin(theta/a)**2", fl(0.5), fl(2.0)]]})
    casesA.insert(2, {"level": "integrator", "family": "corpus", "sub": "eq-theta-diff-a", "idx": -3, "pulses": [["gaussian", 0.5, 0.3], ["constant"]],
                      "events": [["new", 0], ["new", 1], ["req", 0, "sin(theta/a)**2", fl(math.pi / 4), fl(3.7)],
                                 ["req", 0, "sin(theta/a)**2", fl(math.pi / 4), fl(1, "int")], ["req", 1, "sin(theta/a)**2", fl(math.pi / 4), fl(3.7)],
                                 ["copy", 0], ["req", 2, "sin(theta/a)**2", fl(math.pi / 4), fl(3.7)], ["req", 0, "sin(theta/a)**2", fl(-math.pi / 4), fl(3.7)]]})
    while len(casesA) < nA:
        casesA.append(gen_integrator_case(rng, rng.choice(A_FAMILIES), pulse_descs, len(casesA)))
    realsA, reqsA = [], []
    sign_diffs = 0
    for case in casesA:
        real = run_integrator_case(case, pool, cold, pristine)
        realsA.append(real)
        reqsA.append(driver_request(cfg, real["model_events"], known))
        ctx.count(sum(1 for e in case["events"] if e[0] == "req"))
        bump("A_family", case["family"] + ("/" + case["sub"] if case["family"] in ("mixed", "corpus") else ""))
        for o in real["obs"]:
            if "r" in o:
                bump("A_status", o["r"][0])
        sign_diffs += real["sign_diffs"]
        if real["hits"]:
            nontrivial.add(core.sha(["A", case["events"]]))
        for f in real["oracle_fail"]:
            cls = "numeric-type-collision" if type_collision(real["model_events"], f["event"]) else "other"
            upto = [e for e in case["events"][: f["event"] + 1]]
            violations.append(({"kind": "history", "class": cls},
                               {"level": "integrator", "pulses": case["pulses"], "events": upto, "failing_event": f["event"],
                                "expected_cold": f["cold"], "observed_warm": f["warm"], "family": case["family"]},
                               f"Integrator({f['pulse']}) after {sum(1 for e in upto[:-1] if e[0] == 'req')} earlier request(s): "
                               f"integrate({f['call'][0]!r}, {_shown(f['call'][1])}, {_shown(f['call'][2])}) returns {_res(f['warm'])} but a fresh "
                               f"integrator returns {_res(f['cold'])}"))
    ctx.sample({"part": "A", "case": {k: casesA[4][k] for k in ("family", "pulses")}, "events": casesA[4]["events"][:6],
                "observed": realsA[4]["obs"][:6]})

    # ---------------------------------------------------------------- the one value-relevant collision class: theta = 0.0 / -0.0
    # (assumption `hcompute` of cache_transparent / cache_scoped_per_pulse_rel, measured on the real code: the two zeros must give
    # numerically equal integrals on both branches; whether they are also bit-identical is recorded per branch and integrand)
    zero_table = {}
    for pd in ([["constant"]], [["constant-numerical"]], [["gaussian", 0.5, 0.3]]):
        for key in known:
            for a in (fl(1, "int"), fl(3.7)):
                vp = cold.of_descs(pd[0], key, fl(0.0), a)
                vn = cold.of_descs(pd[0], key, fl(-0.0), a)
                ctx.count(2)
                same = "bit-identical" if vp == vn else ("equal, sign of zero differs" if vp[0] == vn[0] == "ok" and "nan" not in (vp[1], vn[1])
                                                         and from_bits(vp[1]) == from_bits(vn[1]) else "DIFFERENT VALUES")
                zero_table.setdefault(pd[0][0], {}).setdefault(same, [])
                if key not in zero_table[pd[0][0]][same]:
                    zero_table[pd[0][0]][same].append(key)
                if same == "DIFFERENT VALUES":
                    violations.append(({"kind": "history", "class": "signed-zero-values"},
                                       {"level": "integrator", "pulses": pd, "events": [["new", 0], ["req", 0, key, fl(0.0), a], ["req", 0, key, fl(-0.0), a]],
                                        "failing_event": 2, "expected_cold": list(vn), "observed_warm": list(vp)},
                                       f"Integrator({pd[0]}).integrate({key!r}, -0.0, {_shown(a)}) = {_res(vn)} but theta = 0.0, which shares its cache "
                                       f"entry, gives {_res(vp)}"))
    cov["signed_zero_theta_table"] = zero_table

    # ---------------------------------------------------------------- B: gate histories on several gate sets
    set_descs = [["standard_gates"], ["numerical_gates"], ["Gates", ["gaussian", 0.5, 0.3]], ["Gates", ["gaussian", 0.5, 0.3]],
                 ["ScaledNoiseGates", 0.37, ["constant"]], ["Gates", ["constant"]],
                 ["ScaledNoiseGates", 2.5, ["gaussian", round(rng.uniform(0.2, 0.8), 3), round(rng.uniform(0.15, 0.6), 3)]]]
    world = GateWorld(pool)
    nB = 400 if ctx.thorough else 110
    casesB = []
    v0 = {a: fl(x) for a, x in zip(gc.GATE_ARGS["single_qubit_gate"], (1.0, 0.3, 1e-3, 50e-6, 30e-6))}
    casesB.append({"level": "gate", "family": "corpus-typed-theta", "idx": -1, "sets": [["standard_gates"], ["Gates", ["constant"]]],
                   "alive": [1], "history": [[1, "single_qubit_gate", dict(v0, theta=fl(1, "bool"))]], "final": [1, "single_qubit_gate", v0],
                   "seed": 1, "history_seed": 2})
    casesB.append({"level": "gate", "family": "corpus-typed-theta", "idx": -2, "sets": [["numerical_gates"], ["Gates", ["constant-numerical"]]],
                   "alive": [1], "history": [[1, "single_qubit_gate", dict(v0, theta=fl(0.5, "np.float32"))]],
                   "final": [1, "single_qubit_gate", dict(v0, theta=fl(0.5))], "seed": 1, "history_seed": 2})
    # a cross-resonance pulse of zero area (theta = 0.0 / -0.0): its sample must be reproduced by the seed like any other
    c0 = {a: fl(x) for a, x in zip(gc.GATE_ARGS["CR"], (0.0, 0.4, 3.7 * TG, 0.02, 60e-6, 40e-6, 80e-6, 50e-6))}
    for k, th in enumerate((0.0, -0.0)):
        casesB.append({"level": "gate", "family": "corpus-zero-angle-cr", "idx": -3 - k, "sets": [["standard_gates"], ["Gates", ["constant"]]],
                       "alive": [1], "history": [[1, "CR", dict(c0, theta=fl(th))]], "final": [1, "CR", dict(c0, theta=fl(th))],
                       "seed": 5, "history_seed": 6})
    for fam in B_FAMILIES:
        casesB.append(gen_gate_case(rng, fam, set_descs, len(casesB)))
    while len(casesB) < nB:
        casesB.append(gen_gate_case(rng, rng.choice(B_FAMILIES), set_descs, len(casesB)))
    script_cases = 0
    for case in casesB:
        res = run_gate_case(case, world, pool, ex, pristine=pristine)
        ctx.count(len(case["history"]) + 4)
        bump("B_family", case["family"]); bump("B_gate", case["final"][1])
        info = res["info"]
        if info["final_hits"] and case["history"]:
            nontrivial.add(core.sha(["B", case["history"], case["final"]]))
        if ex is not None:                                    # translation validation: draws and requested integrands of the final gate
            cls = ex["gates"]["methods"][case["final"][1]]
            script_cases += 1
            if info["draws"] != ex["factories"][cls]["script"]:
                script_mism.append(f"{case['final'][1]}: real draws {info['draws'][:6]}.. ({len(info['draws'])}) vs extracted script of {cls} "
                                   f"{ex['factories'][cls]['script'][:6]}.. ({len(ex['factories'][cls]['script'])})")
            got = sorted({r[1] for r in info["final_reqs"]})
            if got != ex["factories"][cls]["integ_keys_flat"]:
                script_mism.append(f"{case['final'][1]}: requested integrands {got} vs extracted {ex['factories'][cls]['integ_keys_flat']}")
        if res["fail"]:
            # is the failure reproducible from the case alone (fresh objects for everything)?  if not, add the colliding earlier
            # requests the persistent gate set served in previous cases
            iso = run_gate_case(case, None, pool, ex, isolated=True, pristine=pristine)
            prewarm = None
            if not iso["fail"]:
                gi, k = res["gs_index"], res["world_k"]
                lo = info["new_log"][0]
                fin_keys = {(r[1], float(r[2]), float(r[3])) for r in info["final_reqs"]}
                pw = []
                for r in world.log[:lo]:
                    if r[0] == k and (r[1], float(r[2]), float(r[3])) in fin_keys:
                        d = [r[1], [type_name(r[2]), float(r[2]).hex()], [type_name(r[3]), float(r[3]).hex()]]
                        if d not in pw:
                            pw.append(d)
                prewarm = {str(gi): pw}
                iso = run_gate_case(case, None, pool, ex, isolated=True, prewarm=prewarm, pristine=pristine)
            fin = info["final_reqs"]
            coll = any(r[4] == "hit" and any(e[0] == r[0] and e[1] == r[1] and e[4] in ("miss", "pre") and float(e[2]) == float(r[2])
                                             and float(e[3]) == float(r[3]) and (class_of_obj(e[2]), class_of_obj(e[3])) != (class_of_obj(r[2]), class_of_obj(r[3]))
                                             and REDUCED & {class_of_obj(e[2]), class_of_obj(e[3]), class_of_obj(r[2]), class_of_obj(r[3])}
                                             for e in world.log[: info["new_log"][1]]) for r in fin)
            cls = "numeric-type-collision" if coll else "other"
            gi, gate, args = case["final"]
            violations.append(({"kind": "history", "class": cls},
                               {"level": "gate", "case": case, "prewarm": prewarm, "reproduces_in_isolation": bool(iso["fail"]),
                                "failure": res["fail"], **(res["detail"] or {})},
                               f"{case['sets'][gi]} after {len(case['history'])} gate request(s) [{case['family']}]: {gate}({_show(args)}) — {res['fail']}"))
    ctx.sample({"part": "B", "family": casesB[4]["family"], "alive": [casesB[4]["sets"][i] for i in casesB[4]["alive"]],
                "history": [[g, n] for g, n, _ in casesB[4]["history"]][:8], "final": casesB[4]["final"][:2]})
    # the model on the whole of part B: one world, every integrate request of every gate set in true order
    realB, reqB = None, None
    if world.objs:
        evB, obsB, created = [], [], 0
        for r in world.log:
            while created <= r[0]:
                evB.append(["new", created]); obsB.append({"c": created}); created += 1     # model pulse id = object number
            evB.append(["req", r[0], r[1], model_num(r[2], pool), model_num(r[3], pool)])
            obsB.append({"r": ["err", "err", r[5]] if r[4] == "err" else ["miss" if r[4] == "pre" else r[4], "ok", canon_val(r[5])]})
        while created < len(world.objs):
            evB.append(["new", created]); obsB.append({"c": created}); created += 1
        finalB = {"cells": [[(canon_key(k, pool), canon_val(v)) for k, v in integrator_of(gs)._cache.items()] for gs, _, _ in world.objs],
                  "share": [min(j for j, (q, _, _) in enumerate(world.objs) if integrator_of(q)._cache is integrator_of(gs)._cache)
                            for gs, _, _ in world.objs]}
        realB = {"obs": obsB, "final": finalB}
        reqB = driver_request(cfg, evB, known)
        ctx.count(len(evB))
        for _, _, _, _, st, _ in world.log:
            bump("B_integrator_status", st)

    # ---------------------------------------------------------------- C: simulator
    classes = ["BinaryCircuit", "EfficientCircuit"] + (["StandardCircuit", "Circuit", "OneCircuit"] if ctx.thorough else ["StandardCircuit"])
    sim_sets = [["standard_gates"], ["standard_gates"], ["numerical_gates"], ["ScaledNoiseGates", 0.37, ["constant"]]]
    casesC = [gen_sim_case(rng, i, classes, sim_sets) for i in range(40 if ctx.thorough else 12)]
    for i, c in enumerate(casesC[:2]):
        c["cls"] = ["BinaryCircuit", "EfficientCircuit"][i]; c["set"] = ["standard_gates"]
    gcase = gen_sim_case(rng, len(casesC), ["BinaryCircuit"], [["Gates", ["gaussian", 0.5, 0.3]]])
    gcase["shots"] = 1 if not ctx.thorough else 2
    casesC.append(gcase)
    sim_script_cases = 0
    for case in casesC:
        res = run_sim_case(case, ex, pool, pristine)
        ctx.count(5)
        bump("C_class", case["cls"]); bump("C_set", case["set"][0])
        nontrivial.add(core.sha(["C", case["ops"], case["cls"], case["set"]]))
        if res["cache_growth"]:
            corr_mism.append(f"simulator: the gate set's own integrator cache grew by {res['cache_growth']} during run (shots work on deep copies)")
        if ex is not None:
            sim_script_cases += 1
            want = predicted_draws(ex, res["calls"])
            if want != res["draws"]:
                script_mism.append(f"simulator run ({case['cls']}): {len(res['draws'])} real draws vs {len(want)} predicted from {len(res['calls'])} gate-set calls")
            if case["shots"] > 1 and res["calls"]:
                per = len(res["calls"]) // case["shots"]
                if any(res["calls"][i * per:(i + 1) * per] != res["calls"][:per] for i in range(case["shots"])):
                    script_mism.append(f"simulator run ({case['cls']}): the shots issue different gate-set call sequences")
        if res["fail"]:
            violations.append(({"kind": "simulator-rerun"}, {"level": "simulator", "case": case, "failure": res["fail"],
                               "first": res["r1"], "second": res["r2"], "fresh": res["r3"]},
                               f"MrAndersonSimulator({case['set']}, {case['cls']}), {case['n']} qubits, {case['shots']} shot(s), seed {case['seed']}: {res['fail']}"))
    ctx.sample({"part": "C", "class": casesC[0]["cls"], "gate_set": casesC[0]["set"], "ops": casesC[0]["ops"][:8], "shots": casesC[0]["shots"]})

    # ---------------------------------------------------------------- gate sets that come and go
    # gate sets on Gaussian pulses of different shape are built, sampled once after a seed and DROPPED (their memory is reused by
    # the next objects); each sample must be the sample of a gate set on a new pulse of the same shape that is kept alive
    sl = short_lived_gate_sets(60 if ctx.thorough else 24)
    ctx.count(sl[0])
    cov["short_lived_gate_sets"] = sl[0]
    if sl[1]:
        violations.append(({"kind": "gate-set-lifetime"}, {"level": "lifetime", "failure": sl[1]}, sl[1]))

    ta = tiny_angle_repetitions(ctx.seed, 1500 if ctx.thorough else 400)
    ctx.count(ta[0])
    cov["tiny_angle_repetitions"] = ta[0]
    if ta[1]:
        violations.append(({"kind": "not-reproducible-after-seed"}, {"level": "tiny-angles", "seed": ctx.seed, "failure": ta[1]}, ta[1]))

    cov["pristine_process_questions"] = pristine.n
    pristine.close()

    # ---------------------------------------------------------------- the model (one driver batch)
    t_model = time.time()
    try:
        batch = reqsA + ([reqB] if realB is not None else [])
        answers = core.Driver(ctx.pid).batch(batch)
        for case, real, ans in zip(casesA, realsA, answers):
            if "bad" in ans:
                corr_mism.append(f"A case {case['idx']}: driver rejects the request: {ans['bad']}"); continue
            for m in compare_with_model(case["pulses"], real, ans, cold)[:3]:
                corr_mism.append(f"A case {case['idx']} [{case['family']}]: {m}")
        if realB is not None:
            ans = answers[-1]
            if "bad" in ans:
                corr_mism.append(f"B: driver rejects the request: {ans['bad']}")
            else:
                pulsesB = [p for _, _, p in world.objs]
                for m in compare_with_model(pulsesB, realB, ans, cold)[:5]:
                    corr_mism.append(f"B (all gate sets, {len(realB['obs'])} events): {m}")
    except Exception as e:                                    # noqa
        corr_mism.append(f"model driver: {type(e).__name__}: {e}")

    # ---------------------------------------------------------------- evidence
    cov["distinct_nontrivial"] = len(nontrivial)
    cov["rule"] = ("A: event histories on 1-7 integrators (new / deepcopy / integrate) over 5 pulses, families " + ", ".join(A_FAMILIES) +
                   "; B: histories of gate requests on 2-7 gate sets alive in the process (module-level standard_gates / numerical_gates, "
                   "Gates, ScaledNoiseGates, two objects of one pulse), families " + ", ".join(B_FAMILIES) + ", then seed + final gate on warm "
                   "objects (twice) and on fresh objects; C: 2-3 qubit circuits, sequential runs on one simulator object (before / after gate "
                   "requests and other runs), on fresh objects and through a recording proxy.  non-trivial = distinct case in which a cache hit "
                   "actually occurred (A: during the history; B: during the final request after a non-empty history) / every simulator case")
    cov["programs"] = len(gen.gf.ALL)
    cov["histogram"] = hist
    cov["integrator_cases"] = len(casesA)
    cov["gate_cases"] = len(casesB)
    cov["simulator_cases"] = len(casesC)
    cov["model_events_validated"] = sum(len(r["model_events"]) for r in realsA) + (len(realB["obs"]) if realB else 0)
    cov["correspondence_mismatches"] = len(corr_mism)
    cov["script_validation_cases"] = script_cases + sim_script_cases
    cov["script_mismatches"] = len(script_mism)
    cov["cold_evaluations"] = cold.n
    cov["signed_zero_bit_differences_at_integrator_level"] = {
        "count": sign_diffs,
        "meaning": "answers numerically equal (==) to the cold answer but with the other sign of zero: a request with theta = -0.0 (0.0) served "
                   "from the entry of theta = 0.0 (-0.0); only the numerical branch distinguishes them (odd integrands integrate to -0.0); "
                   "allowed by the oracle at integrator level, while the gate matrices of family signed-zero-theta must be and are bit-identical"}
    cov["extracted"] = None if ex is None else {
        "cache_key": ex["integrate"]["key_source"], "coerced": ex["integrate"]["coerced_source"], "cache_created": ex["state"]["cache_created"],
        "state_writers": ex["state"]["writers"], "shot_args": ex["simulator"]["shot_args"], "entropy_scan": ex["entropy"],
        "draw_script_lengths": {n: len(r["script"]) for n, r in ex["factories"].items()}, "module_instances": ex["gates"]["instances"]}
    cov["trusted_base"] += [
        "hand-written model QG/Model/IntegratorCache.lean (dict as insertion-ordered item list; Python ==/hash on tuples of str and numbers with "
        "float64 bit patterns, numeric type tags, NaN objects by identity; deepcopy copies instance attributes only), tied on every run by "
        "exact differential correspondence on hit / miss / AssertionError, origin of every value, final keys and dict sharing",
        "translator harness/gen/determinism.py (+ gen/integrator.py, gen/factories.py, gen/gatesets.py, qgv/pyexpr.py, qgv/pymat.py): key "
        "tuple, coercion, state writers, draw scripts, __init__ tables, per-shot copies; validated against the real draws / requested "
        "integrands / gate-set calls on every run; the AST scans are syntactic (reflection such as getattr/exec is outside them; the bitwise "
        "oracle is what would expose it)",
        "numpy's global generator is a deterministic function of its state; scipy.integrate.quad, scipy.linalg.expm, numpy/BLAS are "
        "deterministic functions of their inputs (bitwise determinism under threads is outside the theorems; quick tier: BLAS / OpenMP "
        "pools pinned to one thread unless the environment sets them, thorough tier: ambient default thread settings; everything is "
        f"compared bitwise - a mismatch is reported as a violation; this run: OMP_NUM_THREADS={os.environ.get('OMP_NUM_THREADS')}, "
        f"OPENBLAS_NUM_THREADS={os.environ.get('OPENBLAS_NUM_THREADS')})",
        "`compute` (the two integration routines) is an arbitrary function of the request it is handed and of the integrator's pulse: that it "
        "reads nothing else is the extraction (self-attribute reads, global names, writers of those attributes)",
        "copy.deepcopy yields objects that share no mutable state with the original (functions / modules are shared, they are immutable here)"]
    ctx.assumptions += [
        "arguments are real-number-like scalars (Python bool/int/float, numpy integer / floating scalars); integers are exactly representable "
        "as float64; sequences / arrays as theta or a are outside (unhashable key: TypeError)",
        "'identical' = bitwise (tobytes / float bit pattern) for gate matrices, simulator dicts and generator states; at integrator level "
        "numerically equal (==, NaN with NaN), bitwise except for the sign of a zero",
        "exact theorems (no assumption on compute) exclude theta = -0.0; the Rel forms cover it under the stated assumption on compute, which the "
        "harness measures (signed_zero_bit_differences_at_integrator_level) and the gate-level family signed-zero-theta checks bitwise",
        "sequential mode only (parallel shots are C09); repetition inside one process"]
    cov["timing_s"] = {"total_python": round(time.time() - t_start, 1), "model": round(time.time() - t_model, 1)}

    # ---------------------------------------------------------------- verdicts
    # one VIOLATION per signature.  Candidates are tried smallest first (gate level before the others: the property speaks of sampled
    # gates) through the official replay path in a fresh interpreter; the first one that reproduces from its replay alone is reported.
    # (A case can also fail because of what EARLIER cases left behind at class / module level; such a case is only reported, with a
    # note, if no candidate of its signature is self-contained.)
    by_sig = {}
    for i in sorted(range(len(violations)), key=lambda i: (violations[i][1].get("level") != "gate", len(json.dumps(violations[i][1])), i)):
        by_sig.setdefault(json.dumps(violations[i][0], sort_keys=True), []).append(i)
    for k, idxs in by_sig.items():
        chosen, tried = None, 0
        for i in idxs[:4]:
            tried += 1
            if reproduces(violations[i][1]):
                chosen = i
                break
        sig, rp, what = violations[chosen if chosen is not None else idxs[0]]
        rp["failing_cases_with_this_signature"] = len(idxs)
        rp["replay_reproduces_in_a_fresh_interpreter"] = chosen is not None
        if chosen is None:
            what += f" [none of the {tried} smallest cases of this signature fails from its replay alone: the failure depends on state earlier cases of this run left behind]"
        ctx.violation(sig, rp, what)
    cov["oracle_failures"] = len(violations)
    if not violations:
        broken = tie_broken or (None if lean.ok else f"Lean obligations fail: {list(lean.failed.items())[:3]}") or \
            (f"correspondence model vs implementation: {corr_mism[0]}" if corr_mism else None) or \
            (f"extracted scripts vs real effects: {script_mism[0]}" if script_mism else None)
        if broken:
            ctx.violation({"kind": "tie"}, {"broken": broken, "correspondence": corr_mism[:5], "scripts": script_mism[:5]},
                          broken + "; the bitwise oracle found no failing input", no_failing_input=True)
    else:
        for what, l in (("tie", [tie_broken] if tie_broken else []), ("correspondence", corr_mism), ("scripts", script_mism)):
            if l:
                print(f"[{ctx.pid}] additionally ({what}): {l[0]}" + (f" (+{len(l) - 1} more)" if len(l) > 1 else ""))
        if lean is not None and not lean.ok:
            print(f"[{ctx.pid}] additionally: Lean obligations fail: {sorted(lean.failed)[:4]}")


def reproduces(rp):
    """does the official replay path, in a fresh interpreter, fail on this replay record?"""
    import tempfile
    with tempfile.NamedTemporaryFile("w", suffix=".json", prefix="c10-candidate-", delete=False) as f:
        json.dump({"replay": rp}, f, default=str)
    try:
        env = dict(os.environ); env["VERIF_REPO"] = core.REPO
        p = subprocess.run([sys.executable, "-W", "ignore", os.path.join(core.VERIF, "harness", "run.py"), "C10", "--replay", f.name],
                           capture_output=True, text=True, env=env, timeout=600)
        return p.returncode == 1 and "oracle:" in p.stdout
    except Exception:                                       # noqa
        return False
    finally:
        os.unlink(f.name)


def type_name(x):
    return REPR_OF_CLASS[class_of_obj(x)]


def _shown(d):
    return f"nan#{d[1]}" if d[0] == "nan" else f"{'' if d[0] == 'float' else d[0] + ':'}{float.fromhex(d[1])!r}"


def _res(r):
    return f"{r[1]}" if r[0] == "err" else ("nan" if r[1] == "nan" else repr(from_bits(r[1])))


def _show(args):
    return ", ".join(f"{k}={('' if v[0] == 'float' else v[0] + ':')}{float.fromhex(v[1])!r}" if v[0] != "nan" else f"{k}=nan#{v[1]}"
                     for k, v in args.items())


# ================================================================================================ replay (real code only)
def replay(ctx, path):
    rp = json.load(open(path))["replay"]
    level = rp.get("level")
    pool = NanPool()
    if level == "tiny-angles":
        n, bad = tiny_angle_repetitions(rp.get("seed", 0), 1500)
        print("tiny angles, two requests after the same seed:", bad or "oracle holds")
        return 1 if bad else 0
    if level == "lifetime":
        n, bad = short_lived_gate_sets(60)
        print("gate sets that come and go:", bad or "oracle holds")
        return 1 if bad else 0
    if level not in ("integrator", "gate", "simulator"):
        print("replay names a broken obligation, no input to re-run:", json.dumps(rp)[:600])
        return 1
    pristine = Pristine()
    try:
        return _replay(rp, level, pool, pristine)
    finally:
        pristine.close()


def _replay(rp, level, pool, pristine):
    if level == "integrator":
        cold = Cold(pool)
        case = {"pulses": rp["pulses"], "events": rp["events"]}
        real = run_integrator_case(case, pool, cold, pristine)
        for k, (e, o) in enumerate(zip(case["events"], real["obs"])):
            print(k, e, "->", o)
        bad = real["oracle_fail"]
        for f in bad:
            print(f"oracle: event {f['event']}: integrate({f['call'][0]!r}, {_shown(f['call'][1])}, {_shown(f['call'][2])}) on the used integrator "
                  f"returns {_res(f['warm'])}, a fresh Integrator({f['pulse']}) returns {_res(f['cold'])}")
        print("oracle:", "FAILS" if bad else "holds")
        return 1 if bad else 0
    if level == "gate":
        case = rp["case"]
        res = run_gate_case(case, None, pool, None, isolated=True, prewarm=rp.get("prewarm"), pristine=pristine)
        gi, gate, args = case["final"]
        print("gate sets alive:", [case["sets"][i] for i in case["alive"]])
        for g, n, a in case["history"]:
            print("  history:", case["sets"][g], n, _show(a))
        if rp.get("prewarm"):
            print("  earlier integrator requests of that gate set:", rp["prewarm"])
        print("final:", case["sets"][gi], gate, _show(args), "seed", case["seed"])
        print("oracle:", res["fail"] or "holds (warm, repeated and fresh samples are bit-identical)")
        return 1 if res["fail"] else 0
    if level == "simulator":
        res = run_sim_case(rp["case"], None, pool, pristine)
        print("case:", {k: rp["case"][k] for k in ("cls", "set", "n", "shots", "seed", "ops")})
        print("first :", res["r1"]); print("second:", res["r2"]); print("fresh :", res["r3"])
        print("oracle:", res["fail"] or "holds")
        return 1 if res["fail"] else 0
    print("replay names a broken obligation, no input to re-run:", json.dumps(rp)[:600])
    return 1
