"""C16 — fix_counts completes and bit-reverses any outcome table.

Lean: QG.Props.C16 (fix_counts_spec, fix_counts_keys, fix_counts_twice) about QG.Model.FixCounts.
Tie: hand-written model + exact differential correspondence with the real `fix_counts`.
Oracle (independent of the model): the property statement evaluated on the returned dict.
"""
import itertools, json
from qgv import core


def canon_val(v):
    try:
        f = float(v)
        if f == v:
            return repr(f)
    except Exception:
        pass
    return repr(v)


def run_impl(n, items):
    from quantum_gates._utility.simulations_utility import fix_counts
    d = dict(items)
    before = dict(d)
    try:
        out = fix_counts(d, n)
    except Exception as e:                      # noqa
        return {"err": type(e).__name__}, None, d == before
    return {"ok": [[k, canon_val(v)] for k, v in out.items()]}, out, d == before


def oracle(n, items, out):
    """the statement of C16, evaluated directly; returns None or a description of the failure"""
    if out is None:
        return "raised on a non-empty table of n-bit keys"
    keys = list(out.keys())
    want = [format(k, "b").zfill(n) for k in range(2 ** n)]
    if keys != want:
        return f"keys are not the 2^n strings in ascending order: {keys[:6]}..."
    d = dict(items)
    for k in want:
        exp = d.get(k[::-1], 0)
        if not (out[k] == exp):
            return f"out[{k}]={out[k]!r}, expected {exp!r} (input value under the reversed key)"
    return None


def oracle_twice(n, items, out):
    from quantum_gates._utility.simulations_utility import fix_counts
    try:
        out2 = fix_counts(dict(out), n)
    except Exception as e:                      # noqa
        return f"second application raised {type(e).__name__}"
    d = dict(items)
    want = {format(k, "b").zfill(n): d.get(format(k, "b").zfill(n), 0) for k in range(2 ** n)}
    if list(out2.items()) != list(want.items()):
        return "second application does not return the completed table in the original orientation"
    return None


def simulator_clause_case(rng, cls, n, given=None):
    """last clause of C16 on the real simulator (noise-free gate set): measurements written into classical bits 0, 1, ..., m-1
    in this order, each fed by an arbitrary (not necessarily ascending) qubit; fix_counts(result) must be Qiskit's
    little-endian table (classical bit 0 = rightmost character), computed here from Qiskit's own Statevector"""
    import numpy as np
    from qgv import wiring as W
    from qiskit import QuantumCircuit
    from qiskit.quantum_info import Statevector
    from quantum_gates._utility.simulations_utility import fix_counts
    from quantum_gates._gates.gates import NoiseFreeGates
    if given is None:
        ops, labels = W.random_ops(rng, cls, n, rng.randint(3, 10))
        ops = [op for op in ops if op[0] not in ("measure", "delay")]
        m = rng.randint(min(3, n), n)                            # three or more measured qubits whenever the register allows it
        fed_by = rng.sample(labels, m)                           # classical bit k is fed by qubit fed_by[k]: any permutation
        ops += [["measure", q, k] for k, q in enumerate(fed_by)]
    else:
        ops = given
        labels = sorted({q for op in ops for q in (op[1:3] if op[0] in ("cx", "ecr") else [op[1]]) if op[0] != "barrier"})
        fed_by = [op[1] for op in ops if op[0] == "measure"]
        m = len(fed_by)
    dp = W.tagged_params(max(labels))
    dp.update(T1=np.ones(max(labels) + 1), T2=np.ones(max(labels) + 1), dt=[1e-9])
    psi0 = np.eye(1, 2 ** n)[0].astype(complex)
    r = W.observe_run(cls, ops, n, gates=NoiseFreeGates(), psi0=psi0, device_param=dp, want_result=True)
    if "err" in r:
        return ops, f"valid circuit raised {r['err']}: {r.get('msg', '')}"
    fixed = fix_counts(dict(r["result"]), m)
    pos = {q: i for i, q in enumerate(sorted(labels))}
    qc = QuantumCircuit(n)
    for op in ops:
        k = op[0]
        if k == "rz":
            qc.rz(op[2] * W.UNIT, pos[op[1]])
        elif k in ("sx", "x"):
            getattr(qc, k)(pos[op[1]])
        elif k in ("cx", "ecr"):
            getattr(qc, k)(pos[op[1]], pos[op[2]])
    probs = Statevector.from_instruction(qc).probabilities()      # index bit i = qubit i (little endian)
    want = {format(k, "b").zfill(m): 0.0 for k in range(2 ** m)}
    for b, pr in enumerate(probs):
        key = "".join(str(b >> pos[fed_by[k]] & 1) for k in reversed(range(m)))
        want[key] += float(pr)
    if list(fixed) != list(want):
        return ops, f"keys of fix_counts(result) are {list(fixed)[:4]}..., expected {list(want)[:4]}..."
    dev = max(abs(fixed[k] - want[k]) for k in want)
    if not dev <= 1e-9:
        k = max(want, key=lambda k: abs(fixed[k] - want[k]))
        return ops, (f"fix_counts(simulator result) gives {fixed[k]:.6f} for key {k!r}, Qiskit's little-endian table has {want[k]:.6f} "
                     f"(classical bits 0..{m - 1} fed by qubits {fed_by})")
    return ops, None


def gen_cases(ctx):
    rng = ctx.rng
    cases = []
    # corpus of past / designed cases first
    cases += [(1, [("1", 3)]), (1, [("0", 2)]), (2, [("01", 5)]), (3, [("110", 7), ("001", 5)]),
              (2, [("11", 1.5), ("00", -2)]), (3, [("000", 1), ("111", 2)])]
    # "all values": exact rationals / decimals, integers beyond 2^53 and 2^63, an integer next to a float - unchanged, same type
    from fractions import Fraction
    from decimal import Decimal
    cases += [(2, [("01", Fraction(1, 3)), ("10", Fraction(2, 3))]), (2, [("11", Decimal("0.1")), ("00", Decimal("0.9"))]),
              (2, [("10", 2 ** 53 + 1), ("01", 0.5)]), (1, [("1", 2 ** 63 + 5)]), (3, [("101", 10 ** 30), ("010", 7)]),
              (2, [("00", True), ("11", 3)])]
    # exhaustive small scope: every non-empty key subset, insertion order shuffled
    nmax = 4 if ctx.thorough else 3
    for n in range(1, nmax + 1):
        keys = [format(k, "b").zfill(n) for k in range(2 ** n)]
        for mask in range(1, 2 ** (2 ** n)):
            sub = [keys[i] for i in range(2 ** n) if mask >> i & 1]
            rng.shuffle(sub)
            cases.append((n, [(k, i + 1) for i, k in enumerate(sub)]))
    ctx.notes["exhaustive_scope"] = f"all non-empty key subsets for n <= {nmax}"
    # subsets of size <= 3 for n = 4, 5 (quick: n = 4 only pairs)
    for n in ([5] if ctx.thorough else [4, 5]):
        keys = [format(k, "b").zfill(n) for k in range(2 ** n)]
        for r in (1, 2, 3) if ctx.thorough else (1, 2):
            for sub in itertools.combinations(keys, r):
                sub = list(sub); rng.shuffle(sub)
                cases.append((n, [(k, rng.choice([1, 2.5, -3, 10 ** 6, 0])) for k in sub]))
    # random larger tables
    for _ in range(3000 if ctx.thorough else 400):
        n = rng.randint(1, 12 if ctx.thorough else 10)
        size = min(2 ** n, rng.choice([1, 2, 3, 5, 8, 2 ** n, max(1, 2 ** n - 1), rng.randint(1, 2 ** n)]))
        sub = rng.sample(range(2 ** n), size)
        cases.append((n, [(format(k, "b").zfill(n), rng.choice([rng.randint(0, 99), rng.random()])) for k in sub]))
    # long registers, sparse tables whose mirrored keys differ only in their LAST characters (read as decimal numbers they agree in
    # the first 16 digits): the all-ones outcome and its neighbours, inserted in descending / shuffled order
    for n in ([18, 19, 20] if ctx.thorough else [18]):
        for rep in range(2 if ctx.thorough else 1):
            ones = "1" * n
            near = [ones[:-1] + "0", ones[:-2] + "01", ones[:-2] + "00", ones[:-3] + "011", "1" + "0" * (n - 1), "0" * (n - 1) + "1"]
            mirrored = [ones] + rng.sample(near, rng.randint(2, 5)) + [format(rng.randrange(2 ** n), "b").zfill(n) for _ in range(3)]
            mirrored = sorted(set(mirrored), reverse=(rep == 0))
            if rep:
                rng.shuffle(mirrored)
            cases.append((n, [(k[::-1], i + 1) for i, k in enumerate(mirrored)]))
    return cases


def main(ctx):
    lean = ctx.lean("QG.Props.C16")
    cases = gen_cases(ctx)
    # malformed stream (outside the property; exercises the error branch of the correspondence)
    malformed = [(2, []), (3, [])]
    reqs, impl_out, oracle_fail = [], [], []
    seen, nontrivial = set(), set()
    for n, items in cases + malformed:
        r, out, untouched = run_impl(n, items)
        impl_out.append(r)
        reqs.append({"op": "fix_counts", "n": n, "items": [[k, canon_val(v)] for k, v in items]})
        ctx.count()
        key = json.dumps([n, sorted(items)], default=str)
        if key not in seen:
            seen.add(key)
            if 0 < len(items) < 2 ** n:
                nontrivial.add(key)
        if items:
            bad = oracle(n, items, out) or (None if untouched else "the input table was modified")
            if bad is None:
                bad = oracle_twice(n, items, out)
            if bad:
                oracle_fail.append((n, items, bad))
    sim_fail, sim_n = [], 0
    for cls in ("binary", "efficient", "grid"):
        for _ in range(12 if ctx.thorough else 5):
            n = ctx.rng.randint(3, 4)
            ops, bad = simulator_clause_case(ctx.rng, cls, n); ctx.count(); sim_n += 1
            if bad:
                sim_fail.append((cls, n, ops, bad))
    ctx.coverage["simulator_clause_cases"] = sim_n
    ctx.sample({"n": cases[3][0], "items": cases[3][1], "impl": impl_out[3]})
    ctx.sample({"n": cases[-1][0], "items": cases[-1][1][:8], "impl_keys": len((impl_out[len(cases) - 1].get("ok") or []))})
    model_out = core.Driver(ctx.pid).batch(reqs)
    mismatches = [(reqs[i], impl_out[i], model_out[i]) for i in range(len(reqs)) if impl_out[i] != model_out[i]]
    cov = ctx.coverage
    cov["distinct_nontrivial"] = len(nontrivial)
    cov["rule"] = ("tables = exhaustive non-empty key subsets for small n (insertion order shuffled), all 1-2(3)-key "
                   "tables for n=4,5, seeded random tables up to n=10 (12 thorough); non-trivial = distinct table "
                   "with at least one of the 2^n keys missing, so that padding / gap filling acts")
    cov["traces_validated_against_impl"] = len(reqs)
    cov["correspondence_mismatches"] = len(mismatches)
    cov["size_histogram"] = {str(n): sum(1 for c in cases if c[0] == n) for n in sorted({c[0] for c in cases})}
    cov["trusted_base"] += ["hand-written model QG/Model/FixCounts.lean, tied by exact differential correspondence "
                            "with fix_counts on every case of this run (dict modelled as its item list)",
                            "Python's str ordering / int(s,2) / format(k,'b').zfill(n) as modelled by lexLe/toNat/keyOf"]
    ctx.assumptions += ["keys are n-character strings over {0,1}, n >= 1, table non-empty (the property's domain)",
                        "the clause about simulator results is checked end to end (noise-free gate set, Qiskit's own Statevector as the "
                        "reference, classical bits 0..m-1 fed by qubits in arbitrary order) on the circuits of this run; the frame "
                        "correctness it rests on is C03, the measurement map C14"]
    # ---- decide
    for n, items, bad in oracle_fail[:5]:
        ctx.violation({"kind": "oracle", "n": n, "keys": sorted(k for k, _ in items)},
                      {"n": n, "items": items, "failure": bad}, f"fix_counts({dict(items)!r}, {n}): {bad}")
    for cls, n, ops, bad in sim_fail[:2]:
        ctx.violation({"kind": "simulator-clause", "cls": cls}, {"cls": cls, "nqubit": n, "ops": ops, "failure": bad},
                      f"{cls} circuit {json.dumps(ops)}: {bad}")
    if not oracle_fail and not sim_fail:
        if mismatches:
            r, a, b = mismatches[0]
            ctx.violation({"kind": "correspondence"}, {"request": r, "impl": a, "model": b,
                          "broken": "correspondence fix_counts vs QG.Model.FixCounts.fixCounts"},
                          "model and implementation disagree although the property's oracle passes on every explored table",
                          no_failing_input=True)
        if not lean.ok:
            ctx.violation({"kind": "proof"}, {"broken": lean.failed}, "Lean obligations of C16 do not check; "
                          "oracle passes on every explored table", no_failing_input=True)


def replay(ctx, path):
    rp = json.load(open(path))["replay"]
    if "ops" in rp:
        ops, bad = simulator_clause_case(None, rp["cls"], rp["nqubit"], given=rp["ops"])
        print(rp["cls"], ops); print("oracle:", bad or "holds")
        return 1 if bad else 0
    if "items" not in rp:
        print("replay names a broken obligation, no input to re-run:", json.dumps(rp)[:400]); return 1
    n, items = rp["n"], [tuple(x) for x in rp["items"]]
    r, out, _ = run_impl(n, items)
    bad = oracle(n, items, out)
    print("input:", n, items); print("implementation:", r); print("oracle:", bad or "holds")
    return 1 if bad else 0
