"""C18 — bundled benchmark circuits have their documented ideal outcome.

Lean: QG.Props.C18 (ghz_state, ghz_probabilities, hinvqft_zero, hinvqft_probability, qft_is_dft, qft_matrix_entry,
measure_identity_map, ...) about the generators of QG.Model.Algorithms under the ket semantics of QG.Spec.Ket.
Tie: hand-written model + exact differential correspondence: the real generators' `circuit.data` (operation names, qubit
indices, clbits, the cp angle as an exact signed power-of-two fraction of pi) against the model's instruction list printed by
the driver `drv_c18`, for every n in 1..14 (1..48 thorough) plus a few larger n drawn from ctx.rng.  No simulation is needed
for the tie, so it reaches far beyond what a statevector can.
Oracle (independent of the model): the property statement evaluated on the real circuits with qiskit.quantum_info
(Statevector / Operator of the real circuit with barrier and measurements stripped), the measurement map read off
`circuit.data`, and an end-to-end read-out of prepared basis states through the real measurement tail (StatevectorSampler).
"""
import json, math, os
for _v in ("OMP_NUM_THREADS", "OPENBLAS_NUM_THREADS", "MKL_NUM_THREADS", "RAYON_NUM_THREADS"):
    os.environ.setdefault(_v, "2")           # several checks share the machine; the oracles are small
import numpy as np
from qgv import core

GEN_NAMES = ("hinvqft", "ghz", "qft")
PARAM_FREE = ("h", "swap", "cx", "barrier", "measure")
TOL_ANGLE = 1e-12          # relative deviation allowed when recovering k from theta/pi = +-2^-k
TOL_SIM = 1e-9             # absolute tolerance of the simulation oracles


def generators():
    from quantum_gates._utility import quantum_algorithms as qa
    return {"hinvqft": qa.hadamard_reverse_qft_circ, "ghz": qa.ghz_circ, "qft": qa.qft_circ}


# ---------------------------------------------------------------------------------------------- canonical form of circuit.data
def canon_instr(circ, ins, stats, depth=0):
    """list of canonical records [name, qubits, clbits, param] for one instruction (a list because an unknown wrapper
    instruction is expanded through its definition)"""
    op = ins.operation
    qs = [circ.find_bit(q).index for q in ins.qubits]
    cs = [circ.find_bit(c).index for c in ins.clbits]
    name = op.name
    if name in PARAM_FREE and len(op.params) == 0:
        return [[name, qs, cs, None]]
    if name == "cp" and len(op.params) == 1:
        try:
            theta = float(op.params[0])
        except Exception:                         # noqa  (unbound parameter)
            return [[name, qs, cs, ["non-numeric", repr(op.params[0])]]]
        ratio = theta / math.pi
        if ratio == 0 or not math.isfinite(ratio):
            return [[name, qs, cs, ["not a power of two", repr(theta)]]]
        k = round(-math.log2(abs(ratio)))
        dev = abs(abs(ratio) * 2.0 ** k - 1.0)
        stats["max_angle_dev"] = max(stats["max_angle_dev"], dev)
        if k < 0 or dev > TOL_ANGLE:
            return [[name, qs, cs, ["not a power of two", repr(theta)]]]
        stats["max_k"] = max(stats["max_k"], k)
        return [[name, qs, cs, [-1 if ratio < 0 else 1, k]]]
    # unknown instruction (e.g. an `inverse()` wrapper in another Qiskit version): expand its definition once or twice
    d = getattr(op, "definition", None)
    if d is not None and depth < 3 and len(d.data) > 0:
        stats["expanded_wrappers"] += 1
        out = []
        for sub in d.data:
            rec = canon_instr(d, sub, stats, depth + 1)       # indices in the definition's own bit numbering
            for r in rec:                                      # ... mapped to the outer circuit's indices
                r[1] = [qs[i] for i in r[1]]
                r[2] = [cs[i] for i in r[2]]
            out += rec
        return out
    return [[name, qs, cs, ["unknown", [repr(p) for p in op.params]]]]


def canon_circuit(circ, stats):
    out = []
    for ins in circ.data:
        out += canon_instr(circ, ins, stats)
    return out


def type_of_count(gen, n):
    import numpy as np
    return [int, np.int64, int, np.int32, np.uint32][(n + len(gen)) % 5].__name__


def run_impl(gen, n, stats):
    """({'ok': canonical list} | {'err': name}, circuit or None)"""
    try:
        # the qubit count arrives as a Python int or as a NumPy integer scalar (a count taken from np.arange / an array shape / a sweep)
        import numpy as np
        cast = [int, np.int64, int, np.int32, np.uint32][(n + len(gen)) % 5] if isinstance(n, int) and n >= 1 else (lambda v: v)
        c = generators()[gen](cast(n))
    except Exception as e:                            # noqa
        return {"err": type(e).__name__}, None
    return {"ok": canon_circuit(c, stats)}, c


# ---------------------------------------------------------------------------------------------- oracle (real code only)
def unitary_part(c):
    from qiskit import QuantumCircuit
    qc = QuantumCircuit(c.num_qubits)
    qc.global_phase = c.global_phase
    for ins in c.data:
        if ins.operation.name in ("measure", "barrier"):
            continue
        qc.append(ins.operation, [c.find_bit(q).index for q in ins.qubits])
    return qc


def oracle_structure(gen, n, c):
    """registers and measurement map, read off the real circuit: every qubit q measured into clbit q, once, at the end"""
    if c is None:
        return "the generator raised for n >= 1"
    if c.num_qubits != n or c.num_clbits != n:
        return f"registers are {c.num_qubits} qubits / {c.num_clbits} clbits, expected {n}/{n}"
    pairs, seen_measure = [], False
    for ins in c.data:
        if ins.operation.name == "measure":
            seen_measure = True
            pairs.append((c.find_bit(ins.qubits[0]).index, c.find_bit(ins.clbits[0]).index))
        elif seen_measure and ins.operation.name != "barrier":
            return f"operation {ins.operation.name} after a measurement (measurements are not terminal)"
    if sorted(pairs) != [(q, q) for q in range(n)]:
        bad = [p for p in pairs if p[0] != p[1]]
        return f"measurement map is not q -> q on all {n} qubits exactly once: {(bad or pairs)[:6]}"
    return None


def bitrev_table(n):
    y = np.arange(2 ** n, dtype=np.int64)
    rev = np.zeros_like(y)
    for q in range(n):
        rev |= ((y >> q) & 1) << (n - 1 - q)
    return rev


def dft_column(n, x, rev):
    """column x of P.F in Qiskit's little-endian indexing: amplitude of |y> is w^(x * rev(y)) / sqrt(N)"""
    N = 2 ** n
    return np.exp(2j * np.pi * ((x * rev) % N) / N) / math.sqrt(N)


def oracle_state(gen, n, c):
    """ideal outcome from |0...0>: hinvqft -> all-zeros w.p. 1; ghz -> 1/2, 1/2; qft -> uniform amplitudes 2^(-n/2)"""
    from qiskit.quantum_info import Statevector
    sv = Statevector.from_int(0, 2 ** n).evolve(unitary_part(c))
    p = sv.probabilities()
    if gen == "hinvqft":
        if abs(p[0] - 1.0) > TOL_SIM:
            return f"P(all zeros) = {float(p[0])!r}, expected 1"
    elif gen == "ghz":
        rest = float(p.sum() - p[0] - p[-1]) if n > 1 else float(p.sum() - p[0] - p[1])
        if abs(p[0] - 0.5) > TOL_SIM or abs(p[-1] - 0.5) > TOL_SIM or abs(rest) > TOL_SIM:
            return f"P(all zeros) = {float(p[0])!r}, P(all ones) = {float(p[-1])!r}, rest = {rest!r}; expected 1/2, 1/2, 0"
    else:
        d = float(np.max(np.abs(sv.data - 1.0 / math.sqrt(2 ** n))))
        if d > TOL_SIM:
            return f"QFT|0> is not the uniform superposition (max deviation {d:.3e})"
    return None


def oracle_qft_operator(n, c):
    from qiskit.quantum_info import Operator
    U = Operator(unitary_part(c)).data
    N = 2 ** n
    rev = bitrev_table(n)
    x = np.arange(N, dtype=np.int64)
    PF = np.exp(2j * np.pi * ((rev[:, None] * x[None, :]) % N) / N) / math.sqrt(N)      # [y, x] = w^(x rev y)/sqrt N
    d = float(np.max(np.abs(U - PF)))
    if d > TOL_SIM:
        F = np.exp(2j * np.pi * ((x[:, None] * x[None, :]) % N) / N) / math.sqrt(N)
        hint = " (it equals the plain DFT F: a final reversal is present)" if np.max(np.abs(U - F)) <= TOL_SIM and n > 1 else ""
        return f"Operator(qft_circ({n})) differs from P.F by {d:.3e}{hint}"
    return None


def oracle_qft_column(n, c, x):
    from qiskit.quantum_info import Statevector
    sv = Statevector.from_int(x, 2 ** n).evolve(unitary_part(c))
    d = float(np.max(np.abs(sv.data - dft_column(n, x, bitrev_table(n)))))
    if d > TOL_SIM:
        return f"qft_circ({n}) on |x={x}> differs from column x of P.F by {d:.3e}"
    return None


def oracle_readout(gen, n, c, x):
    """end to end: prepare the basis state |x>, append the REAL circuit's barrier + measurement tail, sample; the classical
    register must read x (bit q of x in classical bit q)"""
    from qiskit import QuantumCircuit
    from qiskit.primitives import StatevectorSampler
    qc = QuantumCircuit(n, n)
    for q in range(n):
        if x >> q & 1:
            qc.x(q)
    tail = False
    for ins in c.data:
        if ins.operation.name in ("barrier", "measure"):
            tail = True
        if tail and ins.operation.name in ("barrier", "measure"):
            qc.append(ins.operation, [c.find_bit(q).index for q in ins.qubits], [c.find_bit(b).index for b in ins.clbits])
    counts = StatevectorSampler(seed=1).run([qc], shots=2).result()[0].join_data().get_counts()
    want = format(x, "b").zfill(n)
    if list(counts.keys()) != [want]:
        return f"basis state x={want} is read out as {sorted(counts)} through the circuit's measurement tail"
    return None


def aux_hinvqft_structure(n, c):
    """auxiliary diagnostic (the docstring, not the property): the circuit is `H on all qubits, then the exact inverse DFT`,
    Operator = F^dagger . H^(x)n.  Recorded in the evidence and attached to a correspondence replay; never a violation."""
    from qiskit.quantum_info import Operator
    U = Operator(unitary_part(c)).data
    N = 2 ** n
    x = np.arange(N, dtype=np.int64)
    F = np.exp(2j * np.pi * ((x[:, None] * x[None, :]) % N) / N) / math.sqrt(N)
    H1 = np.array([[1.0, 1.0], [1.0, -1.0]]) / math.sqrt(2)
    H = np.array([[1.0]])
    for _ in range(n):
        H = np.kron(H, H1)
    return float(np.max(np.abs(U - F.conj().T @ H)))


def run_oracles(gen, n, c, plan, xs=()):
    """plan: set of oracle names to run for this case; returns first failure text or None"""
    bad = oracle_structure(gen, n, c)
    if bad:
        return "structure", bad, None
    if "state" in plan:
        bad = oracle_state(gen, n, c)
        if bad:
            return "state", bad, None
    if gen == "qft" and "operator" in plan:
        bad = oracle_qft_operator(n, c)
        if bad:
            return "operator", bad, None
    for x in xs:
        if gen == "qft" and "column" in plan:
            bad = oracle_qft_column(n, c, x)
            if bad:
                return "column", bad, x
        if "readout" in plan:
            bad = oracle_readout(gen, n, c, x)
            if bad:
                return "readout", bad, x
    return None


# ---------------------------------------------------------------------------------------------- main
def main(ctx):
    lean = ctx.lean("QG.Props.C18")
    rng = ctx.rng
    n_tie = 48 if ctx.thorough else 14
    n_sv = 20 if ctx.thorough else 16            # Statevector from |0...0>
    n_op = 11 if ctx.thorough else 9             # full Operator of the QFT
    n_col = 20 if ctx.thorough else 16           # QFT columns on random basis states
    n_ro = 12 if ctx.thorough else 8             # read-out of prepared basis states
    extra = sorted(rng.sample(range(n_tie + 1, 129 if ctx.thorough else 65), 6 if ctx.thorough else 4))
    sizes = list(range(1, n_tie + 1)) + extra    # corpus (edge n = 1, 2, 3 first) then everything up to the bound
    stats = {"max_angle_dev": 0.0, "max_k": 0, "expanded_wrappers": 0}
    reqs, impl_out, meta = [], [], []
    oracle_fail = []
    op_hist, nontrivial, n_instr = {}, set(), 0
    sim_cases = {"state": 0, "operator": 0, "column": 0, "readout": 0}
    aux = {}
    for n in sizes:
        for gen in GEN_NAMES:
            r, c = run_impl(gen, n, stats)
            impl_out.append(r); meta.append((gen, n))
            reqs.append({"op": "circuit", "gen": gen, "n": n})
            ctx.count()
            if "ok" in r:
                n_instr += len(r["ok"])
                for rec in r["ok"]:
                    op_hist[rec[0]] = op_hist.get(rec[0], 0) + 1
                if any(len(rec[1]) == 2 and rec[0] != "barrier" for rec in r["ok"]):
                    nontrivial.add((gen, n))
            plan, xs = set(), []
            if n <= n_sv:
                plan.add("state"); sim_cases["state"] += 1
            if gen == "qft" and n <= n_op:
                plan.add("operator"); sim_cases["operator"] += 1
            if n <= n_col and gen == "qft" and n > n_op:
                plan.add("column")
            if n <= n_ro:
                plan.add("readout")
            if plan & {"column", "readout"}:
                k = 6 if ctx.thorough else 3
                xs = sorted({rng.randrange(2 ** n) for _ in range(k)} | {2 ** n - 1, 1})
                xs = [x for x in xs if x < 2 ** n]
                sim_cases["column"] += len(xs) if "column" in plan else 0
                sim_cases["readout"] += len(xs) if "readout" in plan else 0
                ctx.count(len(xs))
            try:
                res = run_oracles(gen, n, c, plan, xs)
            except Exception as e:                    # noqa  the real circuit cannot even be simulated
                res = ("simulate", f"ideal simulation of the returned circuit raised {type(e).__name__}: {e}", None)
            if not res and "ok" in r:
                # at every size (also beyond what can be simulated): a controlled-phase angle that is not +-pi/2^k, k >= 1, for finite k
                # (inf, nan, 0, an unbound parameter) cannot be part of the documented circuit
                odd = next((rec for rec in r["ok"] if rec[0] == "cp" and rec[3] and isinstance(rec[3][0], str)), None)
                if odd is not None:
                    res = ("angle", f"{gen}(n={n}, count given as {type_of_count(gen, n)}): controlled-phase gate on qubits {odd[1]} has the angle "
                                    f"{odd[3][1]} ({odd[3][0]}); the documented circuit has pi/2^k there", None)
            if res:
                oracle_fail.append((gen, n, res))
            if gen == "hinvqft" and c is not None and n <= n_op - 1 and not res:
                try:
                    aux[n] = aux_hinvqft_structure(n, c)
                except Exception as e:                # noqa
                    aux[n] = f"raised {type(e).__name__}"
    # malformed stream (outside the property: n = 0): the empty register
    n_regular = len(reqs)
    for gen in GEN_NAMES:
        r, _ = run_impl(gen, 0, stats)
        impl_out.append(r); meta.append((gen, 0)); reqs.append({"op": "circuit", "gen": gen, "n": 0}); ctx.count()
    other = {}
    for bad_n in (-1, 2.0, "2"):
        for gen in GEN_NAMES:
            r, _ = run_impl(gen, bad_n, stats)
            other[f"{gen}({bad_n!r})"] = r.get("err", "returns a circuit")
    # model side
    model_out = core.Driver(ctx.pid).batch(reqs)
    mismatches = []
    for i in range(len(reqs)):
        if impl_out[i] != model_out[i]:
            a, b = impl_out[i].get("ok"), model_out[i].get("ok")
            first = None
            if a is not None and b is not None:
                first = next((j for j in range(min(len(a), len(b))) if a[j] != b[j]), min(len(a), len(b)))
                detail = {"index": first, "impl": a[first] if first < len(a) else None, "model": b[first] if first < len(b) else None,
                          "len_impl": len(a), "len_model": len(b)}
            else:
                detail = {"impl": impl_out[i] if a is None else "circuit", "model": model_out[i] if b is None else "circuit"}
            mismatches.append((meta[i], detail))
    # evidence
    cov = ctx.coverage
    cov["distinct_nontrivial"] = len(nontrivial)
    cov["rule"] = (f"one case per (generator, n): all n = 1..{n_tie} plus {len(extra)} seeded larger n {extra}; non-trivial = the real "
                   "circuit contains at least one two-qubit gate (n >= 2), measured on circuit.data")
    cov["traces_validated_against_impl"] = len(reqs)
    cov["instructions_compared"] = n_instr
    cov["correspondence_mismatches"] = len(mismatches)
    cov["operation_histogram"] = op_hist
    cov["sizes"] = {"tie_n_max": max(sizes), "statevector_n_max": n_sv, "qft_operator_n_max": n_op, "qft_column_n_max": n_col,
                    "readout_n_max": n_ro}
    cov["oracle_cases"] = sim_cases
    aux_bad = sorted(n for n, d in aux.items() if not (isinstance(d, float) and d <= TOL_SIM))
    cov["auxiliary_docstring_structure"] = {
        "claim": "Operator(hadamard_reverse_qft_circ(n)) = F^dagger . H^(x)n (H layer, then the exact inverse DFT); diagnostic only",
        "n": sorted(aux), "max_deviation": max([d for d in aux.values() if isinstance(d, float)] or [None]), "fails_at_n": aux_bad}
    cov["cp_angle_recovery"] = {"max_relative_deviation_from_power_of_two": stats["max_angle_dev"], "tolerance": TOL_ANGLE,
                                "max_k": stats["max_k"]}
    cov["canonicalisation"] = ("circuit.data as is: name, find_bit indices of qubits and clbits, cp parameter theta -> (sign, k) with "
                               "theta/pi = sign*2^-k; instructions with an unknown name would be expanded through .definition "
                               f"(happened {stats['expanded_wrappers']} times in this run: in the installed Qiskit inverse() yields cp with "
                               "the negated angle directly)")
    cov["malformed_stream"] = {"n=0": {f"{meta[i][0]}": ("err " + impl_out[i]["err"]) if "err" in impl_out[i] else impl_out[i]["ok"]
                                       for i in range(n_regular, len(reqs))},
                               "not_modelled (recorded only)": other}
    k = meta.index(("hinvqft", 3)) if ("hinvqft", 3) in meta else 0
    ctx.sample({"gen": "hinvqft", "n": 3, "impl_circuit_data": impl_out[k].get("ok")})
    k = meta.index(("qft", 4)) if ("qft", 4) in meta else 0
    ctx.sample({"gen": "qft", "n": 4, "impl_circuit_data": impl_out[k].get("ok")})
    ctx.sample({"gen": "ghz", "n": extra[-1], "instructions": len(impl_out[meta.index(("ghz", extra[-1]))].get("ok") or [])})
    cov["trusted_base"] += [
        "hand-written model QG/Model/Algorithms.lean, tied by exact comparison with the real generators' circuit.data on every "
        f"case of this run (n <= {max(sizes)}); QuantumCircuit modelled as its instruction list",
        "QG/Spec/Ket.lean: the textbook action of h, cp, swap, cx on basis kets (Qiskit's standard gates have their textbook "
        "matrices); barrier and terminal measurement act as the identity on the pre-measurement state, Born rule for prob",
        "qiskit.quantum_info Statevector/Operator and StatevectorSampler as the independent oracle",
    ]
    ctx.assumptions += [
        "n >= 1 (n = 0 is outside the property: ghz_circ raises CircuitError, the other two return a lone empty barrier; modelled "
        "and compared as the malformed stream)",
        "np.pi/2**m is the exact double pi*2^-m (true for m <= 1023; for n >= 1025 the generators raise OverflowError, not modelled)",
        "exact complex arithmetic in the theorems; simulation oracles use tolerance 1e-9",
        "the property speaks about the ideal circuit, not about the noisy simulator or transpilation (C03/C08)",
    ]
    # ---- decide
    first = {}
    for gen, n, res in oracle_fail:                      # sizes ascend, so the first hit per (generator, check) is the smallest n
        first.setdefault((gen, res[0]), (gen, n, res))
    cov["oracle_failures"] = {"cases": len(oracle_fail), "sizes": sorted({n for _, n, _ in oracle_fail})[:40]}
    for gen, n, (kind, bad, x) in list(first.values())[:6]:
        ctx.violation({"kind": "oracle", "generator": gen, "check": kind, "n": n},
                      {"generator": gen, "n": n, "x": x, "check": kind, "failure": bad},
                      f"{gen}_circ(n={n}): {bad}")
    if not oracle_fail:
        if mismatches:
            (gen, n), detail = mismatches[0]
            ctx.violation({"kind": "correspondence"},
                          {"generator": gen, "n": n, "first_difference": detail, "mismatching_cases": [m[0] for m in mismatches][:20],
                           "auxiliary_docstring_structure_fails_at_n": aux_bad,
                           "broken": "correspondence circuit.data vs QG.Model.Algorithms"},
                          f"model and {gen} generator disagree at n={n} ({json.dumps(detail)[:200]}) although every oracle passes",
                          no_failing_input=True)
        if not lean.ok:
            ctx.violation({"kind": "proof"}, {"broken": lean.failed},
                          "Lean obligations of C18 do not check; every oracle passes on the explored sizes", no_failing_input=True)


def replay(ctx, path):
    rp = json.load(open(path))["replay"]
    if "generator" not in rp or "check" not in rp:
        print("replay names a broken obligation / correspondence, no failing input to re-run:", json.dumps(rp)[:600]); return 1
    gen, n, x = rp["generator"], rp["n"], rp.get("x")
    stats = {"max_angle_dev": 0.0, "max_k": 0, "expanded_wrappers": 0}
    r, c = run_impl(gen, n, stats)
    if rp["check"] == "angle":
        odd = next((rec for rec in r.get("ok", []) if rec[0] == "cp" and rec[3] and isinstance(rec[3][0], str)), None)
        print("generator:", gen, "n =", n, "count type:", type_of_count(gen, n))
        print("oracle:", f"controlled-phase gate on {odd[1]} has angle {odd[3][1]}" if odd else "holds (every angle is +-pi/2^k)")
        return 1 if odd else 0
    plan = {rp["check"]} if rp["check"] in ("state", "operator", "column", "readout") else {"state"}
    try:
        res = run_oracles(gen, n, c, plan, [x] if x is not None else [])
    except Exception as e:                            # noqa
        res = ("simulate", f"ideal simulation raised {type(e).__name__}: {e}", None)
    print("generator:", gen, "n =", n, "x =", x)
    print("circuit.data:", json.dumps(r)[:800])
    print("oracle:", res[1] if res else "holds")
    return 1 if res else 0
