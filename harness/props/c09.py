"""C09 — shots are independent noise realisations, sequentially and in parallel.

Lean: QG.Props.C09 about QG.Model.Shots (draw sources of the shots, accumulation) on top of C19's pool model.
The model describes the code after the repair of D12 (parallel mode: every shot re-seeds numpy's global generator
with its own SeedSequence child; sequential path untouched) and, as `repaired := false`, the code as found.
Tie: the REAL `MrAndersonSimulator.run` (sequential and parallel, real worker processes, `fork` and `spawn`) with
an instrumented circuit class (qgv/c09_shots.py) that records, per executed shot, the pid, the state of numpy's
global generator at the start and at the end of the shot, the number of Gaussian variates in between and the
Born vector.  From the states the harness reconstructs the draw interval (root state, offset, length) of every
shot; the model is given the OBSERVED schedule (which pid ran which batch, completion order) and the measured
lengths and must predict every interval exactly.  The exact rational `estimate` of the model on the recorded
vectors is compared with the returned table (1e-12).
Oracle (independent of the model): every shot ran exactly once; the number of distinct fingerprints (start
states / first outputs / Born vectors) equals S; the measured draw intervals are pairwise disjoint; the returned
table is the normalised mean of the recorded vectors.
"""
import json
import numpy as np, math
from fractions import Fraction
from qgv import core

CPUS = [1, 3, 4, 5, 7, 8, 9, 10, 12, 13, 14, 15]          # n_processes = 2,2,3,4,5,6,7,8,9,10,11,12
CIRCUITS = {
    "bell":   (2, [["sx", 0], ["rz", 0, 0.3], ["x", 1], ["cx", 0, 1], ["sx", 1]]),
    "x0":     (2, [["x", 0]]),
    "ecr":    (2, [["rz", 1, -1.1], ["sx", 1], ["ecr", 0, 1], ["x", 0]]),
    "one":    (1, [["sx", 0], ["rz", 0, 1.0], ["sx", 0]]),
    "three":  (3, [["sx", 0], ["x", 1], ["sx", 2], ["cx", 0, 1], ["cx", 1, 2]]),
}
TOL = 1e-12
RUNNER = ["-c", "from qgv.c09_shots import cli; cli()"]


def n_of(cpu):
    return max(int(0.8 * cpu), 2)


def mk(mode, S, cpu=None, seed=1, circ="bell", start="fork", family=""):
    nq, ops = CIRCUITS[circ]
    c = {"mode": mode, "S": S, "seed": seed, "circ": circ, "nq": nq, "ops": ops, "start": start, "family": family}
    if mode == "par":
        c["cpu"] = cpu
    return c


# ------------------------------------------------------------------------------------------ running the real code
def run_real(cases):
    """runs the cases in subprocesses (one per start method); returns observations in case order"""
    out = [None] * len(cases)
    for sm in ("fork", "spawn", "forkserver"):
        idx = [i for i, c in enumerate(cases) if c["start"] == sm]
        if not idx:
            continue
        rc, so, se = core.run_repo_python(RUNNER, {"start_method": sm, "cases": [cases[i] for i in idx]}, timeout=3000)
        if rc != 0:
            raise RuntimeError(f"case runner failed rc={rc}: {se[-1500:]}")
        for i, o in zip(idx, json.loads(so)):
            if "internal_error" in o:
                raise RuntimeError(f"case runner: {o['internal_error']} on {cases[i]}")
            out[i] = o
    return out


# ------------------------------------------------------------------------------------------------ reading a trace
def analyse(case, obs):
    """everything the harness derives from the marker files of one run (no model involved)"""
    S = case["S"]
    recs = obs["records"]
    a = {"count": {}, "problems": []}
    for r in recs:
        a["count"][r["shot"]] = a["count"].get(r["shot"], 0) + 1
    a["once"] = (sorted(a["count"]) == list(range(S)) and all(v == 1 for v in a["count"].values())
                 and obs.get("built") == S)
    by = {}
    for r in recs:
        by.setdefault(r["shot"], r)
    a["by_shot"] = by
    shots = sorted(by)
    a["distinct_start"] = len({by[i]["start"] for i in shots})
    a["distinct_peek"] = len({tuple(by[i]["peek"]) for i in shots})
    a["distinct_probs"] = len({tuple(by[i]["probs"]) for i in shots})
    # sampled gate matrices, position by position: every shot samples its own (all applied gates of the noisy gate set are sampled)
    ng = min((len(by[i].get("gates", [])) for i in shots), default=0)
    a["gate_positions"] = ng
    a["min_distinct_gate"] = min((len({by[i]["gates"][k] for i in shots}) for k in range(ng)), default=len(shots))
    classes = {}
    for i in shots:
        classes.setdefault(by[i]["start"], []).append(i)
    a["classes"] = sorted(classes.values())
    # worker ranks
    pids = sorted({by[i]["pid"] for i in shots})
    rank = {p: k for k, p in enumerate(pids)}
    a["workers_used"] = len(pids)
    a["worker_of"] = {i: rank[by[i]["pid"]] for i in shots}
    if any(by[i]["pid"] != by[i]["pid_end"] for i in shots):
        a["problems"].append("a shot began and ended in different processes")
    if any(by[i]["len"] is None for i in shots):
        a["problems"].append("a shot's end state is not reachable from its start state by Gaussian variates")
        return a
    # draw intervals: (root state, offset, length) by chaining end states to start states
    ends = {}
    for i in shots:
        ends.setdefault(by[i]["end"], []).append(i)
    pos = {}
    for i in shots:
        if by[i]["start"] not in ends:
            pos[i] = (by[i]["start"], 0)
    changed = True
    while changed and len(pos) < len(shots):
        changed = False
        for i in shots:
            if i in pos:
                continue
            prev = [j for j in ends.get(by[i]["start"], []) if j in pos]
            if prev:
                cands = {(pos[j][0], pos[j][1] + by[j]["len"]) for j in prev}
                if len(cands) > 1:
                    a["problems"].append(f"shot {i}: its start state is the end state of shots on different positions")
                pos[i] = sorted(cands)[0]
                changed = True
    if len(pos) < len(shots):
        a["problems"].append("cyclic start/end states (a shot that draws nothing?)")
        return a
    labels, nxt = {obs["parent_pre"]: "P"}, 0
    canon = {}
    for i in shots:
        root, off = pos[i]
        if root not in labels:
            labels[root] = f"R{nxt}"
            nxt += 1
        canon[i] = [labels[root], off, by[i]["len"], a["worker_of"][i]]
    a["intervals"] = canon
    # pairwise disjointness of the measured intervals
    overlap = []
    for x in range(len(shots)):
        for y in range(x + 1, len(shots)):
            i, j = shots[x], shots[y]
            (ri, oi, li, _), (rj, oj, lj, _) = canon[i], canon[j]
            if ri == rj and li > 0 and lj > 0 and oi < oj + lj and oj < oi + li:
                overlap.append([i, j])
    a["overlap"] = overlap
    # observed schedule
    if case["mode"] == "par" and obs.get("hdr"):
        cs = obs["hdr"]["chunksize"]
        m = (S + cs - 1) // cs
        worker, last_end = [], []
        for c in range(m):
            members = [i for i in range(c * cs, min((c + 1) * cs, S)) if i in by]
            if not members:
                a["problems"].append(f"batch {c} left no trace")
                return a
            if len({by[i]["pid"] for i in members}) != 1:
                a["problems"].append(f"batch {c} ran on more than one process")
            if [by[i]["t_begin"] for i in members] != sorted(by[i]["t_begin"] for i in members):
                a["problems"].append(f"batch {c} did not run its shots in order")
            worker.append(a["worker_of"][members[0]])
            last_end.append(by[members[-1]]["t_end"])
        a["schedule"] = {"worker": worker, "order": sorted(range(m), key=lambda c: (last_end[c], c))}
        a["completion"] = [i for c in a["schedule"]["order"] for i in range(c * cs, min((c + 1) * cs, S))]
    else:
        if case["mode"] == "seq" and any(by[i]["pid"] != obs["parent_pid"] for i in shots):
            a["problems"].append("a sequential shot ran outside the calling process")
        a["completion"] = sorted(shots, key=lambda i: by[i]["t_end"])
    return a


def hexf(x):
    return float.fromhex(x)


def mean_oracle(case, obs, a):
    """returned table vs normalised mean of the recorded vectors (python floats + exact fractions), or None"""
    S, nq = case["S"], case["nq"]
    d = 2 ** nq
    vecs = [[Fraction(hexf(x)) for x in a["by_shot"][i]["probs"]] for i in range(S)]
    if any(len(v) != d for v in vecs):
        return f"a shot returned a vector of length != {d}"
    mean = [sum(v[e] for v in vecs) / S for e in range(d)]
    tot = sum(mean)
    if tot <= 0:
        return "non-positive total probability"
    want = {format(e, f"0{nq}b"): float(mean[e] / tot) for e in range(d)}
    got = {k: hexf(v) for k, v in obs["result"].items()}
    if sorted(got) != sorted(want):
        return f"keys {sorted(got)} != {sorted(want)}"
    worst = max(abs(got[k] - want[k]) for k in want)
    if not worst <= TOL:
        return f"returned table differs from the normalised mean of the {S} recorded per-shot vectors by {worst:.3e}"
    if not abs(sum(got.values()) - 1.0) <= 1e-12:
        return "returned table does not sum to 1"
    return None


def oracle(case, obs, a):
    """C09 evaluated directly on the observations; None or (failure id, text)"""
    S = case["S"]
    if obs["exception"]:
        return ("raised", f"run raised {obs['exception']}")
    if not a["once"]:
        bad = {i: a["count"].get(i, 0) for i in range(S) if a["count"].get(i, 0) != 1}
        return ("not-exactly-once", f"executions per shot != 1: {dict(list(bad.items())[:8])} (instances built: {obs.get('built')})")
    nd = min(a["distinct_start"], a["distinct_peek"], a["distinct_probs"])
    if nd < S:
        shared = [c for c in a["classes"] if len(c) > 1]
        return ("shots-share-noise-realisation",
                f"{S} shots but only {nd} distinct noise realisations (generator start states {a['distinct_start']}, first outputs "
                f"{a['distinct_peek']}, Born vectors {a['distinct_probs']}); shots with identical realisation: {shared[:6]}"
                f"{' ...' if len(shared) > 6 else ''}; {a['workers_used']} worker process(es)")
    if case.get("gates") is None and a.get("gate_positions") and a["min_distinct_gate"] < S:
        return ("shots-share-noise-realisation",
                f"{S} shots, but at some gate position only {a['min_distinct_gate']} distinct sampled matrices occur: shots replay each "
                f"other's gate noise although their generator states differ")
    sec = obs.get("second")
    if sec:
        if sec["exception"]:
            return ("raised", f"a second run of the same simulator raised {sec['exception']}")
        first = {tuple(r["peek"]) for r in obs["records"]} | {r["start"] for r in obs["records"]}
        rep = sorted(r["shot"] for r in sec["records"] if tuple(r["peek"]) in first or r["start"] in first)
        if rep:
            return ("shots-share-noise-realisation",
                    f"a second run of the same simulator in the same process (no reseeding in between) replays noise realisations of the "
                    f"first run: {len(rep)} of its {len(sec['records'])} shots start from a generator state a shot of the first run started from")
    if a["problems"]:
        return None                       # not a property failure by itself: reported as a broken tie below
    if a.get("overlap"):
        return ("draw-intervals-overlap", f"shots {a['overlap'][:6]} draw overlapping intervals of one generator stream")
    bad = mean_oracle(case, obs, a)
    if bad:
        return ("result-not-normalised-mean", bad)
    return None


# ------------------------------------------------------------------------------------------------------- model side
def model_requests(case, obs, a):
    S = case["S"]
    lens = [a["by_shot"][i]["len"] for i in range(S)]
    reqs = []
    if case["mode"] == "par":
        sched = a["schedule"]
        for rep in (True, False):
            reqs.append({"op": "par", "repaired": rep, "start": case["start"], "cpu": case["cpu"], "S": S, "p0": 0,
                         "lens": lens, **sched})
        reqs.append({"op": "plan", "cpu": case["cpu"], "S": S})
    else:
        for rep in (True, False):
            reqs.append({"op": "seq", "repaired": rep, "S": S, "p0": 0, "lens": lens})
        reqs.append({"op": "plan", "cpu": 1, "S": S})
    vecs = []
    for i in a["completion"]:
        vecs.append([list(Fraction(hexf(x)).as_integer_ratio()) for x in a["by_shot"][i]["probs"]])
    reqs.append({"op": "estimate", "d": 2 ** case["nq"], "S": S, "vectors": vecs})
    return reqs


def canon_model(ans):
    """model entries -> {shot: [stream label, start, len, worker]} with the labelling used for the observations"""
    by = {}
    for shot, w, stream, start, ln in ans["entries"]:
        by.setdefault(shot, []).append((w, tuple(stream), start, ln))
    labels, nxt, out = {("parent",): "P"}, 0, {}
    for shot in sorted(by):
        if len(by[shot]) != 1:
            return {"duplicate": shot}
        w, stream, start, ln = by[shot][0]
        if stream not in labels:
            labels[stream] = f"R{nxt}"
            nxt += 1
        out[shot] = [labels[stream], start, ln, w]
    return out


def compare(case, obs, a, answers):
    """-> (mismatch with the repaired model or None, does the as-found model explain the observation exactly?)"""
    rep, found, plan, est = answers
    for x in answers:
        if "bad" in x:
            return ("driver: " + x["bad"], False)
    impl = {int(k): v for k, v in a["intervals"].items()}
    if case["mode"] == "seq":
        impl = {k: v[:3] + [0] for k, v in impl.items()}
    mis = None

    def diff(ans):
        if case["mode"] == "par" and not ans["valid"]:
            return "the observed schedule is not a valid schedule of the model's batches"
        m = canon_model(ans)
        if m != impl:
            bad = [i for i in sorted(impl) if m.get(i) != impl[i]][:4]
            return {"shots": bad, "impl": {i: impl[i] for i in bad}, "model": {i: m.get(i) for i in bad}}
        if ans["disjoint"] != (not a["overlap"]):
            return f"model says disjoint={ans['disjoint']}, measured intervals overlap={a['overlap'][:4]}"
        # the parent's own generator afterwards
        if case["mode"] == "seq":
            last = a["by_shot"][case["S"] - 1]
            impl_pos = impl[case["S"] - 1][1] + last["len"] if (obs["parent_post"] == last["end"] and impl[case["S"] - 1][0] == "P") else None
            if impl_pos != ans["parent_pos"]:
                return f"parent generator after the run: model position {ans['parent_pos']}, observed {impl_pos} (None: not behind the last shot)"
        elif (obs["parent_post"] != obs["parent_pre"]) != (ans["parent_pos"] != 0):
            return (f"parent generator after the run: model position {ans['parent_pos']}, observed "
                    f"{'advanced' if obs['parent_post'] != obs['parent_pre'] else 'unchanged'}")
        return None
    mis = diff(rep)
    explains = diff(found) is None
    if case["mode"] == "par":
        hdr = obs["hdr"]
        if (plan["n_processes"], plan["chunksize"]) != (hdr.get("n_processes"), hdr.get("chunksize")):
            mis = mis or f"plan: model {plan['n_processes'], plan['chunksize']} vs printed {hdr}"
    # estimate: exact rational model value vs the returned floats
    if "ok" not in est:
        mis = mis or f"model estimate raised {est.get('err')} but the run returned a table"
    else:
        nq = case["nq"]
        got = {k: hexf(v) for k, v in obs["result"].items()}
        for e, (num, den) in enumerate(est["ok"]):
            k = format(e, f"0{nq}b")
            if k not in got or not abs(got[k] - float(Fraction(num, den))) <= TOL:
                mis = mis or f"estimate: entry {k}: returned {got.get(k)} vs model {float(Fraction(num, den))}"
                break
    return (mis, explains)


# ------------------------------------------------------------------------------------------- a transient sampling failure
def fault_once_case(seed):
    """one gate request of one shot raises numpy.linalg.LinAlgError once (a transient failure of the sampler).  The run may raise; if it
    returns, every shot that entered the mean must have been computed from the circuit - i.e. built from exactly the number of gates
    a faultless shot applies (a shot continued or repeated on its partly built circuit object has more).  In-process, sequential.
    Returns (description, failure | None)."""
    import random, contextlib, io
    from quantum_gates._simulation.simulator import MrAndersonSimulator
    from quantum_gates._simulation.circuit import BinaryCircuit
    from quantum_gates._gates.gates import standard_gates
    from qgv import c09_shots as SH
    rng = random.Random(seed)
    name = rng.choice(sorted(CIRCUITS))
    nq, ops = CIRCUITS[name]
    counts = []

    class Counting(BinaryCircuit):
        def __init__(self, *a, **kw):
            BinaryCircuit.__init__(self, *a, **kw)
            self.n_applied = 0

        def apply(self, gate, *a, **kw):
            self.n_applied += 1
            return BinaryCircuit.apply(self, gate, *a, **kw)

        def statevector(self, psi0):
            counts.append(self.n_applied)
            return BinaryCircuit.statevector(self, psi0)

    state = {"n": 0, "k": None, "fired": False}

    class FaultOnce(object):
        def __getattr__(self, attr):
            if attr.startswith("__"):
                raise AttributeError(attr)
            f = getattr(standard_gates, attr)
            if not callable(f):
                return f

            def g(*a, **kw):
                state["n"] += 1
                if state["k"] is not None and state["n"] == state["k"] and not state["fired"]:
                    state["fired"] = True
                    raise np.linalg.LinAlgError("transient sampling failure (injected by the check)")
                return f(*a, **kw)
            return g

    S = rng.randint(2, 4)
    circ = SH.build_circuit(nq, ops)
    psi0 = np.zeros(2 ** nq); psi0[0] = 1.0

    def run():
        sim = MrAndersonSimulator(gates=FaultOnce(), CircuitClass=Counting, parallel=False)
        np.random.seed(seed % (2 ** 31))
        with contextlib.redirect_stdout(io.StringIO()):
            return sim.run(t_qiskit_circ=circ, qubits_layout=list(range(nq)), psi0=psi0, shots=S, device_param=SH.device_param(nq), nqubit=nq)
    run()                                                   # faultless: how many gate requests and applied gates a shot has
    per_shot_requests, clean_counts = state["n"] // S, list(counts)
    del counts[:]
    state.update(n=0, k=rng.randint(2, max(2, S * per_shot_requests - 1)), fired=False)
    desc = (f"MrAndersonSimulator.run, {S} shots, sequential, circuit {name!r}, gate request number {state['k']} of the run raises "
            f"numpy.linalg.LinAlgError once")
    try:
        run()
    except np.linalg.LinAlgError:
        return desc, None                                   # the failure surfaces: nothing wrong entered a mean
    except Exception as e:                                  # noqa
        return desc, None if "LinAlg" in type(e).__name__ else f"raised {type(e).__name__}: {str(e)[:100]}"
    if not state["fired"]:
        return desc, None
    want = clean_counts[0]
    if any(c != want for c in counts) or len(counts) != S:
        return desc, (f"the run returned a result; its {len(counts)} evaluated shots were built from {counts} gates, a shot of this circuit has "
                      f"{want}: a shot was continued or repeated on its partly built circuit and entered the mean")
    return desc, None


# ------------------------------------------------------------------------------------------------------- generators
def gen_cases(ctx):
    rng, cases = ctx.rng, []
    # corpus: the witnesses of D12 first (pinned witness of the Lean theorem, the observed instance), one-shot runs
    cases += [mk("par", 2, 1, family="corpus:par_shares_pinned"), mk("par", 24, 15, family="corpus:par_shares_D12"),
              mk("par", 1, 4, family="corpus:one-shot"), mk("seq", 1, family="corpus:one-shot"),
              mk("par", 7, 4, family="corpus:remainder-batch"), mk("seq", 5, family="corpus:sequential")]
    # sequential mode
    for S in (range(1, 41) if ctx.thorough else [2, 3, 8, 13, 40]):
        cases.append(mk("seq", S, seed=rng.randrange(2 ** 31), circ=rng.choice(list(CIRCUITS)), family="seq"))
    # parallel mode, fork: shot counts 1..40, 2..12 workers
    shots = list(range(1, 41)) if ctx.thorough else [1, 2, 3, 4, 5, 7, 9, 12, 13, 16, 24, 25, 33, 40]
    for S in shots:
        for cpu in (CPUS if ctx.thorough else rng.sample(CPUS, 2)):
            cases.append(mk("par", S, cpu, seed=rng.randrange(2 ** 31), circ=rng.choice(list(CIRCUITS)), family="par-fork"))
    # larger runs (many shots per batch: long chains inside one worker)
    for S, cpu in ([(64, 15), (100, 10), (257, 5), (1000, 15), (513, 1)] if ctx.thorough else [(64, 15)]):
        cases.append(mk("par", S, cpu, seed=rng.randrange(2 ** 31), circ="one", family="par-fork-large"))
    # shot counts beyond 1024 (not a multiple of 1024) sequentially, and more than 256 shots per worker in a small pool: every shot is
    # still counted exactly once with weight 1/S and sampled from its own noise
    big = [rng.randint(1025, 2047), rng.randint(2049, 2600)] if ctx.thorough else [rng.randint(1025, 1900)]
    for S in big:
        cases.append(mk("seq", S, seed=rng.randrange(2 ** 31), circ="one", family="seq-large"))
    for S, cpu in ([(rng.randint(790, 1000), 4), (rng.randint(1300, 1500), 5)] if ctx.thorough else [(rng.randint(790, 1000), 4)]):
        cases.append(mk("par", S, cpu, seed=rng.randrange(2 ** 31), circ="one", family="par-fork-large"))
    # equal parent seed, different pools (reproducibility of the repaired code; see `repro`)
    for S in ([3, 6, 11, 20, 37] if ctx.thorough else [6, 11]):
        seed = rng.randrange(2 ** 31)
        for cpu in rng.sample(CPUS[1:], 2):
            cases.append(mk("par", S, cpu, seed=seed, family=f"par-fork-same-seed:{S}"))
        cases.append(mk("seq", S, seed=seed, family=f"par-fork-same-seed:{S}"))
    # the gate set was sampled from directly before the run; a user-defined gate set derived from the noise-free one
    for mode, S, cpu in ([("seq", 6, None), ("par", 6, 4)] if not ctx.thorough else [("seq", 3, None), ("seq", 9, None), ("par", 6, 4), ("par", 12, 3)]):
        c = mk(mode, S, cpu, seed=rng.randrange(2 ** 31), circ=rng.choice(list(CIRCUITS)), family="prewarmed-gate-set")
        c["prewarm"] = rng.randint(1, 3)
        cases.append(c)
        c = mk(mode, S, cpu, seed=rng.randrange(2 ** 31), circ=rng.choice(list(CIRCUITS)), family="user-gate-set")
        c["gates"] = "noisefree-with-sampled-readout"
        cases.append(c)
    # two runs of one simulator in one process without reseeding in between: the second run is new noise
    for mode, S, cpu in ([("par", 5, 4), ("par", 9, 3), ("seq", 4, None)] if not ctx.thorough else
                         [("par", 3, 4), ("par", 5, 4), ("par", 9, 3), ("par", 16, 10), ("seq", 2, None), ("seq", 7, None)]):
        c = mk(mode, S, cpu, seed=rng.randrange(2 ** 31), circ=rng.choice(list(CIRCUITS)), family="run-twice")
        c["again"] = True
        cases.append(c)
    # spawn start method (new interpreters: slow)
    sp = [(2, 1), (5, 4), (9, 3)] if not ctx.thorough else [(1, 1), (2, 1), (3, 4), (5, 4), (9, 3), (12, 15), (24, 15), (17, 7), (40, 10)]
    for S, cpu in sp:
        cases.append(mk("par", S, cpu, seed=rng.randrange(2 ** 31), start="spawn", family="par-spawn"))
    # fork server with numpy preloaded: every worker inherits the SERVER's generator (not the parent's)
    fs = [(2, 1), (6, 4), (12, 3)] if not ctx.thorough else [(1, 1), (2, 1), (3, 4), (6, 4), (12, 3), (12, 15), (24, 15), (17, 7), (40, 10)]
    for S, cpu in fs:
        cases.append(mk("par", S, cpu, seed=rng.randrange(2 ** 31), circ=rng.choice(list(CIRCUITS)), start="forkserver",
                        family="par-forkserver"))
    c = mk("par", 7, 4, seed=rng.randrange(2 ** 31), start="forkserver", family="par-forkserver-run-twice")
    c["again"] = True
    cases.append(c)
    return cases


def gen_malformed(ctx):
    """outside the property's domain: a non-positive shot count is rejected before any shot runs"""
    return [mk("seq", 0, family="malformed:shots<1"), mk("par", 0, 4, family="malformed:shots<1"),
            mk("par", -3, 4, family="malformed:shots<1")]


def public(case):
    return {k: case[k] for k in ("mode", "S", "cpu", "seed", "circ", "nq", "ops", "start", "again", "prewarm", "gates") if k in case}


def summary(case, obs, a):
    return {"exception": obs["exception"], "n_processes": obs.get("hdr", {}).get("n_processes"),
            "chunksize": obs.get("hdr", {}).get("chunksize"), "workers_used": a["workers_used"],
            "distinct_generator_start_states": a["distinct_start"], "distinct_first_outputs": a["distinct_peek"],
            "distinct_born_vectors": a["distinct_probs"], "shots_with_identical_realisation": [c for c in a["classes"] if len(c) > 1][:12],
            "shot_to_worker": [a["worker_of"].get(i) for i in range(max(case["S"], 0))], "result": obs["result"]}


# ------------------------------------------------------------------------------------------------------------- main
def main(ctx):
    lean = ctx.lean("QG.Props.C09")
    cov = ctx.coverage
    cases = gen_cases(ctx)
    bad_cases = gen_malformed(ctx)
    observed = run_real(cases + bad_cases)
    obs_ok, obs_bad = observed[:len(cases)], observed[len(cases):]
    drv = core.Driver(ctx.pid)

    analysed, oracle_fail, broken = [], [], []
    reqs, spans = [], []
    for case, obs in zip(cases, obs_ok):
        ctx.count()
        a = analyse(case, obs)
        analysed.append(a)
        bad = oracle(case, obs, a)
        if bad:
            oracle_fail.append((case, obs, a, bad))
        if a["problems"]:
            broken.append((case, a["problems"]))
        if obs["exception"] or a["problems"] or not a["once"] or "intervals" not in a:
            spans.append(None)
            continue
        r = model_requests(case, obs, a)
        spans.append((len(reqs), len(reqs) + len(r)))
        reqs += r
    # negative stream for the model's schedule check: perturbed observed schedules must be rejected
    neg = []
    for case, a in zip(cases, analysed):
        if case["mode"] == "par" and "schedule" in a and len(a["schedule"]["order"]) >= 2 and len(neg) < 12:
            w, o = a["schedule"]["worker"], a["schedule"]["order"]
            for bw, bo in ((w, o[:-1]), (w, o[:-1] + [o[0]]), (w[:-1], o), ([n_of(case["cpu"])] + w[1:], o)):
                neg.append({"op": "par", "repaired": True, "start": "fork", "cpu": case["cpu"], "S": case["S"], "p0": 0,
                            "lens": [], "worker": bw, "order": bo})
    answers = drv.batch(reqs + neg)
    neg_ans = answers[len(reqs):]
    mismatches, explained_by_found = [], 0
    for case, obs, a, sp in zip(cases, obs_ok, analysed, spans):
        if sp is None:
            continue
        mis, explains = compare(case, obs, a, answers[sp[0]:sp[1]])
        if mis:
            mismatches.append((case, obs, a, mis, explains))
            explained_by_found += bool(explains)
    neg_wrong = [r for r, x in zip(neg, neg_ans) if x.get("valid") is not False]

    # malformed: rejected with ValueError before anything runs
    for case, obs in zip(bad_cases, obs_bad):
        ctx.count()
        if not (obs["exception"] or "").startswith("ValueError") or obs["records"]:
            oracle_fail.append((case, obs, analyse(case, obs), ("nonpositive-shots-not-rejected",
                               f"shots={case['S']}: exception={obs['exception']!r}, {len(obs['records'])} shot(s) ran")))

    # reproducibility under a fixed parent seed (a design goal of the repair, beyond C09's statement)
    groups = {}
    for case, a in zip(cases, analysed):
        if case["family"].startswith("par-fork-same-seed") and case["mode"] == "par" and a.get("once"):
            groups.setdefault(case["family"], []).append(a)
    repro = {"groups": len(groups), "identical_per_shot_vectors": 0}
    for g in groups.values():
        if len(g) >= 2 and all([x["by_shot"][i]["probs"] for i in sorted(x["by_shot"])] ==
                               [g[0]["by_shot"][i]["probs"] for i in sorted(g[0]["by_shot"])] for x in g[1:]):
            repro["identical_per_shot_vectors"] += 1
    ctx.notes["parallel_reproducibility_under_fixed_seed"] = (
        f"{repro['identical_per_shot_vectors']} of {repro['groups']} groups of parallel runs with equal parent seed and different pool "
        "sizes returned bit-identical per-shot vectors (Lean: par_schedule_independent predicts all for the repaired code; the "
        "returned tables may still differ in the last bits because the sum follows the completion order)")

    # ---- evidence
    def hist(f):
        h = {}
        for c, a, o in zip(cases, analysed, obs_ok):
            k = str(f(c, a, o))
            h[k] = h.get(k, 0) + 1
        return dict(sorted(h.items(), key=lambda kv: (len(kv[0]), kv[0])))
    nontrivial = {core.sha(public(c)) for c, a in zip(cases, analysed)
                  if c["S"] >= 2 and (c["mode"] == "seq" or a["workers_used"] >= 2)}
    cov["distinct_nontrivial"] = len(nontrivial)
    cov["rule"] = ("distinct runs of the real simulator in which two shots COULD share generator outputs: >= 2 shots and, in "
                   "parallel mode, at least two worker processes that actually executed shots (observed, not requested)")
    cov["runs"] = {"sequential": sum(c["mode"] == "seq" for c in cases),
                   "parallel_fork": sum(c["mode"] == "par" and c["start"] == "fork" for c in cases),
                   "parallel_spawn": sum(c["start"] == "spawn" for c in cases),
                   "parallel_forkserver_preloaded": sum(c["start"] == "forkserver" for c in cases), "malformed": len(bad_cases)}
    cov["shot_counts"] = sorted({c["S"] for c in cases})
    cov["pool_sizes"] = sorted({n_of(c["cpu"]) for c in cases if c["mode"] == "par"})
    cov["workers_that_executed_shots_histogram"] = hist(lambda c, a, o: a["workers_used"] if c["mode"] == "par" else "seq")
    cov["chunksize_histogram"] = hist(lambda c, a, o: o.get("hdr", {}).get("chunksize", "seq"))
    cov["circuits"] = hist(lambda c, a, o: c["circ"])
    cov["gaussians_per_shot"] = sorted({r["len"] for a in analysed for r in a["by_shot"].values() if r["len"] is not None})
    cov["shots_executed"] = sum(len(o["records"]) for o in obs_ok)
    cov["traces_validated_against_impl"] = sum(1 for s in spans if s)
    cov["model_requests"] = len(reqs) + len(neg)
    cov["correspondence_mismatches"] = len(mismatches)
    cov["mismatches_explained_exactly_by_the_as_found_model"] = explained_by_found
    cov["perturbed_schedules_rejected_by_model"] = f"{len(neg) - len(neg_wrong)}/{len(neg)}"
    cov["oracle_failures"] = len(oracle_fail)
    cov["trace_problems"] = len(broken)
    for i in (0, 1, len(cases) - 1):
        c, a = cases[i], analysed[i]
        ctx.sample({"case": {k: c.get(k) for k in ("mode", "S", "cpu", "start", "circ")},
                    "observed": {"workers_used": a["workers_used"], "distinct_start_states": a["distinct_start"],
                                 "intervals(first 6)": {k: v for k, v in list(a.get("intervals", {}).items())[:6]}}})
    cov["trusted_base"] += [
        "hand-written model QG/Model/Shots.lean (on QG/Model/Pool.lean), tied on every run: the draw interval (root generator state, "
        "offset, length in Gaussian variates) of EVERY executed shot, reconstructed from recorded generator states of the real run, "
        "must equal the model's prediction for the observed schedule; worker count / chunk size vs the printed ones; exact rational "
        "estimate vs the returned table (1e-12)",
        "statistical independence of generator outputs at distinct positions of one MT19937 stream, of streams seeded with "
        "different children of one numpy SeedSequence (repaired code), and of OS-seeded interpreters (spawn) = PRNG quality; the "
        "theorems reduce 'independent' to pairwise disjoint draw sources and 'same distribution' to a bijective relabelling of "
        "generator outputs (par_equidistributed)",
        "multiprocessing.Pool.imap_unordered runs every batch exactly once, a batch's shots in order on one worker "
        "(Schedule.Valid); fork copies the parent's generator state into every worker; observed on every run (trace problems are "
        "reported as a broken tie)",
        "instrumentation qgv/c09_shots.py: SpyCircuit = BinaryCircuit + read-only observation (np.random.get_state, private "
        "RandomState copies; nothing is drawn from the global generator); all sampling in the gate factories is legacy Gaussian "
        "(np.random.normal / multivariate_normal), otherwise the interval length is not found and the tie is reported broken",
        "floating point: the accumulated sum depends on the completion order in the last bits (outside the theorems; tolerance 1e-12)",
        "CLOCK_MONOTONIC is system-wide (completion order of batches across processes); only the order within one worker matters "
        "for the draw sources",
    ]
    ctx.assumptions += [
        "every shot of a run executes the same circuit with the same parameters (deep copies; C11), so all shots apply the same "
        "function to their generator outputs; the number of outputs a shot consumes is arbitrary in the model (len : shot -> Nat)",
        "the probability that two SeedSequence children collide (256-bit child states from 128 bits of entropy) is negligible and is "
        "part of the trusted generator quality; the alternative of 32-bit integer seeds would collide with probability ~ S^2/2^33",
        "shots >= 1 (run() rejects anything else with ValueError: C14; three such calls are run here)",
    ]

    # ---- decide
    by_sig = {}
    for case, obs, a, (fid, text) in oracle_fail:
        sig = {"kind": fid, "mode": "parallel" if case["mode"] == "par" else "sequential", "start_method": case["start"]}
        k = json.dumps(sig, sort_keys=True)
        size = (0 if case["family"].startswith("corpus") else 1, case["S"], case.get("cpu", 0))
        if k not in by_sig or size < by_sig[k][0]:
            by_sig[k] = (size, sig, case, obs, a, text)
    cov["oracle_failure_signatures"] = {}
    for case, obs, a, (fid, text) in oracle_fail:
        k = f"{fid}/{case['mode']}/{case['start']}"
        cov["oracle_failure_signatures"][k] = cov["oracle_failure_signatures"].get(k, 0) + 1
    for k, (size, sig, case, obs, a, text) in sorted(by_sig.items()):
        mode = "sequential mode" if case["mode"] == "seq" else \
            f"parallel mode (cpu_count={case['cpu']} -> {n_of(case['cpu'])} workers, start method {case['start']})"
        ctx.violation(sig, {"case": public(case), "failure": [sig["kind"], text], "observed": summary(case, obs, a)},
                      f"MrAndersonSimulator.run, {case['S']} shots, {mode}, circuit '{case['circ']}': {text}")
    # a transient failure of one gate request (fault injection): whatever enters the mean was computed from the circuit
    fo_bad = None
    n_fo = 12 if ctx.thorough else 4
    for kf in range(n_fo):
        sd = ctx.seed * 104729 + kf
        desc, bad = fault_once_case(sd)
        ctx.count()
        if bad and fo_bad is None:
            fo_bad = (sd, desc, bad)
    cov["transient_failure_cases"] = n_fo
    if fo_bad:
        ctx.violation({"kind": "shot-not-computed-from-the-circuit"}, {"mode": "fault-once", "seed": fo_bad[0], "case_text": fo_bad[1], "failure": fo_bad[2]},
                      f"{fo_bad[1]}: {fo_bad[2]}")
    shared_seen = any(f[0] == "shots-share-noise-realisation" for _, _, _, f in oracle_fail)
    failing = {core.sha(public(c)) for c, _, _, _ in oracle_fail}

    def explained(case, explains):
        # the same defect seen at another input: the oracle fails here too, or sharing was demonstrated in this run and the
        # model of the code BEFORE the repair predicts this observation exactly (the two models differ by the repair only)
        return core.sha(public(case)) in failing or (shared_seen and explains)
    unexplained = [m for m in mismatches if not explained(m[0], m[4])]
    cov["correspondence_mismatches_not_at_oracle_failures"] = len(unexplained)
    if unexplained:
        case, obs, a, mis, explains = unexplained[0]
        ctx.violation({"kind": "correspondence"},
                      {"case": public(case), "mismatch": mis, "n_mismatches": len(unexplained),
                       "as_found_model_explains": explains, "broken": "correspondence between the real simulator and QG.Model.Shots"},
                      "model and implementation disagree at an input on which the property's oracle passes", no_failing_input=True)
    if broken:
        case, probs = broken[0]
        ctx.violation({"kind": "trace"}, {"case": public(case), "problems": probs, "n_cases": len(broken),
                                          "broken": "assumptions of the trace reconstruction (pool behaviour / Gaussian-only sampling)"},
                      "the observations do not fit the trusted behaviour of the pool / the generator: " + "; ".join(probs[:2]),
                      no_failing_input=True)
    if neg_wrong:
        ctx.violation({"kind": "model-schedule-check"}, {"request": neg_wrong[0], "broken": "Schedule.validB"},
                      "the model accepts a schedule that does not run every batch exactly once", no_failing_input=True)
    if not lean.ok:
        ctx.violation({"kind": "proof"}, {"broken": lean.failed}, "Lean obligations of C09 do not check", no_failing_input=True)


def replay(ctx, path):
    rp = json.load(open(path))["replay"]
    if rp.get("mode") == "fault-once":
        desc, bad = fault_once_case(rp["seed"])
        print(desc); print("oracle:", bad or "holds")
        return 1 if bad else 0
    case = rp.get("case")
    if not case or "mode" not in case:
        print("replay names a broken obligation, no input to re-run:", json.dumps(rp)[:400])
        return 1
    case = dict(case, family="replay")
    obs = run_real([case])[0]
    a = analyse(case, obs)
    if case["S"] < 1:
        bad = None if (obs["exception"] or "").startswith("ValueError") and not obs["records"] else \
            ("nonpositive-shots-not-rejected", f"exception={obs['exception']!r}, {len(obs['records'])} shot(s) ran")
    else:
        bad = oracle(case, obs, a)
    print("input:", json.dumps(public(case)))
    print("implementation:", json.dumps(summary(case, obs, a)))
    print("oracle:", f"{bad[0]}: {bad[1]}" if bad else "holds")
    return 1 if bad else 0
