"""C13 — pulse objects are normalised waveforms with a consistent parametrisation.

Lean: QG.Props.C13
  Part 1 (translator tie): theorems about lean/QG/Gen/Pulse.lean, regenerated on every run from the source text of
          _gates/pulse.py by harness/gen/pulse.py (waveform / parametrisation / denominator of GaussianPulse, the constant
          pulses, Pulse.epsilon, Pulse.check_n_points); IR validated numerically against the real objects.
  Part 2 (hand model): QG.Model.PulseValidate (decision logic of Pulse.__init__ with perform_checks and of
          GaussianPulse._validate_inputs), tied by exact differential correspondence through drv_c13 on piecewise-polynomial
          waveform/parametrisation pairs with rational coefficients.
Oracle (independent of the model; a numeric TEST, labelled as such in the evidence):
  * real GaussianPulse objects against mpmath at 50 digits (harness/qgv/c13_mpref.py under python3-vt), integral of the
    waveform on [0,1] by panel-wise Gauss-Legendre quadrature, F(0)=0, F(1)=1, monotone on a fine grid;
  * validators: every pair family carries the verdict the property demands (valid => accepted, unnormalised / wrong end
    points / not the running integral beyond eps at a grid point => rejected), evaluated on the real constructor;
  * pickling (outside the proof): round trip of every bundled pulse, gate set, integrator and factory; same numpy seed =>
    identical sampled matrices before / after.
Floating-point cancellation of cdf(1)-cdf(0) in the left tail (D16) is outside the theorems; the oracle finds it and reports
it with the signature {"kind": "float-tail", "side": "left"}.
"""
import json, math, os, pickle, subprocess, warnings
from fractions import Fraction
import numpy as np
from qgv import core, pyexpr
from gen import pulse as gen

TOL = 1e-9                     # "up to rounding": relative (waveform) / absolute (parametrisation, integral) tolerance
ULP1 = 2.0 ** -52
MIN_NORMAL_WEIGHT = 1e-292     # below: the weight on [0,1] is not representable with full precision (denormal / underflow)


# =========================================================================================== exact piecewise polynomials
def fs(q):
    q = Fraction(q)
    return str(q.numerator) if q.denominator == 1 else f"{q.numerator}/{q.denominator}"


class PW:
    """piecewise polynomial with rational coefficients (ascending degree); piece i on [breaks[i-1], breaks[i]).
    Called with a float it behaves like a user-supplied Python callable (float Horner evaluation)."""

    def __init__(self, breaks, polys):
        self.breaks = [Fraction(b) for b in breaks]
        self.polys = [[Fraction(c) for c in p] for p in polys]
        assert len(self.polys) == len(self.breaks) + 1 and self.breaks == sorted(set(self.breaks))
        self.fb = [float(b) for b in self.breaks]
        self.fp = [[float(c) for c in p] for p in self.polys]

    def __call__(self, x):
        i = 0
        for b in self.fb:
            if b <= x:
                i += 1
            else:
                break
        acc = 0.0
        for c in reversed(self.fp[i]):
            acc = c + x * acc
        return acc

    def exact(self, x):
        x = Fraction(x)
        i = sum(1 for b in self.breaks if b <= x)
        acc = Fraction(0)
        for c in reversed(self.polys[i]):
            acc = c + x * acc
        return acc

    @staticmethod
    def _anti(p):
        return [Fraction(0)] + [c / (i + 1) for i, c in enumerate(p)]

    @staticmethod
    def _ev(p, x):
        acc = Fraction(0)
        for c in reversed(p):
            acc = c + x * acc
        return acc

    def integral(self, a, b):
        a, b = Fraction(a), Fraction(b)
        if b < a:
            return -self.integral(b, a)
        s, m = Fraction(0), len(self.polys)
        for i in range(m):
            l = a if i == 0 else max(a, self.breaks[i - 1])
            h = b if i == m - 1 else min(b, self.breaks[i])
            if l < h:
                A = self._anti(self.polys[i])
                s += self._ev(A, h) - self._ev(A, l)
        return s

    def antiderivative(self):
        """the running integral x -> int_0^x self, as a (continuous) PW"""
        polys = []
        for i, p in enumerate(self.polys):
            A = self._anti(p)
            anchor = Fraction(0) if not self.breaks else (self.breaks[i - 1] if i > 0 else self.breaks[0])
            A[0] = self.integral(0, anchor) - self._ev(A, anchor)
            polys.append(A)
        return PW(self.breaks, polys)

    def piece_at(self, x):
        return self.polys[sum(1 for b in self.breaks if b <= x)]

    def combine(self, other, ca=1, cb=1):
        """ca*self + cb*other"""
        br = sorted(set(self.breaks) | set(other.breaks))
        polys = []
        for i in range(len(br) + 1):
            if not br:
                probe = Fraction(0)
            elif i == 0:
                probe = br[0] - 1
            elif i < len(br):
                probe = (br[i - 1] + br[i]) / 2
            else:
                probe = br[-1] + 1
            p, q = self.piece_at(probe), other.piece_at(probe)
            n = max(len(p), len(q))
            polys.append([ca * (p[k] if k < len(p) else 0) + cb * (q[k] if k < len(q) else 0) for k in range(n)])
        return PW(br, polys)

    def scaled(self, c):
        return PW(self.breaks, [[Fraction(c) * a for a in p] for p in self.polys])

    def plus_const(self, c):
        return PW(self.breaks, [[(p[0] if p else 0) + Fraction(c)] + list(p[1:]) for p in self.polys])

    def json(self):
        return {"breaks": [fs(b) for b in self.breaks], "polys": [[fs(c) for c in p] for p in self.polys]}

    def jumps(self):
        """break points at which the function is discontinuous"""
        return [b for i, b in enumerate(self.breaks) if self._ev(self.polys[i], b) != self._ev(self.polys[i + 1], b)]


def poly(*c):
    return PW([], [list(c)])


def tent(c, w, h):
    """continuous piecewise-linear bump of height h at c, support [c-w, c+w]"""
    c, w, h = Fraction(c), Fraction(w), Fraction(h)
    return PW([c - w, c, c + w], [[0], [-h * (c - w) / w, h / w], [h * (c + w) / w, -h / w], [0]])


def linspace_exact(a, b, n):
    a, b = Fraction(a), Fraction(b)
    if n == 0:
        return []
    if n == 1:
        return [a]
    return [a + k * ((b - a) / (n - 1)) for k in range(n)]


MSG = {1: "Pulse was not valid", 2: "Parametrization was not valid", 3: "Pulse and parametrization are incompatible. "}


def zero_on(f, x):
    """f vanishes identically on (-inf, x] (every piece that meets it is the zero polynomial)"""
    k = sum(1 for b in f.breaks if b < x)
    return all(all(c == 0 for c in p) for p in f.polys[:k + 1])


def exact_reference(f, F, checks, eps, n, tol=0):
    """the validation of Pulse.__init__ re-implemented over Fractions with the exact integral: a second, independent
    implementation used (a) to measure the decision margin of a case, (b) as a cross-check of the Lean model.
    Returns (verdict, margin).  margin = how far the decisive *quadrature-based* comparisons are from flipping (absolute;
    compared by the caller with the measured error of scipy's quad on this waveform).  A *point-value* comparison is robust
    (contributes no constraint) if evaluating it in float arithmetic, as the code does, reproduces the exact slack to 1 %
    (an exact tie: if it is an exact tie in floats as well); otherwise the case is marked fragile (margin 0)."""
    if not checks:
        return {"ok": None}, math.inf
    eps, tol = Fraction(eps), Fraction(tol)
    fe, ft = float(eps), float(tol)
    groups = [
        [(eps - abs(f.integral(0, 1) - 1), True, None)] +
        [(f.exact(x), False, (lambda x=x: f(float(x)))) for x in linspace_exact(0, 1, n)],
        [(eps - abs(F.exact(0)), True, lambda: fe - abs(F(0) - 0)), (eps - abs(F.exact(1) - 1), True, lambda: fe - abs(F(1) - 1))] +
        [(F.exact(x + eps) - (F.exact(x) - tol), False, (lambda x=x: F(float(x) + fe) - (F(float(x)) - ft))) for x in linspace_exact(0, 1 - eps, n)],
        # quadrature-based, except where the waveform vanishes identically on [0, x]: there quad returns exactly 0.0
        [(eps - abs(f.integral(0, x) - F.exact(x)), False, ((lambda x=x: fe - abs(0.0 - F(float(x)))) if zero_on(f, x) else None))
         for x in linspace_exact(eps, 1 - eps, n)]]

    def dist(s, fl):
        if fl is None:
            return float(abs(s))
        v = fl()
        if s == 0:
            return math.inf if v == 0.0 else 0.0
        return math.inf if abs(Fraction(float(v)) - s) <= abs(s) / 100 else 0.0
    margin = math.inf
    for g in range(3):
        ok = [(s > 0 if strict else s >= 0) for s, strict, _ in groups[g]]
        if all(ok):
            margin = min([margin] + [dist(s, fl) for s, _, fl in groups[g]])
        else:
            worst = max(dist(s, fl) for (s, _, fl), o in zip(groups[g], ok) if not o)
            return {"err": "AssertionError", "msg": MSG[g + 1]}, min(margin, worst)
    return {"ok": None}, margin


# =========================================================================================== validator case families
def density_mixture(rng):
    """f = sum c_i (i+1) x^i with c_i >= 0, sum c_i = 1  (F = sum c_i x^(i+1))"""
    deg = rng.randint(1, 5)
    w = [rng.randint(0, 6) for _ in range(deg)]
    if sum(w) == 0:
        w[0] = 1
    return poly(*[Fraction(w[i], sum(w)) * (i + 1) for i in range(deg)])


def density_beta(rng):
    a, b = rng.randint(0, 3), rng.randint(0, 3)
    c = [Fraction(0)] * (a + b + 1)
    for k in range(b + 1):                      # x^a (1-x)^b
        c[a + k] += math.comb(b, k) * (-1) ** k
    p = poly(*c)
    return p.scaled(1 / p.integral(0, 1))


def density_histogram(rng):
    """piecewise constant / piecewise linear density with breaks away from every grid of the validator"""
    cand = [Fraction(x, 100) for x in (7, 13, 19, 27, 31, 38, 41, 47, 53, 59, 63, 71, 74, 81, 86, 93)]
    br = sorted(rng.sample(cand, rng.randint(1, 4)))
    if rng.random() < 0.5:
        polys = [[Fraction(rng.randint(0, 5))] for _ in range(len(br) + 1)]
        if all(p[0] == 0 for p in polys):
            polys[0] = [Fraction(1)]
        p = PW(br, polys)
    else:                                       # continuous piecewise linear through random non-negative knots
        knots = [Fraction(0)] + br + [Fraction(1)]
        vals = [Fraction(rng.randint(0, 5)) for _ in knots]
        if sum(vals) == 0:
            vals[1] = Fraction(2)
        polys = []
        for i in range(len(knots) - 1):
            s = (vals[i + 1] - vals[i]) / (knots[i + 1] - knots[i])
            polys.append([vals[i] - s * knots[i], s])
        p = PW(br, polys)
    return p.scaled(1 / p.integral(0, 1))


def density_shifted(rng):
    """supported on [a, b] inside [0,1], zero outside (the parametrisation is constant on both sides)"""
    a, b = sorted(rng.sample([Fraction(x, 100) for x in (13, 19, 27, 31, 38, 47, 53, 63, 71, 81, 86)], 2))
    if rng.random() < 0.5:
        return PW([a, b], [[0], [1 / (b - a)], [0]])
    m = (a + b) / 2
    return tent(m, (b - a) / 2, 2 / (b - a))


DENSITIES = {"mixture": density_mixture, "beta": density_beta, "histogram": density_histogram, "shifted": density_shifted}


def validator_cases(ctx):
    """cases: family (text), group (histogram key), expected in {"accept", "reject", None (the property makes no demand)},
    f, F (exact piecewise polynomials), checks, eps, n"""
    rng, E, N = ctx.rng, Fraction(1, 10 ** 6), 10
    out = []

    def add(fam, group, exp, f, F, checks=True, eps=E, n=N):
        out.append({"family": fam, "group": group if checks else "validation off", "expected": exp if checks else "accept",
                    "f": f, "F": F, "checks": checks, "eps": eps, "n": n, "use_lookup": len(out) % 3 == 1})

    # ---- corpus: the designed pairs
    one, ident = poly(1), poly(0, 1)
    add("valid/constant", "valid", "accept", one, ident)
    add("valid/ramp 2x,x^2", "valid", "accept", poly(0, 2), poly(0, 0, 1))
    add("valid/3x^2,x^3", "valid", "accept", poly(0, 0, 3), poly(0, 0, 0, 1))
    add("valid/6x(1-x)", "valid", "accept", poly(0, 6, -6), poly(0, 0, 3, -2))
    shifted = tent("1/2", "1/4", 4)                     # continuous, supported on [1/4, 3/4]: F is constant on both sides
    add("valid/shifted tent", "valid", "accept", shifted, shifted.antiderivative())
    add("valid/shifted box (discontinuous)", "valid", "accept", PW(["1/4", "3/4"], [[0], [2], [0]]), PW(["1/4", "3/4"], [[0], ["-1/2", 2], [1]]),
        eps=Fraction(1, 1000))
    add("invalid/unnormalised 2,2x", "unnormalised", "reject", poly(2), poly(0, 2))
    add("invalid/unnormalised 2,x", "unnormalised", "reject", poly(2), ident)
    add("invalid/F not from 0: x+1/2", "end points", "reject", one, poly("1/2", 1))
    add("invalid/F not to 1: x/2", "end points", "reject", one, poly(0, "1/2"))
    add("invalid/F not the integral: 1,x^2", "not the running integral", "reject", one, poly(0, 0, 1))
    add("invalid/F not the integral: 2x,x", "not the running integral", "reject", poly(0, 2), ident)
    add("invalid/negative at grid point 0: 6x-2,3x^2-2x", "negative at a grid point", "reject", poly(-2, 6), poly(0, -2, 3))
    add("invalid/non-monotone F: 1, x - 2/5 tent", "non-monotone", "reject", one, ident.combine(tent("1/2", "1/4", "-2/5")))
    for c in list(out):
        add(c["family"] + " [checks off]", c["group"], c["expected"], c["f"], c["F"], checks=False)
    # strictness of the comparisons on exactly representable data (eps = 2^-20, dyadic coefficients; no quadrature is involved
    # in the decisive comparison)
    e2 = Fraction(1, 2 ** 20)
    tiny = Fraction(1, 2 ** 40)
    add("boundary/|F(0)| = eps exactly (strict <)", "boundary", "reject", one, poly(e2, 1 - e2), eps=e2)
    add("boundary/|F(0)| = eps - 2^-40", "boundary", "accept", one, poly(e2 - tiny, 1 - e2 + tiny), eps=e2)
    add("boundary/F(1) = 1 + eps exactly (strict <)", "boundary", "reject", one, poly(0, 1 + e2), eps=e2)
    add("boundary/F(1) = 1 - eps exactly (strict <)", "boundary", "reject", one, poly(0, 1 - e2), eps=e2)
    add("boundary/f = 0 at a grid point (>= 0)", "boundary", "accept", poly(0, 2), poly(0, 0, 1), eps=e2)
    add("boundary/F constant over eps-steps (>=)", "boundary", "accept", shifted, shifted.antiderivative(), eps=e2)
    # `difference > eps` (not >=): F = running integral + eps on [1/8, 1/4), where the waveform is identically 0 (quad returns 0.0
    # exactly), so that at the compat grid point 2/9 the difference is eps exactly; the jumps of F are away from every sampled point
    box = PW(["1/8", "1/4"], [[0], [e2], [0]])
    add("boundary/|quad - F| = eps exactly at a grid point (> eps rejects, = eps passes)", "boundary", None, shifted,
        shifted.antiderivative().combine(box), eps=e2)
    # the sampling blind spot (the literal rejection claim is false; cf. QG.C13.literal_rejection_claim_false)
    add("blind-spot/F off by 2/5 between grid points", "blind spot", None, one, ident.combine(tent("1/2", "1/100", "2/5")))
    neg = one.combine(tent("1/2", "1/20", -3)).combine(tent("13/18", "1/20", 3))      # negative on (0.467, 0.533), between 4/9 and 5/9
    add("blind-spot/f negative between grid points", "blind spot", None, neg, neg.antiderivative())

    # ---- generated families
    reps = 60 if ctx.thorough else 7
    configs = [(E, 10)] * 5 + [(E, 0), (E, 1), (E, 2), (E, 3), (E, 17), (Fraction(1, 1000), 10), (Fraction(1, 10 ** 8), 10),
                                (e2, 10), (Fraction(1, 4), 5), (Fraction(3, 5), 4)]
    for kind, mk in DENSITIES.items():
        for _ in range(reps):
            eps, n = rng.choice(configs)
            f = mk(rng)
            F = f.antiderivative()
            add(f"valid/{kind}", "valid", "accept", f, F, eps=eps, n=n)
            # within tolerance: still accepted (validation_sound), although not exactly valid
            d = rng.choice([Fraction(1, 2), Fraction(9, 10), Fraction(-9, 10)]) * eps
            add(f"tolerated/{kind}: normalisation off by {fs(d / eps)} eps", "within tolerance", "accept", f.scaled(1 + d), F.scaled(1 + d), eps=eps, n=n)
            lam = abs(d)                                  # convex mixture with another monotone 0 -> 1 function: monotone, off by <= lam < eps
            add(f"tolerated/{kind}: F mixed with x^2, weight {fs(lam / eps)} eps", "within tolerance", "accept", f,
                F.combine(poly(0, 0, 1), 1 - lam, lam), eps=eps, n=n)
            # unnormalised (F scaled consistently, so only the first assertion can fail)
            d = rng.choice([Fraction(11, 10) * eps, 2 * eps, -2 * eps, 10 * eps, Fraction(1, 10), Fraction(1), Fraction(-1, 2)])
            if abs(d) > eps:
                add(f"invalid/{kind}: unnormalised by {fs(d)}", "unnormalised", "reject", f.scaled(1 + d), F.scaled(1 + d), eps=eps, n=n)
            # parametrisation not from 0 to 1
            d = rng.choice([Fraction(11, 10) * eps, -2 * eps, 10 * eps, Fraction(1, 2), Fraction(-1, 3)])
            if abs(d) > eps:
                if rng.random() < 0.5:
                    add(f"invalid/{kind}: F shifted by {fs(d)}", "end points", "reject", f, F.plus_const(d), eps=eps, n=n)
                else:
                    add(f"invalid/{kind}: F scaled to end at 1+{fs(d)}", "end points", "reject", f, F.scaled(1 + d), eps=eps, n=n)
            # not the running integral, beyond eps at a grid point of _are_compatible (end points intact)
            if n >= 3 and eps <= Fraction(1, 1000):
                g = linspace_exact(eps, 1 - eps, n)
                xk = g[rng.randrange(1, n - 1)]
                d = rng.choice([Fraction(11, 10), 2, 50]) * eps
                add(f"invalid/{kind}: F + {fs(d / eps)} eps * tent at a compat grid point", "not the running integral", "reject",
                    f, F.combine(tent(xk, Fraction(1, 40), d)), eps=eps, n=n)
                F2 = F.combine(poly(0, 0, 1), Fraction(1, 2), Fraction(1, 2))            # another valid parametrisation
                dev = max(abs(F2.exact(x) - F.exact(x)) for x in g)
                add(f"invalid/{kind}: F replaced by (F + x^2)/2", "not the running integral", "reject" if dev > eps else None, f, F2, eps=eps, n=n)
            # waveform negative at a grid point of _pulse_is_valid (compensated elsewhere; F the exact running integral)
            if n >= 2:
                g = linspace_exact(0, 1, n)
                xk = g[rng.randrange(0, n)]
                depth = f.exact(xk) + rng.choice([Fraction(1, 100), 1, 5])
                w = Fraction(1, 30)
                dip = tent(xk, w, -depth)
                comp_at = xk + Fraction(1, 20) if xk < Fraction(1, 2) else xk - Fraction(1, 20)
                f2 = f.combine(dip)
                f2 = f2.combine(tent(comp_at, w, (1 - f2.integral(0, 1)) / w))
                assert f2.integral(0, 1) == 1 and f2.exact(xk) < 0
                add(f"invalid/{kind}: waveform negative at a grid point", "negative at a grid point", "reject", f2, f2.antiderivative(), eps=eps, n=n)
            # parametrisation decreasing over one sampled eps-step
            if n >= 1 and eps <= Fraction(1, 1000):
                g = linspace_exact(0, 1 - eps, n)
                xk = g[rng.randrange(0, n)]
                h = F.exact(xk + eps) - F.exact(xk) + rng.choice([1, 3]) * eps
                add(f"invalid/{kind}: F decreasing over a sampled eps-step", "non-monotone", "reject", f, F.combine(tent(xk + eps, eps, -h)), eps=eps, n=n)
            if rng.random() < 0.3:
                add(f"valid/{kind} [checks off]", "valid", "accept", f, F, checks=False, eps=eps, n=n)
                add(f"invalid/{kind}: unnormalised, F unrelated [checks off]", "unnormalised", "accept", f.scaled(3), poly(0, 0, 1), checks=False, eps=eps, n=n)
    return out


def smooth_pairs():
    """exactly valid *smooth* waveform/parametrisation pairs written as a user would write them (closed forms in float
    arithmetic).  C13: constructing them with validation enabled must succeed."""
    pi, sin, cos = math.pi, math.sin, math.cos
    return {
        "constant": (lambda x: 1.0, lambda x: x),
        "ramp": (lambda x: 2 * x, lambda x: x * x),
        "falling ramp": (lambda x: 2 - 2 * x, lambda x: 2 * x - x * x),
        "parabola 6x(1-x)": (lambda x: 6 * x * (1 - x), lambda x: 3 * x ** 2 - 2 * x ** 3),
        "3(1-x)^2": (lambda x: 3 * (1 - x) ** 2, lambda x: 1 - (1 - x) ** 3),
        "smoothstep 30x^2(1-x)^2 (factored)": (lambda x: 30 * x ** 2 * (1 - x) ** 2, lambda x: x ** 3 * (10 - 15 * x + 6 * x ** 2)),
        "smoothstep 30x^2(1-x)^2 (expanded)": (lambda x: 30 * x ** 2 - 60 * x ** 3 + 30 * x ** 4, lambda x: 10 * x ** 3 - 15 * x ** 4 + 6 * x ** 5),
        "smootherstep 140x^3(1-x)^3": (lambda x: 140 * x ** 3 * (1 - x) ** 3, lambda x: 35 * x ** 4 - 84 * x ** 5 + 70 * x ** 6 - 20 * x ** 7),
        "Hann window 2sin^2(pi x)": (lambda x: 2 * sin(pi * x) ** 2, lambda x: x - sin(2 * pi * x) / (2 * pi)),
        "Hann window 1-cos(2 pi x)": (lambda x: 1 - cos(2 * pi * x), lambda x: x - sin(2 * pi * x) / (2 * pi)),
        "half sine": (lambda x: pi / 2 * sin(pi * x), lambda x: (1 - cos(pi * x)) / 2),
        "exponential": (lambda x: math.exp(x) / (math.e - 1), lambda x: (math.exp(x) - 1) / (math.e - 1)),
        "4(1-x)^3": (lambda x: 4 * (1 - x) ** 3, lambda x: 1 - (1 - x) ** 4),
        "cosine bell shifted": (lambda x: 1 + cos(2 * pi * x) * 0.5, lambda x: x + sin(2 * pi * x) / (4 * pi)),
    }


def run_smooth_pair(name):
    from quantum_gates._gates.pulse import Pulse
    f, F = smooth_pairs()[name]
    try:
        Pulse(pulse=f, parametrization=F, perform_checks=True)
        return {"ok": None}
    except Exception as e:                                  # noqa
        return {"err": type(e).__name__, "msg": str(e)}


def rounding_signature(r):
    """an exactly valid smooth pair rejected by the sampled monotonicity test, which compares F(x+eps) >= F(x) without any
    slack: where the true increase over the step is below the rounding error of F the outcome is decided by rounding (D17)"""
    if r.get("err") == "AssertionError" and r.get("msg") == MSG[2]:
        return {"kind": "float-rounding", "check": "_parametrization_is_valid"}
    return None


def run_impl_pulse(c):
    from quantum_gates._gates.pulse import Pulse
    cls = Pulse
    if float(c["eps"]) != Pulse.epsilon or c["n"] != Pulse.check_n_points:
        cls = type("PulseCfg", (Pulse,), {"epsilon": float(c["eps"]), "check_n_points": c["n"]})
    try:
        # use_lookup only tells the integrator to use its table: validation must not depend on it
        p = cls(pulse=c["f"], parametrization=c["F"], perform_checks=c["checks"], use_lookup=bool(c.get("use_lookup", False)))
        if p.get_pulse() is not c["f"] or p.get_parametrization() is not c["F"]:
            return {"err": "harness", "msg": "getters do not return the callables"}
        return {"ok": None}
    except Exception as e:                                  # noqa
        return {"err": type(e).__name__, "msg": str(e)}


def quad_discrepancy(c):
    """how far scipy.integrate.quad is from the exact integral on this waveform (recorded assumption, measured)"""
    import scipy.integrate
    worst = 0.0
    for b in [Fraction(1)] + linspace_exact(c["eps"], 1 - c["eps"], c["n"]):
        worst = max(worst, abs(scipy.integrate.quad(c["f"], 0, float(b))[0] - float(c["f"].integral(0, b))))
    return worst


# =========================================================================================== Gaussian pulses
def gaussian_cases(ctx):
    rng = ctx.rng
    cs = [(-8.0, 1.0, "corpus: D16"), (9.0, 1.0, "corpus: mirror image of D16"), (0.5, 0.25, "corpus: bundled gaussian_pulse"),
          (-6.0, 1.0, "corpus"), (-3.0, 1.0, "corpus"), (-8.3, 1.0, "corpus"), (-8.5, 1.0, "corpus"), (1, 1, "corpus: docs example (int)"),
          (1.0, 2.0, "corpus"), (0.5, 0.5, "corpus: docstring example"), (-0.2, 0.02, "corpus: left, 10 sigma"), (1.2, 0.02, "corpus: right, 10 sigma"),
          (40.0, 1.0, "corpus: underflow right"), (-40.0, 1.0, "corpus: underflow left"), (38.9, 1.0, "corpus: denormal weight"),
          (13.0, 0.02, "corpus"), (-12.0, 0.02, "corpus"), (0.5, 50.0, "corpus"), (0.5, 0.02, "corpus"), (0.0, 0.02, "corpus"),
          (1.0, 0.02, "corpus"), (-12.0, 50.0, "corpus"), (13.0, 50.0, "corpus"), (np.float64(0.3), np.float64(0.1), "corpus: np.float64"),
          (0, 2, "corpus: ints"), (0.37, 0.02, "corpus: narrow"), (-1.0, 0.25, "corpus"), (2.0, 0.25, "corpus"), (-5.0, 1.0, "corpus"),
          (6.0, 1.0, "corpus"), (-7.0, 1.0, "corpus"), (-12.0, 2.0, "corpus"), (13.0, 2.0, "corpus")]
    n = 4000 if ctx.thorough else 130
    for i in range(n):
        scale = math.exp(rng.uniform(math.log(0.02), math.log(50.0)))
        r = rng.random()
        if r < 0.4:
            loc = rng.uniform(-12.0, 13.0)
            tag = "uniform"
        elif r < 0.7:                                      # left of the interval, a controlled number of sigmas away
            loc = max(-12.0, 0.0 - rng.uniform(0.0, 12.0) * scale)
            tag = "left-tail"
        else:
            loc = min(13.0, 1.0 + rng.uniform(0.0, 40.0) * scale)
            tag = "right-tail"
        cs.append((loc, scale, tag))
    return cs


_GL = np.polynomial.legendre.leggauss(32)


def integrate01(w, loc, scale):
    """panel-wise 32-point Gauss-Legendre of the waveform on [0,1], break points every sigma around loc"""
    loc, scale = float(loc), float(scale)
    pts = {0.0, 1.0}
    k0 = int(math.floor((0.0 - loc) / scale))
    for k in range(k0, k0 + min(int(1.0 / scale) + 3, 400)):
        p = loc + k * scale
        if 0.0 < p < 1.0:
            pts.add(p)
    pts = sorted(pts)
    X = np.concatenate([(a + b) / 2 + (b - a) / 2 * _GL[0] for a, b in zip(pts, pts[1:])])
    W = np.concatenate([(b - a) / 2 * _GL[1] for a, b in zip(pts, pts[1:])])
    vals = np.asarray(w(X), dtype=float)
    if vals.shape != X.shape:
        vals = np.array([float(w(float(x))) for x in X])
    return math.fsum(W * vals), len(pts) - 1


def mp_reference(cases, xs_list):
    req = {"dps": 50, "cases": [{"loc": float(l).hex(), "scale": float(s).hex(), "xs": [float(x).hex() for x in xs]}
                                for (l, s, _), xs in zip(cases, xs_list)]}
    p = subprocess.run([core.PY_TOOLS, os.path.join(core.VERIF, "harness", "qgv", "c13_mpref.py")], input=json.dumps(req),
                       capture_output=True, text=True, timeout=3000)
    if p.returncode != 0:
        raise RuntimeError("mpmath reference helper failed: " + p.stderr[-800:])
    return json.loads(p.stdout)["results"]


def check_gaussian(loc, scale, xs, ref, perform_checks=False):
    """the statement of C13 for one Gaussian pulse on the real code, against 50-digit references.
    Returns dict(status, failures, detail)."""
    from quantum_gates._gates.pulse import GaussianPulse
    Zt, logZ = float(ref["Z"]), ref["log10Z"]
    info = {"loc": float(loc), "scale": float(scale), "log10Z": logZ}
    try:
        p = GaussianPulse(loc=loc, scale=scale, perform_checks=perform_checks)
    except Exception as e:                                  # noqa
        info.update(status="rejected", exc=type(e).__name__, msg=str(e)[:90])
        return info
    w, F = p.get_pulse(), p.get_parametrization()
    fails = []
    wv = [float(w(float(x))) for x in xs]
    Fv = [float(F(float(x))) for x in xs]
    wr, Fr, pdfr = [float(v) for v in ref["w"]], [float(v) for v in ref["F"]], [float(v) for v in ref["pdf"]]
    slack = 1e-320 / Zt if Zt > 0 else math.inf             # a denormal pdf value carries an absolute error of ~1 denormal ulp
    worst_w = max((abs(a - b) - slack) / abs(b) if b > 0 else 0.0 for a, b in zip(wv, wr))
    worst_F = max(abs(a - b) for a, b in zip(Fv, Fr))
    if not all(math.isfinite(v) for v in wv + Fv):
        fails.append("non-finite waveform / parametrisation values")
    if not all(v >= 0 for v in wv):
        fails.append("negative waveform value")
    if not worst_w <= TOL:
        fails.append(f"waveform differs from the 50-digit reference by rel {worst_w:.3e}")
    if not worst_F <= TOL:
        fails.append(f"parametrisation differs from the running integral (50 digits) by {worst_F:.3e}")
    integral, panels = integrate01(w, loc, scale)
    if not abs(integral - 1.0) <= TOL:
        fails.append(f"waveform integrates to {integral!r} on [0,1]")
    F0, F1 = float(F(0)), float(F(1))
    if not (abs(F0) <= 1e-12 and abs(F1 - 1.0) <= 1e-12):
        fails.append(f"F(0)={F0!r}, F(1)={F1!r}")
    grid = np.linspace(0.0, 1.0, 401)
    Fg = np.asarray(F(grid), dtype=float)
    if Fg.shape != grid.shape:
        Fg = np.array([float(F(float(x))) for x in grid])
    if not (np.all(np.diff(Fg) >= -1e-12) and np.all(Fg >= -1e-12) and np.all(Fg <= 1 + 1e-12)):
        fails.append(f"parametrisation not monotone within [0,1] on a 401-point grid (min step {float(np.min(np.diff(Fg))):.3e})")
    # the normalisation constant the object actually divides by, inferred where the pdf is largest
    j = max(range(len(xs)), key=lambda i: pdfr[i])
    Zf = pdfr[j] / wv[j] if wv[j] not in (0.0,) and math.isfinite(wv[j]) else float("nan")
    info.update(status="accepted", failures=fails, integral=integral, worst_w=worst_w, worst_F=worst_F, Z_true=Zt, Z_implied=Zf,
                panels=panels)
    return info


def check_constant_pulses():
    """C13 for the bundled constant pulses on the real objects: waveform 1, parametrisation x"""
    import quantum_gates.pulses as pub
    fails = []
    for name, obj in (("constant_pulse", pub.constant_pulse), ("constant_pulse_numerical", pub.constant_pulse_numerical),
                      ("ConstantPulse()", pub.ConstantPulse()), ("ConstantPulseNumerical()", pub.ConstantPulseNumerical())):
        w, F = obj.get_pulse(), obj.get_parametrization()
        xs = [k / 16 for k in range(17)]
        integral = math.fsum(0.5 * wt * float(w(0.5 + 0.5 * x)) for x, wt in zip(_GL[0], _GL[1]))
        bad = None
        if any(float(w(x)) != 1.0 for x in xs):
            bad = "waveform is not 1"
        elif any(float(F(x)) != x for x in xs):
            bad = "parametrisation is not x (not the running integral, 0 at 0, 1 at 1)"
        elif abs(integral - 1.0) > 1e-12:
            bad = f"waveform integrates to {integral!r}"
        if bad:
            fails.append((name, bad))
    return fails


def classify(info):
    """signature of an oracle failure of an accepted Gaussian pulse.  `float-tail/left`: loc < 0.5 and *everything* observed is
    explained by an error of at most 2 ulp(1) in the normalisation constant cdf(1) - cdf(0) (both cdf values ~ 1): the waveform is
    the true waveform times Z_true/Z_used at every sampled point and in the integral, and the parametrisation is off by no more
    than the same cancellation allows.  Any other failure keeps the generic signature (and is a VIOLATION)."""
    loc, Zt, Zf = info["loc"], info["Z_true"], info["Z_implied"]
    if loc < 0.5 and Zt > 0 and math.isfinite(Zf) and Zf > 0 and ULP1 / Zt > TOL / 8:
        ratio = Zt / Zf
        if abs(Zf - Zt) <= 2 * ULP1 * (1 + 1e-9) and abs(info["worst_w"] - abs(ratio - 1)) <= 1e-9 + 1e-6 * info["worst_w"] \
                and abs(info["integral"] - ratio) <= 1e-9 * max(1.0, ratio) and info["worst_F"] <= 4 * ULP1 / min(Zf, Zt) * (1 + 1e-6) \
                and not any("negative" in f or "non-finite" in f for f in info["failures"]):
            return {"kind": "float-tail", "side": "left"}
    return {"kind": "oracle", "part": "gaussian", "loc": info["loc"], "scale": info["scale"]}


# =========================================================================================== pickling (outside the proof)
def pickle_objects(seed, thorough):
    """(name, constructor thunk) of every bundled pulse / gate set and of objects built on them"""
    import random
    from quantum_gates._gates import pulse as P, gates as G
    from quantum_gates._gates.integrator import Integrator
    from quantum_gates._gates import factories as Fa
    import quantum_gates.pulses as pub_p, quantum_gates.gates as pub_g
    rng = random.Random(f"C13-pickle-{seed}")              # own stream: a replay rebuilds the same objects from the recorded seed
    objs = [("pulses.constant_pulse", lambda: pub_p.constant_pulse), ("pulses.constant_pulse_numerical", lambda: pub_p.constant_pulse_numerical),
            ("pulses.gaussian_pulse", lambda: pub_p.gaussian_pulse), ("ConstantPulse()", lambda: P.ConstantPulse()),
            ("ConstantPulseNumerical()", lambda: P.ConstantPulseNumerical()), ("GaussianPulse(1,1)", lambda: P.GaussianPulse(1, 1)),
            ("GaussianPulse(0.3,0.1,perform_checks=True)", lambda: P.GaussianPulse(0.3, 0.1, perform_checks=True)),
            ("Pulse(one, identity, perform_checks=True)", lambda: P.Pulse(P.one, P.identity, perform_checks=True))]
    for _ in range(6 if thorough else 2):
        l, s = round(rng.uniform(-2, 3), 3), round(math.exp(rng.uniform(math.log(0.05), math.log(5))), 3)
        objs.append((f"GaussianPulse({l},{s})", lambda l=l, s=s: P.GaussianPulse(l, s)))
    gl, gs = round(rng.uniform(0, 1), 2), round(rng.uniform(0.2, 1.0), 2)
    objs += [("gates.standard_gates", lambda: pub_g.standard_gates), ("gates.noise_free_gates", lambda: pub_g.noise_free_gates),
             ("_gates.numerical_gates", lambda: G.numerical_gates), ("_gates.almost_noise_free_gates", lambda: G.almost_noise_free_gates),
             ("Gates(gaussian_pulse)", lambda: G.Gates(P.gaussian_pulse)), (f"Gates(GaussianPulse({gl},{gs}))", lambda: G.Gates(P.GaussianPulse(gl, gs))),
             ("ScaledNoiseGates(0.5, gaussian_pulse)", lambda: G.ScaledNoiseGates(0.5, P.gaussian_pulse)), ("NoiseFreeGates()", lambda: G.NoiseFreeGates()),
             ("Integrator(gaussian_pulse)", lambda: Integrator(P.gaussian_pulse)), ("Integrator(constant_pulse)", lambda: Integrator(P.constant_pulse))]
    for name in ("XFactory", "SXFactory", "SingleQubitGateFactory", "CRFactory", "CNOTFactory", "CNOTInvFactory", "ECRFactory", "ECRInvFactory"):
        objs.append((f"{name}(Integrator(constant_pulse_numerical))", lambda name=name: getattr(Fa, name)(Integrator(P.constant_pulse_numerical))))
    objs.append(("XFactory(Integrator(gaussian_pulse))", lambda: Fa.XFactory(Integrator(P.gaussian_pulse))))
    for name in ("BitflipFactory", "DepolarizingFactory", "RelaxationFactory"):
        objs.append((f"{name}()", lambda name=name: getattr(Fa, name)()))
    return objs


ARGS1 = (0.3, 1e-3, 5e-5, 7e-5)                                       # phi, p, T1, T2
ARGS2 = (0.2, -0.4, 4e-7, 1e-2, 1e-3, 2e-3, 5e-5, 7e-5, 6e-5, 8e-5)   # phi_ctr, phi_trg, t, p_2q, p_ctr, p_trg, T1c, T2c, T1t, T2t


def sample_all(obj, seed, heavy):
    """every sampling entry point of the object under a fixed numpy seed -> list of (name, array)"""
    out = []

    def call(name, f, *a):
        np.random.seed(seed)
        out.append((name, np.asarray(f(*a))))
    if hasattr(obj, "get_pulse"):
        xs = [0.0, 0.125, 0.3, 0.5, 0.77, 1.0]
        out.append(("waveform", np.array([float(obj.get_pulse()(x)) for x in xs])))
        out.append(("parametrization", np.array([float(obj.get_parametrization()(x)) for x in xs])))
        out.append(("use_lookup", np.array([bool(obj.use_lookup)])))
    elif hasattr(obj, "integrate"):
        for k in sorted(obj._INTEGRAL_LOOKUP):
            out.append((k, np.array([obj.integrate(k, 0.7, 1.3)])))
    elif hasattr(obj, "X"):
        call("X", obj.X, *ARGS1); call("SX", obj.SX, *ARGS1)
        call("single_qubit_gate", obj.single_qubit_gate, 0.4, *ARGS1)
        call("relaxation", obj.relaxation, 1e-7, 5e-5, 7e-5); call("bitflip", obj.bitflip, 1e-7, 1e-3); call("depolarizing", obj.depolarizing, 1e-7, 1e-3)
        call("CNOT", obj.CNOT, *ARGS2)
        if heavy:
            call("CR", obj.CR, 0.3, 0.1, 2e-7, 1e-2, 5e-5, 7e-5, 6e-5, 8e-5)
            call("CNOT_inv", obj.CNOT_inv, *ARGS2); call("ECR", obj.ECR, *ARGS2); call("ECR_inv", obj.ECR_inv, *ARGS2)
    elif hasattr(obj, "construct"):
        n = type(obj).__name__
        if n in ("XFactory", "SXFactory"):
            call("construct", obj.construct, *ARGS1)
        elif n == "SingleQubitGateFactory":
            call("construct", obj.construct, 0.4, *ARGS1)
        elif n == "CRFactory":
            call("construct", obj.construct, 0.3, 0.1, 2e-7, 1e-2, 5e-5, 7e-5, 6e-5, 8e-5)
        elif n in ("CNOTFactory", "CNOTInvFactory", "ECRFactory", "ECRInvFactory"):
            call("construct", obj.construct, *ARGS2)
        elif n == "RelaxationFactory":
            call("construct", obj.construct, 1e-7, 5e-5, 7e-5)
        else:
            call("construct", obj.construct, 1e-7, 1e-3)
    return out


def check_pickle(name, make, seed, heavy):
    """None or a failure text: pickle round trip (cold and warm caches), same seed -> identical samples"""
    try:
        obj = make()
    except Exception as e:                                  # noqa
        return f"constructing the object raised {type(e).__name__}: {str(e)[:120]}"
    try:
        cold = pickle.loads(pickle.dumps(obj))
        before = sample_all(obj, seed, heavy)
        warm = pickle.loads(pickle.dumps(obj, protocol=pickle.HIGHEST_PROTOCOL))
        for label, o2 in (("cold", cold), ("warm", warm)):
            after = sample_all(o2, seed, heavy)
            if [k for k, _ in before] != [k for k, _ in after]:
                return f"{label} copy offers different entry points"
            for (k, a), (_, b) in zip(before, after):
                if a.shape != b.shape or not np.array_equal(a, b, equal_nan=True):
                    return f"{label} unpickled copy samples a different {k} under the same seed"
        again = sample_all(obj, seed, heavy)
        for (k, a), (_, b) in zip(before, again):
            if not np.array_equal(a, b, equal_nan=True):
                return f"the original samples a different {k} after having been pickled"
        if not before:
            return "nothing to sample (harness does not know this object)"
    except Exception as e:                                  # noqa
        return f"raised {type(e).__name__}: {str(e)[:120]}"
    return None


# =========================================================================================== translation validation
def translation_validation(ctx, ir):
    """the IR the theorems talk about computes what the real objects compute"""
    import scipy.stats
    from quantum_gates._gates import pulse as P
    norm = {"npdf": scipy.stats.norm.pdf, "ncdf": scipy.stats.norm.cdf, "nsf": scipy.stats.norm.sf}
    bad, n = [], 0
    g = ir["gaussian"]
    rng = ctx.rng
    for _ in range(400 if ctx.thorough else 120):
        loc, scale, x = rng.uniform(-12, 13), math.exp(rng.uniform(math.log(0.02), math.log(50))), rng.choice([0.0, 1.0, rng.random(), rng.uniform(-1, 2)])
        try:
            p = P.GaussianPulse(loc, scale)
        except AssertionError:
            den = gen.evaluate(g["denominator"], {"loc": loc, "scale": scale}, norm)
            n += 1
            if den != 0:
                bad.append(("constructor rejects but IR denominator != 0", loc, scale, den))
            continue
        env = {"loc": loc, "scale": scale, "x": x}
        for key, real in (("waveform", p.get_pulse()(x)), ("param", p.get_parametrization()(x))):
            v = gen.evaluate(g[key], env, norm)
            n += 1
            if not (v == real or abs(v - real) <= 1e-15 * abs(real)):
                bad.append((key, loc, scale, x, v, float(real)))
        den = gen.evaluate(g["denominator"], env, norm)
        if den == 0:
            bad.append(("constructor accepts but IR denominator == 0", loc, scale))
    p = P.GaussianPulse(0.2, 0.7)
    if p.get_pulse().__name__ != g["methods"]["pulse"] or p.get_parametrization().__name__ != g["methods"]["parametrization"]:
        bad.append(("getter hand-off", p.get_pulse().__name__, p.get_parametrization().__name__))
    if Fraction(repr(P.Pulse.epsilon)) != ir["constants"]["epsilon"] or P.Pulse.check_n_points != ir["constants"]["check_n_points"]:
        bad.append(("class constants", P.Pulse.epsilon, P.Pulse.check_n_points))
    for cls, c in ir["constant_classes"].items():
        o = getattr(P, cls)()
        for x in (0.0, 0.25, 1.0, rng.random()):
            n += 2
            if o.get_pulse()(x) != pyexpr.evaluate(c["pulse"], {"x": x}) or o.get_parametrization()(x) != pyexpr.evaluate(c["parametrization"], {"x": x}):
                bad.append((cls, x))
        if str(o.use_lookup) != c["use_lookup"]:
            bad.append((cls, "use_lookup"))
    for name, v in ir["bundled"].items():
        o = getattr(P, name)
        if Fraction(repr(float(o._loc))) != v["loc"] or Fraction(repr(float(o._scale))) != v["scale"]:
            bad.append(("bundled", name))
    return n, bad


# =========================================================================================== Gaussian constructor vs model
def gaussian_ctor_cases(ctx, ir):
    import scipy.stats
    from quantum_gates._gates.pulse import GaussianPulse
    norm = {"npdf": scipy.stats.norm.pdf, "ncdf": scipy.stats.norm.cdf, "nsf": scipy.stats.norm.sf}
    g = ir["gaussian"]
    types = {"int": int, "float": float, "np.float64": np.float64}
    if not set(g["valid_types"]) <= set(types):
        raise pyexpr.Unsupported(f"valid_types {g['valid_types']}")
    valid = [types[t] for t in g["valid_types"]]
    rng = ctx.rng
    vals = []
    for _ in range(300 if ctx.thorough else 60):
        scale = math.exp(rng.uniform(math.log(0.02), math.log(50)))
        loc = rng.choice([rng.uniform(-12, 13), 0.5 - rng.uniform(5, 45) * scale, 0.5 + rng.uniform(5, 45) * scale])
        cast_l, cast_s = rng.choice([float, np.float64, float]), rng.choice([float, np.float64, float])
        vals.append((cast_l(loc), cast_s(scale)))
    vals += [(0.5, 0.0), (0.5, -0.25), (0.5, -1), (0.5, float("inf")), (0.5, float("nan")), (float("nan"), 1.0), (float("inf"), 1.0), (0.3, -0.0)]
    vals += [(1, 1), (0, 2), (np.float64(0.5), 1), (0.5, np.float32(0.25)), (np.float32(0.5), 0.25), (0.5, True), (True, 0.5),
             (0.5, Fraction(1, 4)), (0.5, np.int64(1)), (0.5, "0.25"), (0.5, None), (0.5, [0.25]),
             (0.5, np.array(0.25)), (0.5, np.array([0.25])), (0.5, 1 + 0j), (100.0, 1.0), (-100.0, 1.0), (0.5, 1e-3), (0.5, 1e-300)]
    reqs, impl, descr = [], [], []
    for loc, scale in vals:
        try:
            GaussianPulse(loc, scale)
            r = {"ok": None}
        except Exception as e:                              # noqa
            r = {"err": type(e).__name__}
        env = {"loc": loc, "scale": scale}
        checks = [type(env[v]) in valid for v in g["type_checked"]]
        dom = g.get("domain") or {"finite": [], "positive": []}
        if all(checks) and (dom["finite"] or dom["positive"]):
            # the domain guard read from the source (asserted after the type checks, before the denominator is computed)
            try:
                checks.append(bool(all(np.isfinite(env[v]) for v in dom["finite"]) and all(env[v] > 0 for v in dom["positive"])))
            except TypeError:
                impl_exc = None
                continue                                    # a loc that is not a number raises TypeError in np.isfinite: outside the model
        try:
            den = float(gen.evaluate(g["denominator"], {"loc": float(loc), "scale": float(scale)}, norm)) if all(checks) else 1.0
        except Exception:                                   # noqa
            den = 1.0
        if not math.isfinite(den):
            continue                                        # NaN denominators have no exact counterpart: covered by accepted_edge_objects
        reqs.append({"op": "gaussian_validate", "type_checks": checks, "denominator": fs(Fraction(den))})
        impl.append(r)
        descr.append(f"GaussianPulse({loc!r}, {scale!r})")
    return reqs, impl, descr


def short_lived_pairs(n=80):
    """valid pairs are constructed (with validation) and dropped at once; right afterwards invalid pairs made of NEW function objects are
    constructed with validation - each must be rejected, whatever was validated before and wherever the new functions live in memory.
    Returns (constructions, failure | None)."""
    from quantum_gates._gates.pulse import Pulse
    made = 0
    for k in range(n):
        def f(x):
            return 1.0 + 0 * x
        def F(x):
            return x
        Pulse(pulse=f, parametrization=F, perform_checks=True)
        del f, F
        bad_kind = k % 3
        # the new function objects are created in both orders (waveform first / parametrisation first): the allocator hands the
        # freed blocks back in LIFO order, so either order may land on the addresses of the pair that was just dropped
        if (k // 3) % 2 == 0:
            if bad_kind == 0:
                def G(x):
                    return x
                def g(x):                  # not normalised
                    return 2.0 + 0 * x
            elif bad_kind == 1:
                def G(x):
                    return 0.5 * x
                def g(x):                  # parametrisation does not run from 0 to 1
                    return 1.0 + 0 * x
            else:
                def G(x):
                    return x * x
                def g(x):                  # parametrisation is not the running integral of the waveform
                    return 1.0 + 0 * x
        elif bad_kind == 0:
            def g(x):
                return 2.0 + 0 * x
            def G(x):
                return x
        elif bad_kind == 1:
            def g(x):
                return 1.0 + 0 * x
            def G(x):
                return 0.5 * x
        else:
            def g(x):
                return 1.0 + 0 * x
            def G(x):
                return x * x
        made += 2
        try:
            Pulse(pulse=g, parametrization=G, perform_checks=True)
        except AssertionError:
            del g, G
            continue
        except Exception as e:              # noqa
            return made, f"construction {k}: an invalid pair raised {type(e).__name__} instead of the validation's AssertionError"
        return made, (f"construction {k}: after a valid pair had been validated and dropped, the invalid pair "
                      f"{['waveform 2 (not normalised), F = x', 'waveform 1, F = x/2 (does not reach 1)', 'waveform 1, F = x^2 (not its running integral)'][bad_kind]} "
                      f"made of new function objects was accepted with perform_checks=True")
    return made, None


def accepted_edge_objects():
    """the first sentence of C13 on the inputs where it is most likely to fail: whatever `GaussianPulse(loc, scale)` ACCEPTS must be a
    pulse - finite non-negative waveform, parametrisation 0 at 0 and 1 at 1.  Degenerate standard deviations (0, negative, nan, inf,
    denormal) and non-finite locations of the accepted types; the constructor is free to reject them, it is not free to return an
    object whose waveform is nan.  (A denormal scale such as 5e-324 is NOT in the list: the peak value 1/(scale sqrt(2 pi)) of that Gaussian
    exceeds the largest double, so `inf` there is overflow of a correct formula, not a defect.)  Returns list of (description, failure)."""
    from quantum_gates._gates.pulse import GaussianPulse
    bad = []
    nan, inf = float("nan"), float("inf")
    cases = [(0.5, 0.0), (0.5, -0.0), (0.5, -0.25), (0.5, -1.0), (0.5, nan), (0.5, inf), (0.5, -inf), (0.5, np.float64(-0.25)),
             (0.5, 0), (0.5, -1), (nan, 1.0), (inf, 1.0), (-inf, 1.0), (nan, nan), (0.0, -3.0), (np.float64(nan), 0.25), (0.5, 1e308), (0.5, 1e-200)]
    for loc, scale in cases:
        d = f"GaussianPulse({loc!r}, {scale!r})"
        try:
            with warnings.catch_warnings():
                warnings.simplefilter("ignore")
                with np.errstate(all="ignore"):
                    p = GaussianPulse(loc, scale)
                    w = [float(p.get_pulse()(x)) for x in (0.0, 0.25, 0.5, 1.0)]
                    F0, F1 = float(p.get_parametrization()(0.0)), float(p.get_parametrization()(1.0))
        except Exception:                                    # noqa  (rejected: fine)
            continue
        if not all(math.isfinite(v) and v >= 0 for v in w):
            bad.append((d, f"is accepted, but its waveform at 0, 1/4, 1/2, 1 is {w} (not a non-negative finite waveform)"))
        elif not (abs(F0) <= 1e-9 and abs(F1 - 1) <= 1e-9):
            bad.append((d, f"is accepted, but its parametrisation runs from {F0!r} to {F1!r} instead of 0 to 1"))
    return len(cases), bad


def outside_domain_probes():
    """what the constructor does outside the property's domain (no Gaussian: scale <= 0 / nan / inf; wrong loc type)"""
    from quantum_gates._gates.pulse import GaussianPulse
    out = {}
    for loc, scale in [(0.5, 0.0), (0.5, -1.0), (0.5, float("nan")), (0.5, float("inf")), (float("nan"), 1.0), (float("inf"), 1.0),
                       ("0.5", 1.0), (None, 1.0), ([0.5], 1.0), (Fraction(1, 2), 0.25), (np.array([0.2, 0.5]), 0.25)]:
        try:
            p = GaussianPulse(loc, scale)
            v = p.get_pulse()(0.5)
            out[f"GaussianPulse({loc!r}, {scale!r})"] = f"accepted; waveform(0.5) = {v!r}"
        except Exception as e:                              # noqa
            out[f"GaussianPulse({loc!r}, {scale!r})"] = f"raises {type(e).__name__}"
    return out


# =========================================================================================== main
def main(ctx):
    cov = ctx.coverage
    broken = []                                             # ties / proofs that do not check (reported if no oracle failure explains them)
    # ---- 1. translator + Lean
    ir = None
    try:
        ir = gen.generate()
    except (pyexpr.Unsupported, SyntaxError, OSError) as e:
        broken.append(f"translator fails closed on _gates/pulse.py: {e}")
    lean = ctx.lean("QG.Props.C13") if ir is not None else None
    if lean is not None and not lean.ok:
        broken.append(f"Lean obligations fail: {dict(list(lean.failed.items())[:4])}")
    eps_src = Fraction(ir["constants"]["epsilon"]) if ir else Fraction(1, 10 ** 6)
    n_src = int(ir["constants"]["check_n_points"]) if ir else 10
    tol_src = Fraction(ir["constants"]["mono_tol"]) if ir else Fraction(0)

    # ---- 2. translation validation
    if ir is not None:
        try:
            ntv, tvbad = translation_validation(ctx, ir)
        except Exception as e:                              # noqa
            ntv, tvbad = 0, [("translation validation raised", type(e).__name__, str(e)[:200])]
        cov["translation_validation_cases"], cov["translation_validation_mismatches"] = ntv, len(tvbad)
        ctx.count(ntv)
        if tvbad:
            broken.append(f"translation validation: IR and implementation differ: {tvbad[0]}")

    # ---- 3. validators: real constructor vs model vs the verdict the property demands
    vcases = validator_cases(ctx)
    for c in vcases:                                        # the generated families use the class constants of the source
        if (c["eps"], c["n"]) == (Fraction(1, 10 ** 6), 10):
            c["eps"], c["n"] = eps_src, n_src
    reqs, impl, vfails, skipped, hist, quad_worst = [], [], [], 0, {}, 0.0
    kept = []
    import ast as _ast
    from gen import pulse as _gp
    _ex = _gp.Extractor(_ast.parse(open(os.path.join(core.REPO, _gp.SRC), encoding="utf-8").read())) if ir else None

    def mono_tol(c):                                        # the slack expression of the source, evaluated at this case's eps
        if _ex is None or tol_src == 0:
            return Fraction(0)
        return tol_src if c["eps"] == eps_src else Fraction(_ex.mono_tolerance(c["eps"]))
    for c in vcases:
        c["tol"] = mono_tol(c)
        ref, margin = exact_reference(c["f"], c["F"], c["checks"], c["eps"], c["n"], c["tol"])
        qd = quad_discrepancy(c) if c["checks"] else 0.0
        jump_near = False
        if c["checks"]:                                     # a discontinuity within 1e-9 of a sampled point: float and exact grids may fall on different sides
            pts = linspace_exact(0, 1, c["n"]) + linspace_exact(c["eps"], 1 - c["eps"], c["n"]) + \
                [x + d for x in linspace_exact(0, 1 - c["eps"], c["n"]) for d in (0, c["eps"])] + [Fraction(0), Fraction(1)]
            jump_near = any(abs(j - x) < Fraction(1, 10 ** 9) for fn in (c["f"], c["F"]) for j in fn.jumps() for x in pts)
        r = run_impl_pulse(c)
        ctx.count()
        c["impl"], c["ref"], c["margin"] = r, ref, margin
        if c["checks"] and (margin < max(1e-13, 20 * qd) or jump_near):
            # decision too close to a threshold for an exact-vs-float comparison to be meaningful: no correspondence, and no oracle
            # demand either — except that an exactly valid *smooth* pair (one polynomial piece) must be accepted whatever the margin
            skipped += 1
            if c["group"] == "valid" and not c["f"].breaks and not c["F"].breaks and "ok" not in r:
                vfails.append((c, f"an exactly valid smooth pair is rejected ({r})", rounding_signature(r)))
            continue
        quad_worst = max(quad_worst, qd)
        kept.append(c)
        impl.append(r)
        reqs.append({"op": "pulse_init", "checks": c["checks"], "eps": fs(c["eps"]), "mono_tol": fs(c["tol"]), "n": c["n"],
                     "f": c["f"].json(), "F": c["F"].json()})
        fam = c["group"]
        out = "accepted" if "ok" in r else r["err"] + ": " + r.get("msg", "")[:32]
        hist.setdefault(fam, {}).setdefault(out, 0)
        hist[fam][out] += 1
        want = c["expected"]
        if want == "accept" and "ok" not in r:
            vfails.append((c, f"a pair the property requires to be accepted is rejected ({r})", None))
        elif want == "reject" and "ok" in r:
            vfails.append((c, "a pair the property requires to be rejected is accepted", None))
        elif want == "reject" and r.get("err") != "AssertionError":
            vfails.append((c, f"rejected with {r.get('err')} instead of the validation's AssertionError", None))
    # exactly valid smooth pairs in closed form, as a user writes them (real code only; by `exactly_valid_pair_passes` the model accepts)
    smooth_hist = {}
    for name in smooth_pairs():
        r = run_smooth_pair(name)
        ctx.count()
        smooth_hist[name] = "accepted" if "ok" in r else f"{r['err']}: {r.get('msg')}"
        if "ok" not in r:
            vfails.append(({"family": "smooth/" + name, "smooth": name, "expected": "accept"},
                           f"an exactly valid smooth pair is rejected ({r})", rounding_signature(r)))
    cov["smooth_closed_form_pairs"] = smooth_hist
    # grids of the model against np.linspace, and the driver's exact evaluator against the harness's
    lin_req = [{"op": "linspace", "a": fs(a), "b": fs(b), "n": n} for n in (0, 1, 2, 3, 10, 17) for a, b in
               ((0, 1), (0, 1 - eps_src), (eps_src, 1 - eps_src))]
    pw_probe = [c for c in kept if c["checks"]][:40]
    pw_req = [{"op": "pw", "f": c["f"].json(), "xs": [fs(x) for x in linspace_exact(0, 1, 7)], "a": "0", "b": fs(Fraction(7, 9))} for c in pw_probe]
    corr_mismatch, model_vs_ref = [], []
    try:
        drv = core.Driver(ctx.pid)
        model = drv.batch(reqs + lin_req + pw_req)
        for c, a, b in zip(kept, impl, model[:len(reqs)]):
            if a != b:
                corr_mismatch.append((c, a, b))
            if b != c["ref"]:
                model_vs_ref.append((c["family"], b, c["ref"]))
        for q, m in zip(lin_req, model[len(reqs):len(reqs) + len(lin_req)]):
            want = np.linspace(float(Fraction(q["a"])), float(Fraction(q["b"])), q["n"])
            got = [float(Fraction(s)) for s in m["ok"]]
            if len(got) != len(want) or any(abs(x - y) > 4e-16 for x, y in zip(got, want)):
                corr_mismatch.append(({"family": "np.linspace grid"}, list(want), got))
        for c, m in zip(pw_probe, model[len(reqs) + len(lin_req):]):
            if [Fraction(s) for s in m["ok"]["values"]] != [c["f"].exact(x) for x in linspace_exact(0, 1, 7)] or \
                    Fraction(m["ok"]["integral"]) != c["f"].integral(0, Fraction(7, 9)):
                corr_mismatch.append(({"family": "driver evaluator vs harness evaluator"}, c["family"], m))
    except Exception as e:                                  # noqa
        broken.append(f"model driver: {type(e).__name__}: {str(e)[:300]}")
    if model_vs_ref:
        broken.append(f"Lean model and the exact Python reference disagree: {model_vs_ref[0]}")

    # ---- 4. GaussianPulse constructor vs model
    ctor_mismatch = []
    if ir is not None:
        try:
            greqs, gimpl, gdescr = gaussian_ctor_cases(ctx, ir)
            gmodel = core.Driver(ctx.pid).batch(greqs)
            ctx.count(len(greqs))
            for d, a, b in zip(gdescr, gimpl, gmodel):
                if ("ok" in a) != ("ok" in b) or a.get("err") != b.get("err"):
                    ctor_mismatch.append((d, a, b))
            cov["gaussian_constructor_cases"] = len(greqs)
            cov["gaussian_constructor_outcomes"] = {k: sum(1 for a in gimpl if (a.get("err") or "accepted") == k) for k in
                                                    sorted({a.get("err") or "accepted" for a in gimpl})}
        except Exception as e:                              # noqa
            broken.append(f"Gaussian constructor correspondence: {type(e).__name__}: {str(e)[:300]}")
    cov["outside_domain_probes"] = outside_domain_probes()
    n_sl, sl_bad = short_lived_pairs(240 if ctx.thorough else 80)
    ctx.count(n_sl)
    cov["short_lived_pair_constructions"] = n_sl
    n_edge, edge_bad = accepted_edge_objects()
    ctx.count(n_edge)
    cov["accepted_edge_objects_checked"] = n_edge

    # ---- 5. Gaussian pulses against 50 digits (numeric TEST; floats are outside the theorems)
    gcases = gaussian_cases(ctx)
    rng = ctx.rng
    xs_list = [[0.0, 1.0, 0.5] + [k / 10 for k in (1, 2, 3, 4, 6, 7, 8, 9)] + [rng.random() for _ in range(4)] +
               [min(1.0, max(0.0, float(l) + rng.uniform(-2, 2) * float(s))) for _ in range(2)] for l, s, _ in gcases]
    refs = mp_reference(gcases, xs_list)
    ghist, gfails, nontrivial_g, worst_ok = {}, [], set(), 0.0
    notes = {"rejected_although_weight_representable": [], "accepted_with_denormal_weight": []}
    for i, ((loc, scale, tag), xs, ref) in enumerate(zip(gcases, xs_list, refs)):
        info = check_gaussian(loc, scale, xs, ref, perform_checks=False)
        info["tag"] = tag
        ctx.count()
        logZ = ref["log10Z"]
        representable = logZ >= math.log10(MIN_NORMAL_WEIGHT)
        if info["status"] == "rejected":
            if info["exc"] != "AssertionError":
                gfails.append((info, xs, ref, {"kind": "oracle", "part": "gaussian", "loc": float(loc), "scale": float(scale)},
                               f"constructor raised {info['exc']} instead of the validation's AssertionError"))
            cls = "rejected: weight underflows" if not representable else ("rejected although weight representable (left)" if loc < 0.5
                                                                           else "rejected although weight representable (right)")
            if representable:
                notes["rejected_although_weight_representable"].append({"loc": float(loc), "scale": float(scale), "log10Z": round(logZ, 2)})
        elif not representable:
            cls = "accepted with denormal weight (outside the oracle's domain)"
            notes["accepted_with_denormal_weight"].append({"loc": float(loc), "scale": float(scale), "log10Z": round(logZ, 2),
                                                           "integral": info["integral"]})
        elif info["failures"]:
            sig = classify(info)
            cls = "FAIL " + sig["kind"] + ("/" + sig["side"] if "side" in sig else "")
            gfails.append((info, xs, ref, sig, "; ".join(info["failures"])))
        else:
            cls = "ok (left)" if loc < 0.0 else "ok (right)" if loc > 1.0 else "ok (inside)"
            worst_ok = max(worst_ok, info["worst_w"], info["worst_F"], abs(info["integral"] - 1))
            if ref["log10Z"] < -0.0005:
                nontrivial_g.add((float(loc), float(scale)))
            # validation enabled must accept a numerically valid smooth pair (quad is the library's)
            if i % (3 if ctx.thorough else 4) == 0:
                inf2 = check_gaussian(loc, scale, xs[:3], ref, perform_checks=True)
                ctx.count()
                if inf2["status"] != "accepted":
                    gfails.append((inf2, xs, ref, {"kind": "oracle", "part": "gaussian-validation", "loc": float(loc), "scale": float(scale)},
                                   f"perform_checks=True rejects a valid Gaussian pair: {inf2.get('exc')}: {inf2.get('msg')}"))
                ghist["validated with perform_checks=True"] = ghist.get("validated with perform_checks=True", 0) + 1
        ghist[cls] = ghist.get(cls, 0) + 1
    cov["gaussian_class_histogram"] = ghist
    cov["gaussian_worst_error_among_passing"] = worst_ok
    cov["gaussian_notes"] = {k: v[:8] + ([f"... {len(v)} in total"] if len(v) > 8 else []) for k, v in notes.items()}

    cfails = []
    try:
        cfails = check_constant_pulses()
        ctx.count(4)
    except Exception as e:                                  # noqa
        cfails = [("constant pulses", f"raised {type(e).__name__}: {str(e)[:120]}")]

    # ---- 6. pickling (outside the proof)
    pfails, pobjs = [], []
    try:
        pobjs = pickle_objects(ctx.seed, ctx.thorough)
        for name, obj in pobjs:
            bad = check_pickle(name, obj, seed=ctx.rng.randrange(2 ** 31), heavy=ctx.thorough or "gaussian" not in name.lower())
            ctx.count()
            if bad:
                pfails.append((name, bad))
    except Exception as e:                                  # noqa
        pfails.append(("<building the objects>", f"raised {type(e).__name__}: {str(e)[:200]}"))
    cov["pickle_objects"] = [n for n, _ in pobjs]

    # ---- evidence
    nontrivial_v = {core.sha([c["f"].json(), c["F"].json(), fs(c["eps"]), c["n"]]) for c in kept if c["checks"]}
    cov["distinct_nontrivial"] = len(nontrivial_v) + len(nontrivial_g)
    cov["rule"] = ("non-trivial = (a) distinct waveform/parametrisation pairs (exact piecewise polynomials) constructed with validation ON, "
                   "so that all three validators and the exact correspondence are exercised, plus (b) distinct accepted Gaussian (loc, scale) "
                   "whose weight on [0,1] is < 0.999 (the truncation/normalisation matters) compared with the 50-digit reference at 17 points, "
                   "by quadrature and on a 401-point monotonicity grid")
    cov["validator_cases"] = len(kept)
    cov["validator_cases_skipped_margin"] = skipped
    cov["validator_outcome_histogram"] = hist
    cov["validator_config_histogram"] = {f"eps={fs(e)},n={n}": sum(1 for c in kept if (c["eps"], c["n"]) == (e, n))
                                         for e, n in sorted({(c["eps"], c["n"]) for c in kept})}
    cov["validator_min_margin"] = min([c["margin"] for c in kept if c["checks"]] or [0])
    cov["quad_vs_exact_integral_worst"] = quad_worst
    cov["correspondence_mismatches"] = len(corr_mismatch) + len(ctor_mismatch)
    cov["gaussian_cases"] = len(gcases)
    if ir is not None:
        cov["source_facts"] = {"type_checked": ir["gaussian"]["type_checked"], "valid_types": ir["gaussian"]["valid_types"],
                               "epsilon": fs(eps_src), "check_n_points": n_src, "monotonicity_slack": fs(tol_src),
                               "methods": ir["gaussian"]["methods"]}
    cov["outside_the_proof"] = ["pickling of pulses / gate sets / integrators / factories: harness test only (Python's pickle protocol is not modelled)",
                                "floating point: cancellation of cdf(1) - cdf(0) (D16) and every other rounding effect; the 50-digit comparison is a test",
                                "scipy.integrate.quad inside the validators: a parameter of the model (measured against exact integrals on every case)"]
    cov["remarks"] = ["_validate_inputs asserts type(scale) twice; loc is never type-checked (read from the source: type_checked above)",
                      "the validation uses `assert` (AssertionError, removed under python -O), not ValueError",
                      "scale <= 0 / nan / inf and a non-finite loc are rejected since repair D27 (before: nan denominator, `nan != 0` held, the "
                      "accepted object's waveform was nan) — accepted_edge_objects is the oracle, outside_domain_probes the record",
                      "a waveform that is negative only between the 10 sampled points, or a parametrisation that is wrong only between the "
                      "sampled points, is accepted (blind-spot families; Lean: literal_rejection_claim_false)"]
    cov["trusted_base"] += [
        "translator harness/gen/pulse.py (+ qgv/pyexpr.py): Python AST -> IR -> Lean, validated on every run by evaluating the IR against the real objects",
        "mapping table scipy.stats.norm.pdf/cdf/sf(x, loc, scale) -> normPdf/normCdf/normSf (Mathlib gaussianPDFReal / cdf (gaussianReal loc scale^2)); "
        "tested on every run against mpmath at 50 digits",
        "hand-written model QG/Model/PulseValidate.lean (validators of Pulse.__init__, _validate_inputs), tied by exact differential correspondence "
        "on every case of this run; np.linspace as modelled by `linspace` (compared with numpy on every run)",
        "scipy.integrate.quad is the integral within its tolerance (parameter `integ` of the model; discrepancy on the explored waveforms recorded)",
        "pickle is pickle (round trips are a test, outside the proof)"]
    ctx.assumptions += ["scale > 0; exact real arithmetic in every theorem (floats: tested, tolerance 1e-9 relative for the waveform, 1e-9 absolute for "
                        "the parametrisation and the integral; oracle domain: weight on [0,1] >= 1e-292, i.e. a normal double)",
                        "validator theorems: quad returns the integral; tolerance 0 < eps <= 1/2 for `exactly_valid_pair_passes`",
                        "correspondence cases keep every decisive quadrature-based comparison at least max(1e-13, 20 x measured quad error) away from "
                        "its threshold and every decisive point-value comparison reproducible in float arithmetic to 1 % of its slack (others are skipped and counted)"]
    if kept:
        c = kept[min(11, len(kept) - 1)]
        ctx.sample({"validator_case": c["family"], "f": c["f"].json(), "F": c["F"].json(), "impl": c["impl"], "margin": c["margin"]})
    for info, xs, ref, sig, what in gfails[:2]:
        ctx.sample({"gaussian_case": [info["loc"], info["scale"]], "failure": what[:200]})

    # ---- decide
    unexplained = 0
    tails = [g for g in gfails if g[3].get("kind") == "float-tail"]
    if tails:
        info, xs, ref, sig, what = tails[0]
        ctx.violation(sig, {"kind": "gaussian", "loc": info["loc"], "scale": info["scale"], "xs": xs, "ref": ref, "failure": what,
                            "cases_of_this_class": len(tails),
                            "same_class": [[g[0]["loc"], g[0]["scale"], g[0].get("integral")] for g in tails[1:40]]},
                      f"GaussianPulse(loc={info['loc']}, scale={info['scale']}) is accepted but violates C13 in floating point: {what} "
                      f"[cdf(1) - cdf(0) cancels in the left tail: true weight {info['Z_true']:.6e}, weight used {info['Z_implied']:.6e}; "
                      f"outside the theorems, which are about real numbers — defect D16]")
    for info, xs, ref, sig, what in [g for g in gfails if g[3].get("kind") != "float-tail"][:3]:
        unexplained += 1
        ctx.violation(sig, {"kind": "gaussian", "loc": info["loc"], "scale": info["scale"], "xs": xs, "ref": ref, "failure": what},
                      f"GaussianPulse(loc={info['loc']}, scale={info['scale']}): {what}")
    rounding = sorted([v for v in vfails if v[2] is not None], key=lambda v: "smooth" not in v[0])     # closed-form pairs first
    if rounding:
        c, what, sig = rounding[0]
        ctx.violation(sig, validator_replay(c, what, [v[0]["family"] for v in rounding[1:30]]),
                      f"Pulse(f, F, perform_checks=True) on '{c['family']}': {what} [the sampled monotonicity test compares "
                      f"F(x+eps) >= F(x) without slack; the true increase over the last step is below the rounding error of F, so rounding "
                      f"decides; outside the theorems, which are about real numbers — defect D17]")
    for c, what, sig in [v for v in vfails if v[2] is None][:3]:
        unexplained += 1
        ctx.violation({"kind": "oracle", "part": "validator", "family": c["family"]}, validator_replay(c, what),
                      f"Pulse(f, F, perform_checks={c.get('checks', True)}) on family '{c['family']}': {what}")
    if sl_bad:
        unexplained += 1
        ctx.violation({"kind": "oracle", "part": "validator-history"}, {"kind": "short-lived", "failure": sl_bad},
                      f"Pulse(..., perform_checks=True) after earlier validations: {sl_bad}")
    for d, what in edge_bad[:1]:
        unexplained += 1
        ctx.violation({"kind": "oracle", "part": "gaussian-degenerate-input-accepted"},
                      {"kind": "edge", "failure": what, "input": d, "all": [x[0] for x in edge_bad]}, f"{d} {what}")
    for name, bad in cfails[:2]:
        unexplained += 1
        ctx.violation({"kind": "oracle", "part": "constant", "object": name}, {"kind": "constant", "object": name, "failure": bad},
                      f"bundled {name}: {bad}")
    for name, bad in pfails[:3]:
        unexplained += 1
        ctx.violation({"kind": "oracle", "part": "pickle", "object": name}, {"kind": "pickle", "object": name, "failure": bad},
                      f"pickling {name}: {bad}")
    if corr_mismatch:
        c, a, b = corr_mismatch[0]
        broken.append(f"correspondence Pulse.__init__ vs QG.Model.PulseValidate.construct disagrees on '{c.get('family')}': impl {a} / model {b}")
    if ctor_mismatch:
        broken.append(f"correspondence GaussianPulse._validate_inputs vs model disagrees: {ctor_mismatch[0]}")
    if broken and not unexplained:
        ctx.violation({"kind": "tie"}, {"broken": broken}, broken[0] + ("" if len(broken) == 1 else f" (+{len(broken) - 1} more)") +
                      "; the oracles found no failing input that explains it", no_failing_input=True)
    elif broken:
        cov["broken_ties"] = broken
        print(f"[{ctx.pid}] additionally broken (explained by the oracle failure above): {broken[0][:200]}")


def validator_replay(c, what, same_class=()):
    if "smooth" in c:
        return {"kind": "smooth-pair", "name": c["smooth"], "expected": "accept", "failure": what, "same_class": list(same_class)}
    return {"kind": "validator", "family": c["family"], "expected": c["expected"], "f": c["f"].json(), "F": c["F"].json(),
            "checks": c["checks"], "eps": fs(c["eps"]), "n": c["n"], "use_lookup": bool(c.get("use_lookup", False)), "failure": what,
            "same_class": list(same_class)}


# =========================================================================================== replay
def replay(ctx, path):
    rp = json.load(open(path))["replay"]
    kind = rp.get("kind")
    if kind == "gaussian":
        info = check_gaussian(rp["loc"], rp["scale"], rp["xs"], rp["ref"])
        print(f"GaussianPulse(loc={rp['loc']}, scale={rp['scale']}): {info['status']}")
        if info["status"] == "accepted":
            print(f"  integral of the waveform on [0,1] = {info['integral']!r}; true weight {info['Z_true']:.6e}, weight used {info['Z_implied']:.6e}")
            print(f"  max rel. error of the waveform vs 50 digits {info['worst_w']:.3e}; max abs. error of the parametrisation {info['worst_F']:.3e}")
            print("  oracle:", "; ".join(info["failures"]) or "holds")
            return 1 if info["failures"] else 0
        print("  constructor raised", info.get("exc"), info.get("msg"))
        return 1 if "raised" in rp.get("failure", "") or "rejects" in rp.get("failure", "") else 0
    if kind == "short-lived":
        n, bad = short_lived_pairs(240)
        print("short-lived valid pairs followed by invalid pairs:", bad or "oracle holds (every invalid pair rejected)")
        return 1 if bad else 0
    if kind == "edge":
        n, bad = accepted_edge_objects()
        for d, what in bad:
            print(d, what)
        print("oracle:", "fails" if bad else "holds (every accepted degenerate input is a pulse, the others are rejected)")
        return 1 if bad else 0
    if kind == "validator":
        c = {"f": PW(rp["f"]["breaks"], rp["f"]["polys"]), "F": PW(rp["F"]["breaks"], rp["F"]["polys"]), "checks": rp["checks"],
             "eps": Fraction(rp["eps"]), "n": rp["n"], "use_lookup": rp.get("use_lookup", False)}
        r = run_impl_pulse(c)
        ok = ("ok" in r) == (rp["expected"] == "accept") and (rp["expected"] == "accept" or r.get("err") == "AssertionError")
        print(f"family {rp['family']}: implementation {r}; the property demands: {rp['expected']}; oracle:", "holds" if ok else "fails")
        return 0 if ok else 1
    if kind == "constant":
        fails = check_constant_pulses()
        print("bundled constant pulses:", fails or "oracle holds")
        return 1 if fails else 0
    if kind == "smooth-pair":
        r = run_smooth_pair(rp["name"])
        print(f"Pulse(f, F, perform_checks=True) for the exactly valid smooth pair '{rp['name']}': implementation {r}; the property "
              f"demands: accept; oracle:", "holds" if "ok" in r else "fails")
        return 0 if "ok" in r else 1
    if kind == "pickle":
        body = json.load(open(path))
        for name, obj in pickle_objects(body.get("seed", 0), body.get("tier") == "thorough"):
            if name == rp["object"]:
                bad = check_pickle(name, obj, 12345, True)
                print(f"pickle round trip of {name}:", bad or "holds")
                return 1 if bad else 0
        print("object not found:", rp["object"]); return 1
    print("replay names a broken obligation / tie, no input to re-run:", json.dumps(rp)[:600])
    return 1
