"""C12 — the integrator returns the pulse-shaped Ito integrals.

Tie: translator (source text of integrator.py -> IR -> lean/QG/Gen/Integrator.lean, regenerated on every run) +
translation validation (IR evaluated numerically vs the real lambdas / methods; the function actually handed to
scipy.integrate.quad is captured with a spy and compared pointwise with the extracted integrand, bounds included).
Lean: QG.Props.C12 (per key: integrand_table, analytic_closed_form, analytic_spec, analytic_zero, analytic_limit,
numeric_integrand_spec, numeric_constant_pulse, integrate_spec, branches_agree).
Oracle (independent of translator and Lean): composite Gauss-Legendre quadrature of g(theta*F(t/a)) over [0,a] against
`Integrator(pulse).integrate(key, theta, a)` on the real code; cached / fresh-object re-evaluation must be identical.
Floating-point cancellation of the closed forms for tiny |theta| is outside the theorems: measured on a logarithmic
grid and reported in the evidence as a test.
`cached = uncached` for arbitrary histories is C10 (this check only re-evaluates each case twice and on a fresh object).
"""
import json, math, warnings
import numpy as np
from qgv import core, pyexpr
from gen import integrator as gen

REL_TOL, ABS_TOL = 1e-7, 1e-9          # |impl - ref| <= max(REL_TOL*|ref|, ABS_TOL*a)
QUAD_EPS = 1.49e-8                     # scipy.integrate.quad's default epsabs = epsrel (the code passes no options)

# the spec side, written independently of the repo and of the generator: g as a function of the instantaneous angle
G = {
    "sin(theta/a)**2": lambda x: np.sin(x) ** 2,
    "sin(theta/(2*a))**4": lambda x: np.sin(x / 2) ** 4,
    "sin(theta/a)*sin(theta/(2*a))**2": lambda x: np.sin(x) * np.sin(x / 2) ** 2,
    "sin(theta/(2*a))**2": lambda x: np.sin(x / 2) ** 2,
    "cos(theta/a)**2": lambda x: np.cos(x) ** 2,
    "sin(theta/a)*cos(theta/a)": lambda x: np.sin(x) * np.cos(x),
    "sin(theta/a)": lambda x: np.sin(x),
    "cos(theta/(2*a))**2": lambda x: np.cos(x / 2) ** 2,
}
KEYS = list(G)

# user-defined pulses (waveform f, parametrisation F, kinks of F in [0,1]); all pass the repo's own validators
USER = {
    "quadratic": (lambda x: 2 * x, lambda x: x ** 2, []),
    "cubic": (lambda x: 3 * x ** 2, lambda x: x ** 3, []),
    "sin2": (lambda x: (np.pi / 2) * np.sin(np.pi * x), lambda x: np.sin(np.pi * x / 2) ** 2, []),
    "smoothstep": (lambda x: 6 * x * (1 - x), lambda x: 3 * x ** 2 - 2 * x ** 3, []),
    "twoslope": (lambda x: np.where(np.asarray(x) <= 0.3, 2.0, 4.0 / 7.0),
                 lambda x: np.where(np.asarray(x) <= 0.3, 2.0 * np.asarray(x), 0.6 + (np.asarray(x) - 0.3) * (4.0 / 7.0)), [0.3]),
}
_GL = {}


_DECOYS = []


def make_pulse(spec):
    from quantum_gates._gates import pulse as P
    k = spec["kind"]
    if k == "constant":
        return P.ConstantPulse()
    if k == "constant_numerical":
        return P.ConstantPulseNumerical()
    if k == "constant_user_lookup":          # a user-built constant pulse that asks for the lookup
        return P.Pulse(pulse=P.one, parametrization=P.identity, perform_checks=True, use_lookup=True)
    if k == "gaussian":
        return P.GaussianPulse(loc=spec["loc"], scale=spec["scale"])
    if k == "user":
        f, F, _ = USER[spec["name"]]
        return P.Pulse(pulse=f, parametrization=F, perform_checks=True, use_lookup=False)
    raise ValueError(k)


def is_constant(spec):
    return spec["kind"].startswith("constant")


def breaks_of(spec):
    """points of [0,1] where F changes character (the reference quadrature puts subinterval boundaries there)"""
    if spec["kind"] == "gaussian":
        return [spec["loc"] + s * k * spec["scale"] for k in (0, 1, 2, 3, 4, 6, 8) for s in (-1, 1)]
    if spec["kind"] == "user":
        return list(USER[spec["name"]][2])
    return []


def reference(key, F, theta, a, unit_breaks, nodes=200):
    """composite Gauss-Legendre quadrature of g(theta * F(t/a)) over [0, a]"""
    if nodes not in _GL:
        _GL[nodes] = np.polynomial.legendre.leggauss(nodes)
    x, w = _GL[nodes]
    n_uniform = max(4, int(math.ceil(abs(theta) / 3.0)))
    pts = {0.0, 1.0} | {i / n_uniform for i in range(1, n_uniform)} | {b for b in unit_breaks if 0.0 < b < 1.0}
    pts = sorted(pts)
    total = 0.0
    g = G[key]
    for lo, hi in zip(pts[:-1], pts[1:]):
        u = 0.5 * (lo + hi) + 0.5 * (hi - lo) * x            # u = t/a in [lo, hi]
        try:
            Fu = np.asarray(F(u), dtype=float)
            if Fu.shape != u.shape:
                raise TypeError
        except Exception:                                      # noqa  (scalar-only parametrisation)
            Fu = np.array([float(F(float(v))) for v in u])
        total += 0.5 * (hi - lo) * float(np.dot(w, g(theta * Fu)))
    return a * total


def same_float(x, y):
    x, y = float(x), float(y)
    return (math.isnan(x) and math.isnan(y)) or (x == y and math.copysign(1, x) == math.copysign(1, y)) or x == y == 0.0


def run_impl(pulse, key, theta, a):
    """Integrator(pulse).integrate on the real code: first value, cached value, value from a fresh object, warnings"""
    from quantum_gates._gates.integrator import Integrator
    with warnings.catch_warnings(record=True) as rec:
        warnings.simplefilter("always")
        I = Integrator(pulse)
        v1 = I.integrate(key, theta, a)
        if type(pulse).__name__ == "GaussianPulse":
            # between the first (uncached) and the repeated (cached) evaluation other pulse objects come into being
            from quantum_gates._gates import pulse as P
            _DECOYS.append(P.GaussianPulse(loc=0.41, scale=0.13))
            _DECOYS.append(P.GaussianPulse(loc=-0.2, scale=0.9))
            del _DECOYS[:-4]
        v2 = I.integrate(key, theta, a)
        v3 = Integrator(pulse).integrate(key, theta, a)
    kinds = sorted({type(r.message).__name__ for r in rec})
    return float(v1), float(v2), float(v3), kinds


def interleaved_case(rng):
    """one Integrator on a numerically integrated pulse serves a second request (other integrand, angle, duration) from another thread
    while the first is inside quad (schedule forced from inside the pulse parametrization, qgv/interleave.py): the first request must
    still return ITS integral, and so must a repetition served from the cache.  Returns (description, failure | None)."""
    from quantum_gates._gates.integrator import Integrator
    from qgv import interleave as IL
    pulse, st = IL.hooked_pulse()
    I = Integrator(pulse)
    k1, k2 = rng.choice(KEYS), rng.choice(KEYS)
    t1, t2 = rng.uniform(0.3, 6) * rng.choice((-1, 1)), rng.uniform(0.3, 6) * rng.choice((-1, 1))
    a1, a2 = rng.choice((1.0, rng.uniform(0.3, 9))), rng.choice((1.0, rng.uniform(0.3, 9)))
    desc = f"Integrator(user pulse).integrate({k1!r}, {t1!r}, {a1!r}) with integrate({k2!r}, {t2!r}, {a2!r}) served by the same object inside its quadrature"
    st["armed"] = lambda: I.integrate(k2, t2, a2)
    try:
        v1 = float(I.integrate(k1, t1, a1))
        v1c = float(I.integrate(k1, t1, a1))
        v2c = float(I.integrate(k2, t2, a2))
    except Exception as e:                                     # noqa
        return desc, f"raised {type(e).__name__}: {e}"
    if st["error"]:
        return desc, f"the second request raised {st['error']}"
    F = pulse.get_parametrization()
    r1, r2 = reference(k1, F, t1, a1, []), reference(k2, F, t2, a2, [])
    for what, v, r, a in (("the first request returned", v1, r1, a1), ("the first request repeated (cache) returned", v1c, r1, a1),
                          ("the second request repeated (cache) returned", v2c, r2, a2)):
        if not abs(v - r) <= max(REL_TOL * abs(r), ABS_TOL * a, 1e-9):
            return desc, f"{what} {v!r}, its integral is {r!r}"
    return desc, None


def long_history_case(rng, n_distinct):
    """one Integrator (constant pulse, lookup branch: fast) answers n_distinct different requests, then the first 400 again: every
    repeated answer must be bit-identical to its first answer and to a fresh integrator's.  Returns (requests made, failure | None)."""
    from quantum_gates._gates.integrator import Integrator
    from quantum_gates._gates import pulse as P
    I = Integrator(P.ConstantPulse())
    reqs = [(rng.choice(KEYS), rng.uniform(-7, 7), rng.choice((1.0, rng.uniform(0.2, 9)))) for _ in range(n_distinct)]
    first = [float(I.integrate(k, t, a)) for k, t, a in reqs]
    fresh = Integrator(P.ConstantPulse())
    for (k, t, a), v in list(zip(reqs, first))[:400]:
        again = float(I.integrate(k, t, a))
        cold = float(fresh.integrate(k, t, a))
        if again != v or again != cold:
            return n_distinct + 400, (k, t, a, f"after {n_distinct} other requests on the same integrator the repeated request returns {again!r}; "
                                                f"its first answer was {v!r}, a fresh integrator returns {cold!r}")
    return n_distinct + 400, None


def judge(spec, key, theta, a, pulse=None):
    """the property statement evaluated on the real code; returns (failure text | None, record)"""
    pulse = pulse if pulse is not None else make_pulse(spec)
    if spec["kind"] == "gaussian":
        # another Gaussian pulse is constructed (and kept alive) before this one is used: pulse objects do not share anything
        from quantum_gates._gates import pulse as P
        _DECOYS.append(P.GaussianPulse(loc=0.3 if spec["loc"] != 0.3 else 0.6, scale=0.11))
        del _DECOYS[:-3]
    F = pulse.get_parametrization()
    ref = reference(key, F, float(theta), float(a), breaks_of(spec))
    try:
        v1, v2, v3, warn = run_impl(pulse, key, theta, a)
    except Exception as e:                                     # noqa
        return f"raised {type(e).__name__}: {e}", {"expected": ref, "observed": f"{type(e).__name__}", "warnings": []}
    tol = max(REL_TOL * abs(ref), ABS_TOL * float(a))
    if pulse.use_lookup and abs(float(theta)) < 1e-6:
        # closed forms at tiny angles: `1 - cos(theta)` rounds (measured on the fp grid: at most 5.6e-9*a, key 'sin(theta/a)');
        # an absolute allowance of 1e-8*a keeps this regime inside the oracle instead of excluding it
        tol = max(tol, 1e-8 * float(a))
    rec = {"expected": ref, "observed": repr(v1), "tolerance": tol, "warnings": warn}
    if not (abs(v1 - ref) <= tol) and not pulse.use_lookup and math.isfinite(v1):
        # numerical branch: the code calls quad with its default tolerances (epsabs = epsrel = 1.49e-8).  "quad is the integral
        # within its tolerance" is an assumption of C12, so a deviation is only a failure if it exceeds what scipy itself reports
        # as its error ON THE SPECIFIED integrand g(theta*F(t/a)) (computed here, independently of the repo), capped by quad's
        # contract.  For smooth integrands that estimate is ~1e-14 and the tight tolerance stays in force.
        import scipy.integrate
        with warnings.catch_warnings():
            warnings.simplefilter("ignore")
            _, abserr = scipy.integrate.quad(lambda t: float(G[key](float(theta) * float(F(t / a)))), 0, a)
        allowance = min(abserr, QUAD_EPS * max(1.0, abs(ref)))
        if abs(v1 - ref) <= max(tol, allowance):
            rec["quad_limited"] = {"deviation": abs(v1 - ref), "quad_reported_abserr_on_spec_integrand": abserr}
            tol = max(tol, allowance)
            rec["tolerance"] = tol
    if not (abs(v1 - ref) <= tol):
        return f"integrate returned {v1!r}, the integral of g(theta*F(t/a)) over [0,a] is {ref!r} (tolerance {tol:.3g})", rec
    if not (same_float(v1, v2) and same_float(v1, v3)):
        rec["cached"], rec["fresh"] = repr(v2), repr(v3)
        return f"cached / fresh evaluations differ: {v1!r}, {v2!r}, {v3!r}", rec
    return None, rec


def classify(spec, key, theta, a):
    """canonical class of a failing input (matched against known_findings.json)"""
    lookup = spec["kind"] in ("constant", "constant_user_lookup")
    if "second request from another thread" in str(spec.get("name", "")):
        return {"kind": "oracle", "branch": "numerical", "class": "interleaved requests on one integrator"}
    if lookup and theta == 0:
        return {"kind": "oracle", "branch": "lookup", "class": "theta == 0"}
    if not lookup and not is_constant(spec) and a != 1:
        return {"kind": "oracle", "branch": "numerical", "class": "non-constant pulse, a != 1"}
    return {"kind": "oracle", "branch": "lookup" if lookup else "numerical", "class": "other", "key": key}


# ------------------------------------------------------------------------------------------ case generation
def theta_of(rng, fam):
    s = rng.choice((-1, 1))
    if fam == "gate":
        return s * rng.choice((math.pi / 4, math.pi / 2, math.pi, math.pi / 8, 3 * math.pi / 4))
    if fam == "moderate":
        return s * rng.uniform(0.05, 2 * math.pi)
    if fam == "tiny":
        return s * 10.0 ** rng.uniform(-8, -3)
    if fam == "large":
        return s * rng.uniform(10, 50)
    if fam == "zero":
        return rng.choice((0.0, -0.0, 0))
    raise ValueError(fam)


def a_of(rng, fam):
    if fam == "one":
        return rng.choice((1, 1.0))
    if fam == "cr":                                  # t_cr / tg for typical CNOT / ECR durations (tg = 35 ns)
        return rng.choice((3.7, (4e-7 / 2 - 35e-9) / 35e-9, (6.6e-7 / 2 - 35e-9) / 35e-9, (5.3e-7 - 35e-9) / 35e-9 / 2))
    if fam == "random":
        return math.exp(rng.uniform(math.log(0.1), math.log(12.0)))
    raise ValueError(fam)


def pulse_of(rng, fam):
    if fam == "gaussian":
        r = rng.random()
        if r < 0.25:
            return {"kind": "gaussian", "loc": 0.5, "scale": 0.25}
        if r < 0.8:
            return {"kind": "gaussian", "loc": round(rng.uniform(0.0, 1.0), 3),
                    "scale": round(math.exp(rng.uniform(math.log(0.03), math.log(3.0))), 4)}
        return {"kind": "gaussian", "loc": round(rng.uniform(-0.5, 1.5), 3), "scale": round(rng.uniform(0.3, 2.0), 3)}
    if fam == "user":
        return {"kind": "user", "name": rng.choice(sorted(USER))}
    return {"kind": fam}


CORPUS = [
    # (pulse, key, theta, a, label)   D10: DESIGN section 6 (0.142 vs 0.735)
    ({"kind": "gaussian", "loc": 0.5, "scale": 0.25}, "sin(theta/a)**2", math.pi / 4, 3.7, "corpus"),
    ({"kind": "gaussian", "loc": 0.5, "scale": 0.25}, "sin(theta/a)", math.pi / 4, 3.7, "corpus"),
    ({"kind": "user", "name": "quadratic"}, "cos(theta/(2*a))**2", -math.pi / 2, 0.5, "corpus"),
    ({"kind": "gaussian", "loc": 0.5, "scale": 0.25}, "sin(theta/a)**2", math.pi / 4, 1, "corpus"),
    ({"kind": "constant_numerical"}, "sin(theta/a)**2", math.pi / 4, 3.7, "corpus"),
    # D11
    ({"kind": "constant"}, "cos(theta/a)**2", 0.0, 2.0, "corpus"),
    ({"kind": "constant"}, "sin(theta/a)", 0.0, 1, "corpus"),
    ({"kind": "constant"}, "sin(theta/(2*a))**4", -0.0, 3.7, "corpus"),
    ({"kind": "constant"}, "cos(theta/(2*a))**2", 0, 1, "corpus"),
    ({"kind": "constant_numerical"}, "cos(theta/a)**2", 0.0, 2.0, "corpus"),
    ({"kind": "constant_user_lookup"}, "sin(theta/a)*cos(theta/a)", 0.0, 4.7, "corpus"),
]


def cases(ctx):
    rng = ctx.rng
    out = list(CORPUS)
    # every key x every pulse family x designed (theta, a) grid
    for key in KEYS:
        for pf in ("constant", "constant_numerical", "gaussian", "user"):
            for tf, af in (("gate", "one"), ("gate", "cr"), ("moderate", "random"), ("zero", "random"), ("zero", "one"),
                           ("tiny", "random"), ("large", "random"), ("large", "cr")):
                out.append((pulse_of(rng, pf), key, theta_of(rng, tf), a_of(rng, af), f"{tf}/{af}"))
    n_random = 12000 if ctx.thorough else 1500
    for _ in range(n_random):
        pf = rng.choices(("constant", "constant_numerical", "constant_user_lookup", "gaussian", "user"), (3, 2, 1, 6, 5))[0]
        tf = rng.choices(("gate", "moderate", "tiny", "large", "zero"), (3, 4, 2, 2, 1))[0]
        af = rng.choices(("one", "cr", "random"), (2, 2, 5))[0]
        out.append((pulse_of(rng, pf), rng.choice(KEYS), theta_of(rng, tf), a_of(rng, af), f"{tf}/{af}"))
    return out


# ------------------------------------------------------------------------------------------ translation validation
def translation_validation(ctx, ex):
    """the IR the theorems talk about computes what the code computes"""
    import scipy.integrate
    from quantum_gates._gates.integrator import Integrator
    from quantum_gates._gates import pulse as P
    rng = ctx.rng
    mism, n = [], 0
    close = lambda x, y, scale=1.0: abs(x - y) <= 1e-11 * max(1.0, abs(y), scale)

    def ir_value(ir, env):
        try:
            return pyexpr.evaluate(ir, env)
        except ZeroDivisionError:
            return float("nan")                                # numpy: 0/0 -> nan ; the `*_defined_*` predicate is false

    pulses = [({"kind": "gaussian", "loc": 0.5, "scale": 0.25}, None), ({"kind": "user", "name": "quadratic"}, None),
              ({"kind": "constant_numerical"}, None), ({"kind": "gaussian", "loc": 0.2, "scale": 0.07}, None)]
    pulses = [(s, make_pulse(s)) for s, _ in pulses]
    I0 = Integrator(P.ConstantPulse())
    reps = 40 if ctx.thorough else 10
    for key, r in ex["keys"].items():
        for j in range(reps):
            theta = rng.choice((-1, 1)) * (rng.uniform(1e-3, 7) if j % 3 else rng.uniform(7, 50))
            if j == 0:
                theta = 0.0
            if j == 1:
                theta = -0.0
            a = rng.choice((1, 1.0, 3.7, rng.uniform(0.1, 12)))
            env = {"theta": theta, "a": a}
            with warnings.catch_warnings():
                warnings.simplefilter("ignore")
                checks = [("integrand", ir_value(r["integrand"], env), float(Integrator._INTEGRAL_LOOKUP[key](theta, a))),
                          ("result", ir_value(r["result"], env), float(Integrator._RESULT_LOOKUP[key](theta, a))),
                          ("analytic", ir_value(r["analytic"], env), float(I0._analytical_integration(key, theta, a)))]
            for what, vi, vr in checks:
                n += 1
                if not ((math.isnan(vi) and math.isnan(vr)) or close(vi, vr, a)):
                    mism.append((what, key, theta, a, vi, vr))
            # the function handed to quad and its bounds, captured on the real call
            spec, pulse = pulses[j % len(pulses)]
            captured = {}

            def spy(f, lo, hi, *args, **kw):
                captured.update(f=f, lo=lo, hi=hi, extra=(args, kw))
                return (0.0, 0.0)
            real_quad = scipy.integrate.quad
            scipy.integrate.quad = spy
            try:
                Integrator(pulse)._numerical_integration(key, theta, a)
            finally:
                scipy.integrate.quad = real_quad
            n += 1
            if "f" not in captured or captured["extra"] != ((), {}):
                mism.append(("quad call", key, theta, a, str(captured.get("extra")), "(f, lo, hi)")); continue
            lo, hi = ir_value(r["lower"], env), ir_value(r["upper"], env)
            if not (lo == captured["lo"] and hi == captured["hi"]):
                mism.append(("quad bounds", key, theta, a, (lo, hi), (captured["lo"], captured["hi"])))
            F = pulse.get_parametrization()
            for t in (0.0, float(a), rng.uniform(0, a), rng.uniform(0, a), rng.uniform(0, a)):
                n += 1
                vi = gen.evaluate_with_F(r["numeric_integrand"], r["placeholders"], dict(env, t=t), lambda u: float(F(u)))
                vr = float(captured["f"](t))
                if not close(vi, vr):
                    mism.append(("numeric integrand", key, (theta, t), a, vi, vr))
    # dispatch, cache key, input validation of `integrate`
    integ = ex["integrate"]
    for spec in ({"kind": "constant"}, {"kind": "constant_numerical"}, {"kind": "user", "name": "sin2"}):
        pulse = make_pulse(spec)
        for key in KEYS[:3]:
            theta, a = rng.uniform(0.2, 3), rng.uniform(0.5, 5)
            I = Integrator(pulse)
            v = I.integrate(key, theta, a)
            direct = (I._analytical_integration if pulse.use_lookup else I._numerical_integration)(key, theta, a)
            n += 2
            if not same_float(v, direct):
                mism.append(("dispatch", key, theta, a, float(v), float(direct)))
            actual = dict(zip(integ["args"], (key, theta, a)))
            want_key = tuple(actual[f] for f in integ["cache_key"])
            if list(I._cache.keys()) != [want_key]:
                mism.append(("cache key", key, theta, a, list(I._cache.keys()), want_key))
    # the recorded argument coercion (`theta, a = float(theta), float(a)`, present or absent) is what the object does: the
    # stored key holds Python floats iff the statement was extracted, and the value is the one for the same real numbers
    I = Integrator(P.ConstantPulse())
    v_int, v_flt = I.integrate(KEYS[0], 1, 2), Integrator(P.ConstantPulse()).integrate(KEYS[0], 1.0, 2.0)
    stored = list(I._cache.keys())[0]
    n += 2
    coerced = all(type(x) is float for x in stored[1:])
    if coerced != bool(integ.get("coercion")) or (not coerced and not all(type(x) is int for x in stored[1:])):
        mism.append(("argument coercion", KEYS[0], 1, 2, [type(x).__name__ for x in stored], integ.get("coercion")))
    if not same_float(v_int, v_flt):
        mism.append(("argument coercion value", KEYS[0], 1, 2, float(v_int), float(v_flt)))
    for bad in (("sin(theta)", 1.0, 1.0), (KEYS[0], 1.0, 0.0), (KEYS[0], 1.0, -2.0)):
        n += 1
        try:
            Integrator(P.ConstantPulse()).integrate(*bad)
            mism.append(("input validation", bad[0], bad[1], bad[2], "returned", "AssertionError"))
        except AssertionError:
            pass
        except Exception as e:                                 # noqa
            mism.append(("input validation", bad[0], bad[1], bad[2], type(e).__name__, "AssertionError"))
    # pulse.py facts the `integrate_spec` hypothesis `use_lookup -> F = id` rests on
    for cls, fact in ex["pulse_facts"].items():
        p = getattr(P, cls)() if cls != "GaussianPulse" else P.GaussianPulse(loc=0.4, scale=0.3)
        n += 1
        is_id = p.get_parametrization() is P.identity and P.identity(0.37) == 0.37
        if p.use_lookup != fact["use_lookup"] or is_id != (fact["parametrization"] == "identity") or (p.use_lookup and not is_id):
            mism.append(("pulse fact", cls, 0, 0, (p.use_lookup, p.get_parametrization()), fact))
    return n, mism


# ------------------------------------------------------------------------------------------ floating point (a test)
def fp_cancellation(ctx):
    """closed forms vs reference for tiny |theta| on a logarithmic grid: a TEST, outside the theorems"""
    from quantum_gates._gates.integrator import Integrator
    from quantum_gates._gates import pulse as P
    step = 0.125 if ctx.thorough else 0.25
    exps = [-12 + step * i for i in range(int(12 / step) + 1)]
    ident = lambda u: u
    per_key, n = {}, 0
    for key in KEYS:
        worst, exceed, worst_num = (0.0, None, None), [], (0.0, None, None)
        for a in (1.0, 4.714285714285714):
            Ia, In = Integrator(P.ConstantPulse()), Integrator(P.ConstantPulseNumerical())
            for e in exps:
                for s in (1, -1):
                    theta = s * 10.0 ** e
                    ref = reference(key, ident, theta, a, [], nodes=64)
                    with warnings.catch_warnings():
                        warnings.simplefilter("ignore")
                        va, vn = float(Ia.integrate(key, theta, a)), float(In.integrate(key, theta, a))
                    n += 2
                    ea, en = abs(va - ref) / a, abs(vn - ref) / a
                    if not ea <= worst[0]:
                        worst = (ea, theta, a)
                    if not en <= worst_num[0]:
                        worst_num = (en, theta, a)
                    if not ea <= ABS_TOL:
                        exceed.append((abs(theta), ea, a, va, ref))
        per_key[key] = {"lookup_max_abs_err_over_a": worst[0], "at_theta": worst[1], "at_a": worst[2],
                        "numerical_max_abs_err_over_a": worst_num[0], "numerical_at_theta": worst_num[1],
                        "lookup_exceeds_1e-9a_for_abs_theta_in": [min(x[0] for x in exceed), max(x[0] for x in exceed)] if exceed else None,
                        "grid_points_exceeding": len(exceed),
                        "worst_example": ({"theta": max(exceed, key=lambda x: x[1])[0], "a": max(exceed, key=lambda x: x[1])[2],
                                           "lookup": max(exceed, key=lambda x: x[1])[3], "reference": max(exceed, key=lambda x: x[1])[4]}
                                          if exceed else None)}
    return n, {"grid": f"theta = +-10^e, e = -12..0 step {step}; a in (1, 4.714..); lookup (ConstantPulse) and numerical "
                       "(ConstantPulseNumerical) branch vs 64-node composite Gauss-Legendre reference",
               "tolerance": "absolute 1e-9*a", "per_key": per_key}


# ------------------------------------------------------------------------------------------ main
def main(ctx):
    cov = ctx.coverage
    tie_broken, ex = None, None
    try:
        ex = gen.generate()
    except (pyexpr.Unsupported, SyntaxError, OSError) as e:
        tie_broken = f"translator fails closed on integrator.py / pulse.py: {e}"
    lean = ctx.lean("QG.Props.C12") if tie_broken is None else None

    tv_n, tv_mismatch = (0, [])
    if ex is not None:
        try:
            tv_n, tv_mismatch = translation_validation(ctx, ex)
        except Exception as e:                                 # noqa
            tv_mismatch = [("translation validation raised", type(e).__name__, str(e))]
    ctx.count(tv_n)

    cs = cases(ctx)
    pulses = {}
    quad_limited = []
    fails, nontrivial, hist = [], set(), {"pulse": {}, "theta": {}, "a": {}, "key": {}, "warnings": {}}
    bump = lambda h, k: hist[h].__setitem__(k, hist[h].get(k, 0) + 1)
    for spec, key, theta, a, label in cs:
        ctx.count()
        pk = json.dumps(spec, sort_keys=True)
        if pk not in pulses:
            pulses[pk] = make_pulse(spec)
        bad, rec = judge(spec, key, theta, a, pulses[pk])
        bump("pulse", spec["kind"] + (":" + spec["name"] if "name" in spec else ""))
        tf, af = (label.split("/") + ["corpus"])[:2] if label != "corpus" else ("corpus", "corpus")
        bump("theta", tf); bump("a", af); bump("key", key)
        for wk in rec.get("warnings", []):
            bump("warnings", wk)
        if (not is_constant(spec) and a != 1) or theta == 0 or abs(theta) < 1e-3 or abs(theta) > 10 or theta < 0:
            nontrivial.add(core.sha([spec, key, repr(theta), repr(a)]))
        if "quad_limited" in rec:
            quad_limited.append({"pulse": spec, "key": key, "theta": theta, "a": a, **rec["quad_limited"]})
        if bad:
            fails.append((spec, key, theta, a, bad, rec))
    # cached and uncached evaluations are identical also after a LONG history on one integrator object (thousands of distinct
    # requests in between)
    lh = long_history_case(ctx.rng, 12000 if ctx.thorough else 5000)
    ctx.count(lh[0])
    cov["long_history_requests"] = lh[0]
    if lh[1]:
        spec0 = {"kind": "constant"}
        key0, th0, a0, text = lh[1]
        fails.append((spec0, key0, th0, a0, text, {"expected": None, "observed": None, "warnings": [], "history": lh[0]}))
    n_il = 24 if ctx.thorough else 6
    for _ in range(n_il):
        desc, bad = interleaved_case(ctx.rng)
        ctx.count()
        if bad:
            fails.append(({"kind": "user", "name": "hooked (30 x^2 (1-x)^2), second request from another thread inside the quadrature"},
                          desc, 0.0, 1.0, bad, {"expected": None, "observed": None, "warnings": [], "interleaved": desc}))
            break
    cov["interleaved_requests_on_one_integrator"] = n_il
    for k in (1, len(CORPUS) + 3, len(cs) - 1):
        spec, key, theta, a, _ = cs[k]
        ctx.sample({"pulse": spec, "key": key, "theta": theta, "a": a, "integrate": run_impl(pulses[json.dumps(spec, sort_keys=True)], key, theta, a)[0]})

    fp_n, fp = fp_cancellation(ctx)
    ctx.count(fp_n)
    exceeding = {k: v for k, v in fp["per_key"].items() if v["grid_points_exceeding"]}
    fp["judgement"] = (
        "no grid point exceeds the tolerance" if not exceeding else
        "the lookup exceeds 1e-9*a only for " + "; ".join(
            f"key {k!r}, |theta| in [{v['lookup_exceeds_1e-9a_for_abs_theta_in'][0]:.3g}, {v['lookup_exceeds_1e-9a_for_abs_theta_in'][1]:.3g}] "
            f"(max error {v['lookup_max_abs_err_over_a']:.3g}*a)" for k, v in exceeding.items()) +
        ": rounding of `1 - cos(theta)` (cos(theta) rounds to 1 below |theta| ~ 1e-8) divided by theta; the absolute error never "
        "exceeds ~5.6e-9*a, which is below the absolute accuracy scipy.integrate.quad itself promises for the numerical branch "
        "(epsabs = 1.49e-8); it does not contradict 'agree for all theta' read with an absolute tolerance of 1e-8*a, but the "
        "relative error of this (tiny) covariance entry is 100% there; not a theorem-level defect (the real-number formula is right)")
    cov["fp_cancellation_test"] = fp
    if exceeding:
        print(f"[{ctx.pid}] NOTE (floating point, outside the theorems): " + fp["judgement"][:400])

    cov["distinct_nontrivial"] = len(nontrivial)
    cov["rule"] = ("cases = (pulse, key, theta, a): every key x {ConstantPulse (lookup), ConstantPulseNumerical, Gaussian(loc, scale), "
                   "user-defined monotone pulses built with the repo's Pulse class (x^2, x^3, sin^2(pi x/2), smoothstep, two-slope)} x "
                   "{gate angles, moderate, zero (0.0/-0.0/0), tiny 1e-8..1e-3, large 10..50, both signs} x {a=1, cross-resonance ratios, "
                   "log-uniform (0.1,12)}, then random; non-trivial = distinct case with (non-constant pulse and a != 1) or theta == 0 or "
                   "|theta| < 1e-3 or |theta| > 10 or theta < 0")
    cov["programs"] = 1
    cov["oracle_cases"] = len(cs)
    cov["oracle_failures"] = len(fails)
    cov["histogram"] = hist
    cov["quad_limited_cases"] = {
        "meaning": "numerical-branch cases that miss the tight tolerance but lie within the error scipy.integrate.quad reports on the "
                   "specified integrand (<= its default tolerance 1.49e-8): accuracy of quad with default options, not a defect",
        "count": len(quad_limited), "worst": sorted(quad_limited, key=lambda r: -r["deviation"])[:3]}
    cov["translation_validation_cases"] = tv_n
    cov["translation_validation_mismatches"] = len(tv_mismatch)
    cov["cache_key_fields"] = list(ex["integrate"]["cache_key"]) if ex else None
    cov["argument_coercion"] = ex["integrate"].get("coercion") if ex else None
    cov["trusted_base"] += [
        "translator harness/qgv/pyexpr.py + harness/gen/integrator.py (Python AST -> IR -> Lean), validated on every run: IR of the 16 "
        "table lambdas, of _analytical_integration and of the function handed to scipy.integrate.quad (captured by a spy, bounds "
        "included) evaluated against the real objects; dispatch / cache key / asserts of `integrate` observed on the real object",
        "scipy.integrate.quad(f, 0, a)[0] IS the integral of f over [0, a] (within its tolerance; IntegrationWarnings are counted in "
        "the histogram); np.sin / np.cos / float arithmetic denote the real operations (rounding, in particular cancellation of the "
        "closed forms for tiny |theta|, is outside the theorems and measured by fp_cancellation_test)",
        "the parametrisation F is a total function R -> R (a user callable that raises or returns nan is outside the model); "
        "numpy's nan for 0/0 is modelled by the generated `*_defined_*` predicates, not by Lean's x/0 = 0",
        "reference oracle: composite 200-node Gauss-Legendre quadrature with subinterval boundaries at a*(loc +- k*scale) and kinks",
    ]
    ctx.assumptions += ["a > 0 (validated by `integrate`); theta any real; F = pulse.get_parametrization()",
                        "theta and a are real numbers (int / bool / float / numpy scalar): `float(theta), float(a)` at the top of "
                        "`integrate`, when present, is the identity on the number denoted (a non-numeric argument raises there; outside C12)",
                        "use_lookup is only set together with F = identity (documented contract of Pulse.use_lookup; extracted from "
                        "pulse.py for ConstantPulse / ConstantPulseNumerical / GaussianPulse and checked on the objects); a user who "
                        "builds Pulse(non-constant F, use_lookup=True) gets the constant-pulse value by design",
                        f"numeric oracle tolerance max({REL_TOL} relative, {ABS_TOL}*a absolute); on the numerical branch additionally "
                        f"the error quad itself reports on the specified integrand, capped by {QUAD_EPS}*max(1,|I|) (counted: quad_limited_cases)",
                        "cached = uncached over arbitrary histories is C10; here each case is evaluated twice and on a fresh Integrator"]

    # ---- verdicts: one VIOLATION per class of failing input, the first (designed / simplest) case as replay
    seen = {}
    for spec, key, theta, a, bad, rec in fails:
        sig = classify(spec, key, theta, a)
        k = json.dumps(sig, sort_keys=True)
        seen.setdefault(k, []).append((spec, key, theta, a, bad, rec))
    for k, lst in seen.items():
        spec, key, theta, a, bad, rec = lst[0]
        sig = json.loads(k)
        cov.setdefault("failing_classes", {})[sig["branch"] + ": " + sig["class"]] = len(lst)
        ctx.violation(sig, {"pulse": spec, "key": key, "theta": theta, "theta_repr": repr(theta), "a": a, **rec,
                            "failing_cases_in_class": len(lst)},
                      f"Integrator({spec}).integrate({key!r}, {theta!r}, {a!r}): {bad}")
    if not fails:
        broken = tie_broken or (None if lean.ok else f"Lean obligations fail: {sorted(lean.failed)[:6]}") or \
            (f"translation validation: IR and implementation differ: {tv_mismatch[0]}" if tv_mismatch else None)
        if broken:
            ctx.violation({"kind": "tie"}, {"broken": broken, "tv_mismatches": [list(map(str, m)) for m in tv_mismatch[:5]]},
                          broken + "; the numeric oracle found no failing input", no_failing_input=True)
    elif tv_mismatch or tie_broken:
        print(f"[{ctx.pid}] additionally the tie is broken: {tie_broken or tv_mismatch[0]}")


def replay(ctx, path):
    rp = json.load(open(path))["replay"]
    if "key" not in rp:
        print("replay names a broken obligation:", json.dumps(rp)[:600]); return 1
    if rp.get("interleaved"):
        import random
        for sd in range(60):
            desc, bad = interleaved_case(random.Random(sd))
            if bad:
                print(desc); print("oracle:", bad); return 1
        print("interleaved requests on one integrator: oracle holds on 60 schedules"); return 0
    theta = rp["theta"]
    if rp.get("theta_repr") in ("0", "-0.0", "0.0"):
        theta = {"0": 0, "-0.0": -0.0, "0.0": 0.0}[rp["theta_repr"]]
    bad, rec = judge(rp["pulse"], rp["key"], theta, rp["a"])
    print(f"Integrator({rp['pulse']}).integrate({rp['key']!r}, {theta!r}, {rp['a']!r}) = {rec['observed']} | "
          f"independent quadrature of g(theta*F(t/a)) over [0,a] = {rec['expected']!r} | oracle: {bad or 'holds'}"
          + (f" (within the error quad reports on the specified integrand: {rec['quad_limited']})" if "quad_limited" in rec else ""))
    return 1 if bad else 0
