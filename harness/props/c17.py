"""C17 — the Hellinger distance is a bounded metric on distributions.

Tie: translator (source text of compute_Hellinger_distance -> IR -> lean/QG/Gen/Hellinger.lean, regenerated on
every run) + translation validation (IR evaluated numerically vs the real function).
Lean: QG.Props.C17 (hellinger_sq/_formula/_nonneg/_le_one/_eq_zero_iff/_eq_one_iff/_symm/_triangle).
Oracle: the statement of C17 evaluated numerically on the real function.
"""
import json, math
import numpy as np
from qgv import core, pyexpr
from gen import hellinger as gen


def impl(p, q, n):
    """p, q are handed over AS THEY ARE (lists, float or integer arrays): the caller keeps using the same objects"""
    from quantum_gates._utility.simulations_utility import compute_Hellinger_distance
    return float(compute_Hellinger_distance(p, q, n))


def as_given(rng, v):
    """the container a caller may hold a probability vector in: float64 array (mostly), list, or - for vectors with
    integer entries such as point masses - an integer array"""
    r = rng.random()
    if all(float(x).is_integer() for x in v) and r < 0.5:
        return np.array([int(x) for x in v])
    if r < 0.15:
        return list(v)
    return np.array(v, dtype=float)


def snapshot(x):
    return x.tobytes() if isinstance(x, np.ndarray) else repr(x)


def rand_dist(rng, n, kind):
    N = 2 ** n
    if kind == "dense":
        v = [rng.random() for _ in range(N)]
    elif kind == "sparse":
        v = [0.0] * N
        for i in rng.sample(range(N), max(1, N // 8)):
            v[i] = rng.random() + 1e-3
    elif kind == "point":
        v = [0.0] * N; v[rng.randrange(N)] = 1.0
    elif kind == "skewed":
        v = [rng.random() ** 8 for _ in range(N)]
    else:
        v = [1.0] * N
    s = math.fsum(v)
    return [x / s for x in v]


def cases(ctx):
    rng = ctx.rng
    out = []
    kinds = ["dense", "sparse", "point", "skewed", "uniform"]
    for n in range(1, (11 if ctx.thorough else 8)):
        for _ in range(40 if ctx.thorough else 12):
            k1, k2 = rng.choice(kinds), rng.choice(kinds)
            p, q = rand_dist(rng, n, k1), rand_dist(rng, n, k2)
            out.append((n, p, q, f"{k1}/{k2}"))
        # near-identical
        p = rand_dist(rng, n, "dense")
        eps = 10.0 ** (-rng.randint(3, 9))
        q = [max(0.0, x + eps * (rng.random() - 0.5)) for x in p]; s = math.fsum(q); q = [x / s for x in q]
        out.append((n, p, q, "near-identical"))
        out.append((n, p, list(p), "identical"))
        # distinct vectors inside numpy's default closeness tolerance: a ~1e-8 entry on different outcomes (H^2 ~ 1e-8)
        if n >= 2:
            N = 2 ** n
            base = rand_dist(rng, n, "sparse")
            zeros = [i for i in range(N) if base[i] == 0.0]
            if len(zeros) >= 2:
                i, j = rng.sample(zeros, 2)
                t = rng.choice([1e-8, 5e-9, 2e-8])
                p2 = list(base); p2[i] = t; s2 = math.fsum(p2); p2 = [x / s2 for x in p2]
                q2 = list(base); q2[j] = t; s2 = math.fsum(q2); q2 = [x / s2 for x in q2]
                out.append((n, p2, q2, "near-identical-sparse"))
        # disjoint supports
        N = 2 ** n
        a = [rng.random() + 0.01 if i % 2 == 0 else 0.0 for i in range(N)]
        b = [rng.random() + 0.01 if i % 2 == 1 else 0.0 for i in range(N)]
        sa, sb = math.fsum(a), math.fsum(b)
        out.append((n, [x / sa for x in a], [x / sb for x in b], "disjoint"))
    # a large register (2^17 outcomes): point masses at both ends (disjoint), and vectors that differ only on the upper half
    n = 17
    N = 2 ** n
    a = [0.0] * N; a[0] = 1.0
    b = [0.0] * N; b[N - 1] = 1.0
    out.append((n, a, b, "disjoint"))
    u = [1.0 / N] * N
    v = list(u); v[N - 1] = 0.0; v[N - 2] = 2.0 / N
    out.append((n, u, v, "dense/dense"))
    return out


def oracle(n, p, q, r, kind, rng=None):
    """C17 evaluated on the real function; returns None or a failure text.  The vectors are materialised ONCE in the
    container a caller would hold them in and the same objects are used for every call of the case (H(p,q), H(q,p), the
    triangle), and must come back unchanged."""
    import random
    rng = rng or random.Random(len(p) * 7919 + int(1e6 * p[0]))
    pl, ql, rl = p, q, r
    p, q = as_given(rng, pl), as_given(rng, ql)
    r = as_given(rng, rl) if rl is not None else None
    keep = [snapshot(x) for x in (p, q, r) if x is not None]
    bad = _oracle(n, p, q, r, kind, pl, ql)
    if bad:
        return bad
    if [snapshot(x) for x in (p, q, r) if x is not None] != keep:
        return "an input vector was modified by the call"
    if impl(p, p, n) != 0.0:
        return f"H(p,p) on one and the same object is {impl(p, p, n)!r}, not 0"
    # both vectors as plain Python lists (equal-length lists of floats)
    hl = impl(list(pl), list(ql), n)
    bc0 = math.fsum(math.sqrt(a * b) for a, b in zip(pl, ql))
    if not abs(hl * hl - (1.0 - bc0)) <= 1e-12:
        return f"with both vectors given as lists H^2={hl*hl!r}, 1-sum sqrt(p q)={1.0-bc0!r}"
    # the same array OBJECT as second argument again, with new contents written into it in place
    if rl is not None and isinstance(q, np.ndarray) and q.dtype.kind == "f":
        q[:] = rl
        h3 = impl(p, q, n)
        bc3 = math.fsum(math.sqrt(a * b) for a, b in zip(pl, rl))
        q[:] = ql
        if not abs(h3 * h3 - (1.0 - bc3)) <= 1e-12:
            return (f"after the second argument's array was refilled in place with another vector, H^2={h3*h3!r}, "
                    f"1-sum sqrt(p q)={1.0-bc3!r} (the call still uses the earlier contents)")
    h2 = impl(p, q, n)                              # once more on the same objects
    bc = math.fsum(math.sqrt(a * b) for a, b in zip(pl, ql))
    if not abs(h2 * h2 - (1.0 - bc)) <= 1e-12:
        return f"a repeated call on the same objects gives H^2={h2*h2!r}, 1-sum sqrt(p q)={1.0-bc!r}"
    return None


def _oracle(n, p, q, r, kind, pl, ql):
    try:
        h = impl(p, q, n)
    except Exception as e:                        # noqa
        return f"raised {type(e).__name__}: {e}"
    bc = math.fsum(math.sqrt(a * b) for a, b in zip(pl, ql))
    if not abs(h * h - (1.0 - bc)) <= 1e-12:
        return f"H^2={h*h!r} differs from 1-sum sqrt(p q)={1.0-bc!r}"
    if not (-1e-15 <= h <= 1.0 + 1e-12):
        return f"H={h!r} outside [0,1]"
    if abs(impl(q, p, n) - h) > 1e-15:
        return "not symmetric"
    if kind == "identical" and h != 0.0:
        return f"H(p,p)={h!r} is not 0"
    if kind == "disjoint" and abs(h - 1.0) > 1e-12:
        return f"disjoint supports give H={h!r}, not 1"
    if kind not in ("identical", "near-identical") and pl != ql and max(abs(a - b) for a, b in zip(pl, ql)) > 1e-6 and h <= 0.0:
        return "distinct vectors at distance 0"
    if kind != "disjoint" and bc > 1e-9 and h >= 1.0:
        return "overlapping supports at distance 1"
    if r is not None:
        if impl(p, r, n) > h + impl(q, r, n) + 1e-12:
            return "triangle inequality fails"
    return None


def main(ctx):
    cov = ctx.coverage
    tie_broken = None
    try:
        args, ir = gen.generate()
    except (pyexpr.Unsupported, SyntaxError, OSError) as e:
        tie_broken = f"translator fails closed on compute_Hellinger_distance: {e}"
        ir = None
    lean = ctx.lean("QG.Props.C17") if tie_broken is None else None
    cs = cases(ctx)
    fails, tv_mismatch, nontrivial = [], [], set()
    for idx, (n, p, q, kind) in enumerate(cs):
        ctx.count()
        r = cs[(idx + 1) % len(cs)][1] if cs[(idx + 1) % len(cs)][0] == n else None
        bad = oracle(n, p, q, r, kind)
        if bad:
            fails.append((n, p, q, kind, bad, r))
        if kind != "identical":
            nontrivial.add(core.sha([n, p, q]))
        if ir is not None:
            try:
                v_ir = pyexpr.evaluate(ir, {args[0]: p, args[1]: q, args[2]: n})
                v_im = impl(p, q, n)
                if not abs(v_ir - v_im) <= 1e-13 * max(1.0, abs(v_im)):
                    tv_mismatch.append((n, kind, v_ir, v_im))
            except Exception as e:              # noqa
                tv_mismatch.append((n, kind, "IR evaluation failed", str(e)))
    ctx.sample({"n": cs[0][0], "kind": cs[0][3], "p": cs[0][1], "q": cs[0][2], "H_impl": impl(cs[0][1], cs[0][2], cs[0][0])})
    cov["distinct_nontrivial"] = len(nontrivial)
    cov["rule"] = ("pairs (and triples) of probability vectors over 2^n outcomes, n=1..7 (10 thorough): dense, sparse, point, "
                   "skewed, uniform, near-identical (1e-3..1e-9), identical, disjoint supports; non-trivial = distinct pair p != q")
    cov["programs"] = 1
    cov["translation_validation_cases"] = len(cs) if ir is not None else 0
    cov["translation_validation_mismatches"] = len(tv_mismatch)
    cov["kind_histogram"] = {k: sum(1 for c in cs if c[3] == k) for k in sorted({c[3] for c in cs})}
    cov["trusted_base"] += ["translator harness/qgv/pyexpr.py + harness/gen/hellinger.py (Python AST -> IR -> Lean), validated on "
                            "every run by evaluating the IR against the real function",
                            "numpy sqrt / element-wise arithmetic denote the real operations (rounding is outside the theorems)"]
    ctx.assumptions += ["vectors are probability vectors (non-negative, sum 1) of length 2^n", "exact real arithmetic; numeric "
                        "oracle tolerances 1e-12 (on H^2) / 1e-15 (symmetry)"]
    for n, p, q, kind, bad, r in fails[:3]:
        ctx.violation({"kind": "oracle", "case": kind}, {"n": n, "p": p, "q": q, "r": r, "case": kind, "failure": bad},
                      f"compute_Hellinger_distance on a {kind} pair (n={n}): {bad}")
    if not fails:
        broken = tie_broken or (None if lean.ok else f"Lean obligations fail: {lean.failed}") or \
            (f"translation validation: IR and implementation differ {tv_mismatch[0]}" if tv_mismatch else None)
        if broken:
            ctx.violation({"kind": "tie"}, {"broken": broken}, broken + "; the numeric oracle found no failing input",
                          no_failing_input=True)


def replay(ctx, path):
    rp = json.load(open(path))["replay"]
    if "p" not in rp:
        print("replay names a broken obligation:", json.dumps(rp)[:400]); return 1
    bad = oracle(rp["n"], rp["p"], rp["q"], rp.get("r"), rp.get("case", "replay"))
    print("H_impl =", impl(np.array(rp["p"]), np.array(rp["q"]), rp["n"]), "| oracle:", bad or "holds")
    return 1 if bad else 0
