"""C04 — elementary noisy gates follow the Lindblad noisy-gate model.

Tie: translator (factories.py / integrator.py source text -> lean/QG/Gen/Factories.lean on every run) + translation validation.
Lean: QG.Props.C04 (15 generator decompositions U^dag L U = code matrix at the basis functions, covariance tables = Ito isometry
for that basis, drifts, strengths, the T1/T2 channel as a Gaussian shot average).
Oracle (independent of the translator): the real factories are run with one injected unit sample at a time while the argument
of scipy.linalg.expm is intercepted; the intercepted generator is compared with explicit conjugation U(t)^dag L U(t) on a time
grid; the covariance handed to multivariate_normal with quadrature of f_i f_j; the drift with quadrature; the relaxation channel
with a Monte-Carlo average (labelled a test).
"""
import json, math
import numpy as np
import scipy.linalg
from qgv import core, gatecheck as gc

TG = 35e-9
X = np.array([[0, 1], [1, 0]], complex); Y = np.array([[0, -1j], [1j, 0]]); Z = np.diag([1, -1]).astype(complex)
SM = np.array([[0, 1], [0, 0]], complex); I2 = np.eye(2, dtype=complex); P1 = np.array([[0, 0], [0, 1]], complex)
FB = {"sin": np.sin, "s2": lambda t: np.sin(t / 2) ** 2, "one": lambda t: 1.0 + 0 * t, "cos": np.cos}
K = np.kron


class Inject:
    def __init__(self, which, comp):
        self.which, self.comp, self.k, self.covs = which, comp, 0, []

    def mvn(self, mean, cov, size=None):
        d = len(mean); v = np.zeros((1, d))
        self.covs.append((self.k, np.array(cov, dtype=float)))
        if self.k == self.which:
            v[0, self.comp] = 1.0
        self.k += 1
        return v

    def normal(self, m, s=1.0):
        self.covs.append((self.k, np.array([[float(s) ** 2]])))
        v = 1.0 if (self.k == self.which and self.comp == 0) else 0.0
        self.k += 1
        return v


def capture(fn, inj):
    import quantum_gates._gates.factories as F
    caps = []
    orig = scipy.linalg.expm

    def fake(A):
        caps.append(np.array(A)); return orig(A)
    F.scipy.linalg.expm = fake
    om, on = np.random.multivariate_normal, np.random.normal
    np.random.multivariate_normal, np.random.normal = inj.mvn, inj.normal
    try:
        with np.errstate(all="ignore"):
            fn()
    finally:
        F.scipy.linalg.expm = orig; np.random.multivariate_normal, np.random.normal = om, on
    return caps


def Us(th, phi):
    return scipy.linalg.expm(-1j * th / 2 * (np.cos(phi) * X + np.sin(phi) * Y))


def Ucr(th, phi):
    return scipy.linalg.expm(-1j * th / 2 * K(Z, np.cos(phi) * X + np.sin(phi) * Y))


def grid(a, n=2000):
    return (np.arange(n) + 0.5) * (a / n), a / n


def cov_want(fs, ang, dt):
    """Ito isometry matrix: integrals of f_i f_j along the instantaneous angles `ang` (midpoint rule, vectorised)"""
    vals = [FB[f](ang) * np.ones_like(ang) for f in fs]
    return np.array([[float(np.sum(vi * vj) * dt) for vj in vals] for vi in vals])


def quad_mat(f, ts, dt):
    return sum(f(t) for t in ts) * dt


def strength_e1(T1):
    """sqrt(tg/T1); T1 = 0 means 'relaxation off'"""
    return 0.0 if T1 == 0 else math.sqrt(TG / T1)


def strength_ep(T1, T2):
    """sqrt((tg/T2 - tg/(2 T1))/2); T2 = 0 means 'dephasing off', T1 = 0 drops the T1 term"""
    if T2 == 0:
        return 0.0
    return math.sqrt(0.5 * (TG / T2 - (0.0 if T1 == 0 else TG / T1 / 2)))


_OBJECTS = {}


def factory_for(pd, kind):
    """ONE pulse / integrator / factory object per pulse description serves all cases of the run (as inside a gate set):
    a sample must follow the model whatever was requested from the object before"""
    import quantum_gates._gates.factories as F
    from quantum_gates._gates.integrator import Integrator
    key = json.dumps(pd)
    if key not in _OBJECTS:
        # the public way to get the elementary gates of a pulse: a `Gates` object (its factories share the gate set's integrator);
        # every pulse description of the run gets its own, all alive at the same time
        from quantum_gates._gates.gates import Gates
        from types import SimpleNamespace
        pulse = gc.build_pulse(pd)
        g = Gates(pulse)
        _OBJECTS[key] = (pulse, SimpleNamespace(construct=g.single_qubit_gate, gates=g), SimpleNamespace(construct=g.CR, gates=g))
    pulse, sq, cr = _OBJECTS[key]
    return pulse, (sq if kind == "single" else cr)


def case_single(pd, theta, phi, p, T1, T2):
    pulse, sq = factory_for(pd, "single")
    Fp = pulse.get_parametrization()
    ed = math.sqrt(p / 4); e1 = strength_e1(T1); ep = strength_ep(T1, T2)
    spec = [("X", X, ed, ["sin", "s2", "one"]), ("Y", Y, ed, ["sin", "s2", "one"]), ("Z", Z, ed, ["cos", "sin"]),
            ("sigma-", SM, e1, ["sin", "s2", "one"]), ("Z-dephasing", Z, ep, ["cos", "sin"])]
    bad = []
    ts, dt = grid(1.0)
    ang = theta * np.asarray(Fp(ts), dtype=float)
    call = lambda: sq.construct(theta, phi, p, T1, T2)
    for w, (name, L, st, fs) in enumerate(spec):
        Ms, cov = [], None
        for c in range(len(fs)):
            inj = Inject(w, c)
            caps = capture(call, inj)
            if len(caps) < 2:
                return [f"single-qubit gate with p={p!r}, T1={T1!r}, T2={T2!r}: the sample was returned without exponentiating a noise generator "
                        f"(scipy.linalg.expm was called {len(caps)} time(s)); the {name} term (strength {st:.3e}) cannot be part of it"]
            Ms.append(caps[1] / 1j)
            cov = dict(inj.covs)[w]
        err = 0.0
        for t in np.linspace(0, theta, 7):
            Lt = Us(t, phi).conj().T @ L @ Us(t, phi) * st
            err = max(err, float(np.abs(Lt - sum(FB[f](t) * M for f, M in zip(fs, Ms))).max()))
        if not err <= 1e-12:
            bad.append(f"single-qubit generator of {name}: code matrix differs from strength*U(t)^dag L U(t) by {err:.3e}")
        want = cov_want(fs, ang, dt)
        if not np.abs(cov - want).max() <= 2e-6:
            bad.append(f"covariance of the {name} sampler differs from the Ito isometry integral f_i f_j by {np.abs(cov - want).max():.3e}")
    caps = capture(call, Inject(99, 0))
    ts2, dt2 = grid(1.0, 300)
    ang2 = theta * np.asarray(Fp(ts2), dtype=float)
    acc = quad_mat(lambda x: Us(x, phi).conj().T @ P1 @ Us(x, phi), ang2, dt2)
    err = float(np.abs(caps[0] - (-e1 ** 2 / 2 * acc)).max())
    if not err <= 2e-4 * e1 ** 2 + 1e-12:
        bad.append(f"single-qubit drift differs from -1/2 int (L^dag L - L^2) by {err:.3e}")
    return bad


def case_cr(pd, theta, phi, t_cr, pcr, T1c, T2c, T1t, T2t):
    pulse, cr = factory_for(pd, "cr")
    Fp = pulse.get_parametrization()
    a = t_cr / TG
    edc = math.sqrt(pcr / (4 * a)); e1c = strength_e1(T1c); e1t = strength_e1(T1t)
    epc = strength_ep(T1c, T2c); ept = strength_ep(T1t, T2t)
    spec = [("sigma-(x)1", K(SM, I2), e1c, ["cos", "sin"]), ("1(x)sigma-", K(I2, SM), e1t, ["sin", "s2", "one"]),
            ("Z(x)1 dephasing", K(Z, I2), epc, ["one"]), ("1(x)Z dephasing", K(I2, Z), ept, ["cos", "sin"]),
            ("X(x)1", K(X, I2), edc, ["cos", "sin"]), ("Y(x)1", K(Y, I2), edc, ["cos", "sin"]), ("Z(x)1", K(Z, I2), edc, ["one"]),
            ("1(x)X", K(I2, X), edc, ["sin", "s2", "one"]), ("1(x)Y", K(I2, Y), edc, ["sin", "s2", "one"]),
            ("1(x)Z", K(I2, Z), edc, ["cos", "sin"])]
    bad = []
    ts, dt = grid(a)
    ang = theta * np.asarray(Fp(ts / a), dtype=float)
    call = lambda: cr.construct(theta, phi, t_cr, pcr, T1c, T2c, T1t, T2t)
    for w, (name, L, st, fs) in enumerate(spec):
        Ms, cov = [], None
        for c in range(len(fs)):
            inj = Inject(w, c)
            caps = capture(call, inj)
            Ms.append(caps[1] / 1j)
            cov = dict(inj.covs)[w]
        err = 0.0
        for t in np.linspace(0, theta, 7):
            Lt = Ucr(t, phi).conj().T @ L @ Ucr(t, phi) * st
            err = max(err, float(np.abs(Lt - sum(FB[f](t) * M for f, M in zip(fs, Ms))).max()))
        if not err <= 1e-12:
            bad.append(f"CR generator of {name}: code matrix differs from strength*U(t)^dag L U(t) by {err:.3e}")
        want = cov_want(fs, ang, dt)
        if not np.abs(cov - want).max() <= 2e-6 * max(1.0, a):
            bad.append(f"covariance of the {name} sampler differs from the Ito isometry integral of f_i f_j by {np.abs(cov - want).max():.3e}")
    # the drift follows the pulse like everything else: the instantaneous angle is theta * F(t / a)
    caps = capture(call, Inject(99, 0))
    ts2, dt2 = grid(a, 300)
    ang2 = theta * np.asarray(Fp(ts2 / a), dtype=float)
    acc = quad_mat(lambda x: e1c ** 2 * (Ucr(x, phi).conj().T @ K(P1, I2) @ Ucr(x, phi))
                   + e1t ** 2 * (Ucr(x, phi).conj().T @ K(I2, P1) @ Ucr(x, phi)), ang2, dt2)
    err = float(np.abs(caps[0] - (-0.5 * acc)).max())
    if not err <= 2e-4 * a * (e1c ** 2 + e1t ** 2) + 1e-12:
        bad.append(f"CR drift differs from -1/2 int (L^dag L - L^2) along the pulse by {err:.3e} "
                   f"(relative to a*(e1c^2+e1t^2): {err / (a * (e1c ** 2 + e1t ** 2) + 1e-300):.3f})")
    return bad


def scaled_gate_set_cases(rng, pds, reps):
    """ScaledNoiseGates(s) is the gate set at the parameters (p*s, T1/s, T2/s): for every gate, the sample after a seed equals
    the sample of Gates on the same pulse at the scaled parameters after the same seed.  Returns list of failures."""
    from quantum_gates._gates.gates import Gates, ScaledNoiseGates
    from qgv import tv_factories as tv
    out = []
    for pd in pds:
        pulse = gc.build_pulse(pd)
        for _ in range(reps):
            sc = rng.choice([0.37, 2.5, 1.0, 1e-3])
            base, scaled = Gates(pulse), ScaledNoiseGates(noise_scaling=sc, pulse=pulse)
            for gate, names in gc.GATE_ARGS.items():
                args = tv.random_args(gate, names, rng)
                sargs = [(v * sc if (n.startswith("p") and not n.startswith("phi")) or n == "rout" else
                          (v / sc if n.startswith("T1") or n.startswith("T2") else v)) for n, v in zip(names, args)]
                seed = rng.randrange(2 ** 31)
                try:
                    np.random.seed(seed)
                    with np.errstate(all="ignore"):
                        A = np.array(getattr(scaled, gate)(*args), dtype=complex)
                    np.random.seed(seed)
                    with np.errstate(all="ignore"):
                        B = np.array(getattr(base, gate)(*sargs), dtype=complex)
                except Exception as e:          # noqa
                    out.append((gate, pd, [sc] + list(args), [f"ScaledNoiseGates({sc}).{gate} raised {type(e).__name__}: {e}"]))
                    continue
                if np.isfinite(B).all() and not (np.isfinite(A).all() and np.abs(A - B).max() <= 1e-12):
                    out.append((gate, pd, [sc] + list(args),
                                [f"ScaledNoiseGates({sc}).{gate}{tuple(round(a, 12) for a in args)} differs from Gates.{gate} at the scaled parameters "
                                 f"(p*s, T1/s, T2/s) after the same seed by {np.abs(A - B).max():.3e}"]))
    return out


class InjectZ:
    """every normal draw returns z_k times the standard deviation it was asked for (k-th call); records the calls"""
    def __init__(self, zs):
        self.zs, self.calls = list(zs), []

    def normal(self, m=0.0, s=1.0, size=None):
        k = len(self.calls)
        self.calls.append((float(m), float(s)))
        return float(m) + float(s) * (self.zs[k] if k < len(self.zs) else 0.0)

    def mvn(self, mean, cov, size=None):
        raise AssertionError("multivariate_normal is not expected in the exact samplers")


def with_draws(fn, zs):
    inj = InjectZ(zs)
    om, on = np.random.multivariate_normal, np.random.normal
    np.random.multivariate_normal, np.random.normal = inj.mvn, inj.normal
    try:
        with np.errstate(all="ignore"):
            G = np.array(fn(), dtype=complex)
    finally:
        np.random.multivariate_normal, np.random.normal = om, on
    return G, inj.calls


_GH = np.polynomial.hermite_e.hermegauss(48)          # nodes / weights for the standard normal (weights sum to sqrt(2 pi))


def exact_sampler_cases(rng, reps):
    """the three closed-form samplers (read-out bit flip, idle depolarisation, idle relaxation), through the factories AND the
    gate-set methods.  With the k-th normal draw forced to z_k standard deviations the returned matrix must be
      bit flip        exp(i sqrt(rout) z X)                                   [L = sqrt(rout/tm) X over the time tm]
      depolarisation  exp(i sqrt(p Dt / 4 tg) (z1 X + z2 Y + z3 Z))           [L = sqrt(p/4) {X,Y,Z} per gate time, three draws]
    and for the relaxation the Gaussian shot average of G rho G^dag (Gauss-Hermite quadrature over the draws, with the real
    function evaluated at every node) must be the T1/T2 channel to 1e-10."""
    import quantum_gates._gates.factories as F
    from quantum_gates._gates.gates import standard_gates, Gates, ScaledNoiseGates
    bad = []
    bf, dp, rx = F.BitflipFactory(), F.DepolarizingFactory(), F.RelaxationFactory()
    gs = [("factory", bf.construct, dp.construct, rx.construct, 1.0),
          ("standard_gates", standard_gates.bitflip, standard_gates.depolarizing, standard_gates.relaxation, 1.0)]
    sc = rng.choice([0.37, 2.5])
    sg = ScaledNoiseGates(noise_scaling=sc)
    gs.append((f"ScaledNoiseGates({sc})", sg.bitflip, sg.depolarizing, sg.relaxation, sc))
    n = 0
    for _ in range(reps):
        for name, fb, fd, fr, s in gs:
            # --- read-out bit flip
            tm = rng.choice([rng.uniform(0.3e-6, 6e-6), 35e-9, rng.uniform(1e-9, 30e-9)])
            rout = rng.choice([rng.uniform(1e-4, 0.2), 0.5, 1e-9, rng.uniform(0.2, 0.9)]) / max(s, 1.0)
            for z in (1.0, -0.7, 2.3):
                G, calls = with_draws(lambda: fb(tm, rout), [z])
                n += 1
                want = scipy.linalg.expm(1j * math.sqrt(rout * s) * z * X)
                if len(calls) != 1 or not np.abs(G - want).max() <= 1e-12:
                    bad.append(("bitflip", [name, tm, rout, z],
                                f"{name} bitflip(tm={tm!r}, rout={rout!r}) with the draw at {z} standard deviations: the sample differs from "
                                f"exp(i sqrt(rout) z X) by {np.abs(G - want).max():.3e} ({len(calls)} normal draw(s)) - the flip angle does not "
                                f"have the variance rout of the Lindblad operator sqrt(rout/tm) X acting for the time tm"))
                    break
            # --- idle depolarisation
            Dt = rng.choice([rng.uniform(0.5, 60) * TG, TG, rng.uniform(1e-3, 0.5) * TG])
            p = rng.uniform(1e-5, 5e-2)
            for zs in ([1.0, 0.0, 0.0], [0.0, 1.0, 0.0], [0.0, 0.0, 1.0], [0.4, -1.3, 0.8]):
                G, calls = with_draws(lambda: fd(Dt, p), zs)
                n += 1
                k = math.sqrt(p * s * Dt / (4 * TG))
                want = scipy.linalg.expm(1j * k * (zs[0] * X + zs[1] * Y + zs[2] * Z))
                if len(calls) != 3 or not np.abs(G - want).max() <= 1e-12:
                    bad.append(("depolarizing", [name, Dt, p, zs],
                                f"{name} depolarizing(Dt={Dt!r}, p={p!r}) with the three draws at {zs} standard deviations: the sample differs "
                                f"from exp(i sqrt(p Dt / 4 tg)(z1 X + z2 Y + z3 Z)) by {np.abs(G - want).max():.3e} ({len(calls)} normal draw(s))"))
                    break
            # --- idle relaxation: exact shot average by quadrature
            T1 = rng.uniform(5e-6, 300e-6) if rng.random() < 0.8 else 0.0
            T2 = (rng.uniform(0.2, 2.0) * T1) if T1 else rng.choice([0.0, rng.uniform(5e-6, 300e-6)])
            if rng.random() < 0.15:
                T2 = 0.0
            Dr = rng.uniform(1, 80) * TG
            rho = np.array([[0.3, 0.2 - 0.1j], [0.2 + 0.1j, 0.7]])
            acc = np.zeros((2, 2), complex)
            nodes, wts = _GH
            ncalls = None
            # the matrix is analytic in both draws: the amplitude draw enters linearly (second moment 1 is all that matters), so a
            # 3-point rule (-sqrt 3, 0, sqrt 3) is exact for it; 48 Gauss-Hermite nodes for the phase draw
            for zw, ww in zip(nodes, wts):
                for zi, wi in ((-math.sqrt(3), 1 / 6), (0.0, 2 / 3), (math.sqrt(3), 1 / 6)):
                    G, calls = with_draws(lambda: fr(Dr, T1, T2), [zw, zi])
                    ncalls = len(calls)
                    acc += (ww / math.sqrt(2 * math.pi)) * wi * (G @ rho @ G.conj().T)
            n += 1
            g1 = math.exp(-Dr * s / T1) if T1 else 1.0
            g2 = (math.exp(-Dr * s / T2) if T2 else (math.sqrt(g1))) if (T1 or T2) else 1.0
            if T2 and not T1:
                g2 = math.exp(-Dr * s / T2)
            want = np.array([[rho[0, 0] + (1 - g1) * rho[1, 1], g2 * rho[0, 1]], [g2 * rho[1, 0], g1 * rho[1, 1]]])
            dev = float(np.abs(acc - want).max())
            if ncalls != 2 or not dev <= 1e-10:
                bad.append(("relaxation", [name, Dr, T1, T2],
                            f"{name} relaxation(Dt={Dr!r}, T1={T1!r}, T2={T2!r}): the Gaussian shot average of G rho G^dag (quadrature over the "
                            f"{ncalls} draws, real function at every node) deviates from the T1/T2 channel (populations decay with exp(-Dt/T1), "
                            f"coherences with exp(-Dt/T2)) by {dev:.3e}"))
    return n, bad


def channel_mc(rng, n):
    """shot average of G rho G^dag for the idle relaxation gate vs the T1/T2 channel (Monte Carlo: a test, not a proof)"""
    import quantum_gates._gates.factories as F
    fac = F.RelaxationFactory()
    Dt, T1 = rng.uniform(20, 80) * TG, rng.uniform(3e-6, 9e-6)
    T2 = rng.uniform(0.4, 2.0) * T1
    rho = np.array([[0.3, 0.2 - 0.1j], [0.2 + 0.1j, 0.7]])
    np.random.seed(rng.randrange(2 ** 31))
    acc = np.zeros((2, 2), complex)
    for _ in range(n):
        G = fac.construct(Dt, T1, T2)
        acc += G @ rho @ G.conj().T
    acc /= n
    want = np.array([[rho[0, 0] + (1 - math.exp(-Dt / T1)) * rho[1, 1], math.exp(-Dt / T2) * rho[0, 1]],
                     [math.exp(-Dt / T2) * rho[1, 0], math.exp(-Dt / T1) * rho[1, 1]]])
    dev = float(np.abs(acc - want).max())
    tol = 6.0 / math.sqrt(n)
    return dev, tol, {"Dt": Dt, "T1": T1, "T2": T2}


def boundary_probe(rng, n):
    """the T1-limited boundary T2 = 2*T1 (included by the property): every gate must return finite matrices there and the
    dephasing generator must vanish (ep = 0)"""
    from quantum_gates._gates.gates import standard_gates
    bad = []
    for _ in range(n):
        T1 = rng.uniform(5e-6, 300e-6)
        T1b = rng.uniform(5e-6, 300e-6)
        calls = {"X": lambda: standard_gates.X(0.3, 1e-3, T1, 2 * T1),
                 "relaxation": lambda: standard_gates.relaxation(40 * TG, T1, 2 * T1),
                 "CR": lambda: standard_gates.CR(math.pi / 4, 0.2, 3 * TG, 0.02, T1, 2 * T1, T1b, 2 * T1b)}
        for g, f in calls.items():
            np.random.seed(1)
            with np.errstate(all="ignore"):
                G = np.array(f())
            if not np.isfinite(G).all():
                bad.append((g, T1, T1b))
        if bad:
            break
    return bad


def make(rng, kind):
    th = rng.choice([rng.uniform(-6, 6), math.pi, math.pi / 2, -math.pi / 4, math.pi / 4, 0.0, rng.uniform(-1e-3, 1e-3)])
    phi = rng.uniform(-6, 6)
    def pair():
        """(T1, T2) incl. the 'off' regimes: T1 = 0 with dephasing on, dephasing off, both off"""
        r = rng.random()
        t1 = rng.uniform(5e-6, 300e-6)
        if r < 0.2:
            return 0.0, rng.uniform(5e-6, 300e-6)
        if r < 0.27:
            return t1, 0.0
        if r < 0.3:
            return 0.0, 0.0
        return t1, rng.uniform(0.2, 1.999) * t1
    T1, T2 = pair()
    # the depolarising error is exactly 0 in one case out of five (then, with T1 = 0 as well, pure dephasing is the only noise left)
    if kind == "single":
        return [th, phi, 0.0 if rng.random() < 0.2 else rng.uniform(1e-5, 5e-2), T1, T2]
    T1t, T2t = pair()
    return [th, phi, rng.uniform(0.5, 8) * TG, 0.0 if rng.random() < 0.2 else rng.uniform(1e-3, 0.1), T1, T2, T1t, T2t]


def main(ctx):
    cov = ctx.coverage
    ir, fmeta, gmeta, tie_broken = gc.regenerate()
    lean = ctx.lean("QG.Props.C04") if tie_broken is None else None
    tv_n, tv_mism = gc.translation_validation(ctx, ir, n_per=2) if ir is not None else (0, [])
    rng = ctx.rng
    fails, nontrivial, hist = [], set(), {}
    pds = gc.pulse_descs(rng, ctx.thorough)
    reps = 4 if ctx.thorough else 1
    for pd in pds:
        for _ in range(reps):
            for kind, fn in (("single", case_single), ("cr", case_cr)):
                args = make(rng, kind)
                try:
                    bad = fn(pd, *args)
                except Exception as e:          # noqa
                    bad = [f"raised {type(e).__name__}: {e}"]
                ctx.count()
                nontrivial.add(core.sha([kind, pd, args]))
                hist[f"{kind}/{pd[0]}"] = hist.get(f"{kind}/{pd[0]}", 0) + 1
                if bad:
                    fails.append((kind, pd, args, bad))
    # designed: pure dephasing is the ONLY noise source (p = 0 and T1 = 0 with a finite T2) - nothing may be short-cut away
    for pd in pds[:2]:
        for kind, fn in (("single", case_single), ("cr", case_cr)):
            args = make(rng, kind)
            if kind == "single":
                args[2], args[3], args[4] = 0.0, 0.0, rng.uniform(5e-6, 300e-6)
            else:
                args[3], args[4], args[5], args[6], args[7] = 0.0, 0.0, rng.uniform(5e-6, 300e-6), 0.0, rng.uniform(5e-6, 300e-6)
            if args[0] == 0.0:
                args[0] = 0.8
            try:
                bad = fn(pd, *args)
            except Exception as e:              # noqa
                bad = [f"raised {type(e).__name__}: {e}"]
            ctx.count()
            hist[f"{kind}/dephasing-only"] = hist.get(f"{kind}/dephasing-only", 0) + 1
            if bad:
                fails.append((kind, pd, args, bad))
    # the same angle at two durations on one factory object (what the composite gates do with theta = pi/4 on couplings of
    # different gate time): the second sample must follow its own duration
    for pd in (pds if ctx.thorough else pds[:3]):
        base = make(rng, "cr")
        base[0] = math.pi / 4
        for f in (1.0, 2.3):
            args = list(base); args[2] = base[2] * f
            try:
                bad = case_cr(pd, *args)
            except Exception as e:              # noqa
                bad = [f"raised {type(e).__name__}: {e}"]
            ctx.count()
            hist[f"cr-sweep/{pd[0]}"] = hist.get(f"cr-sweep/{pd[0]}", 0) + 1
            if bad:
                first = list(base)
                fails.append(("cr-sweep", pd, [first, args], [b + " (same angle requested before at another duration on the same factory object)" for b in bad]))
    for gate, pd, args, bad in scaled_gate_set_cases(rng, pds if ctx.thorough else pds[:2], 2 if ctx.thorough else 1):
        fails.append(("scaled:" + gate, pd, args, bad))
    ctx.count(len(gc.GATE_ARGS) * (len(pds) * 2 if ctx.thorough else 2))
    bb = boundary_probe(rng, 200 if ctx.thorough else 60)
    ctx.count(200 if ctx.thorough else 60)
    for g, T1, T1b in bb[:1]:
        fails.append(("boundary", ["constant"], [g, T1, T1b],
                      [f"T1-limited boundary: standard_gates.{g} with T1={T1!r}, T2=2*T1 returns non-finite entries "
                       f"(rounding makes the radicand of the dephasing strength negative)"]))
    # a second request served by the same gate set while the first is inside its numerical integration (forced thread interleaving):
    # under stateless injected draws the first sample equals the sample taken alone
    from qgv import interleave as IL
    for _ in range(12 if ctx.thorough else 4):
        ka, kb = rng.choice(["single", "cr"]), rng.choice(["single", "cr"])
        A, B = make(rng, ka), make(rng, kb)
        if A[0] == 0.0:
            A[0] = 0.7
        ga, gb = ("single_qubit_gate" if ka == "single" else "CR"), ("single_qubit_gate" if kb == "single" else "CR")
        try:
            GA, Gref, fired, errB = IL.interleaved(ga, A, gb, B)
            dev = float(np.abs(GA - Gref).max()) if np.isfinite(Gref).all() else 0.0
            bad = None
            if errB:
                bad = f"the second request raised {errB}"
            elif not dev <= 1e-12:
                bad = (f"{ga}{tuple(A)} sampled while {gb}{tuple(B)} was served by the same gate set inside its integration differs from the "
                       f"same request served alone by {dev:.3e} (same injected draws): the sample depends on another request's arguments")
        except Exception as e:                  # noqa
            bad = f"raised {type(e).__name__}: {e}"
        ctx.count()
        hist["interleaved"] = hist.get("interleaved", 0) + 1
        if bad:
            fails.append(("interleaved", ["user-smooth-hooked"], [ga, A, gb, B], [bad]))
    n_ex, ex_bad = exact_sampler_cases(rng, 12 if ctx.thorough else 3)
    ctx.count(n_ex)
    hist["exact-samplers"] = n_ex
    for gate, args, text in ex_bad:
        fails.append(("exact:" + gate, ["none"], args, [text]))
    dev, tol, margs = channel_mc(rng, 60000 if ctx.thorough else 8000)
    ctx.count()
    cov["relaxation_channel_monte_carlo"] = {"label": "test (Monte Carlo), not a proof", "deviation": dev, "tolerance": tol, "args": margs}
    if not dev <= tol:
        fails.append(("channel", ["none"], [margs["Dt"], margs["T1"], margs["T2"]],
                      [f"shot average of G rho G^dag deviates from the T1/T2 channel by {dev:.3e} (> {tol:.3e})"]))
    ctx.sample({"kind": "cr", "pulse": pds[2], "args": make(rng, "cr")})
    cov["distinct_nontrivial"] = len(nontrivial)
    cov["rule"] = ("case = (elementary gate, pulse, theta, phi, noise parameters incl. the boundary T2 = 2 T1); per case every "
                   "generator (5 single-qubit / 10 CR) is rebuilt from one unit sample at a time with expm intercepted and compared with "
                   "U(t)^dag L U(t) on a 7-point time grid (1e-12), every covariance table with quadrature of f_i f_j (2e-6), the drift with "
                   "quadrature; all cases have random angles and phases, hence are non-trivial")
    cov["programs"] = 5
    cov["translation_validation_cases"] = tv_n
    cov["translation_validation_mismatches"] = len(tv_mism)
    cov["case_histogram"] = hist
    cov["trusted_base"] += [
        "translator (harness/qgv/{pyexpr,pymat}.py, harness/gen/factories*.py) incl. the rendering table; validated on every run",
        "the Ito isometry is used as the DEFINITION of the required covariance (no stochastic calculus is formalised); "
        "np.random.multivariate_normal realises the covariance it is handed; scipy.linalg.expm is the matrix exponential",
        "the integrator returns the pulse-shaped integrals (C12)"]
    ctx.assumptions += ["T2 <= 2 T1, T1, T2 > 0 (or 0 = off) for the dephasing strength to be real",
                        "generators, covariances and drifts are claimed for every pulse shape, for the single-qubit and the CR gate"]
    seen = set()
    for kind, pd, args, bad in fails:
        key = (kind, bad[0].split(":")[0])
        if key in seen:
            continue
        seen.add(key)
        ctx.violation({"kind": "lindblad", "gate": kind, "what": bad[0].split(":")[0][:60]},
                      {"gate": kind, "pulse": pd, "args": args, "failure": bad}, f"{kind} gate, pulse {pd}: {bad[0]}")
    if not fails:
        broken = tie_broken or (None if lean.ok else f"Lean obligations fail: {list(lean.failed.items())[:3]}") or \
            (f"translation validation: IR and implementation differ: {tv_mism[0]}" if tv_mism else None)
        if broken:
            ctx.violation({"kind": "tie"}, {"broken": broken}, broken + "; the numeric oracle found no failing input", no_failing_input=True)


def replay(ctx, path):
    rp = json.load(open(path))["replay"]
    if "gate" not in rp:
        print("replay names a broken obligation:", json.dumps(rp)[:400]); return 1
    if rp["gate"] == "boundary":
        from quantum_gates._gates.gates import standard_gates
        g, T1, T1b = rp["args"]
        np.random.seed(1)
        with np.errstate(all="ignore"):
            G = np.array({"X": lambda: standard_gates.X(0.3, 1e-3, T1, 2 * T1),
                          "relaxation": lambda: standard_gates.relaxation(40 * TG, T1, 2 * T1),
                          "CR": lambda: standard_gates.CR(math.pi / 4, 0.2, 3 * TG, 0.02, T1, 2 * T1, T1b, 2 * T1b)}[g]())
        print(g, "T1 =", T1, "T2 = 2*T1 ->", G)
        return 0 if np.isfinite(G).all() else 1
    if rp["gate"] == "channel":
        print("Monte-Carlo channel test: re-run the check"); return 1
    if rp["gate"] == "interleaved":
        from qgv import interleave as IL
        ga, A, gb, B = rp["args"]
        GA, Gref, fired, errB = IL.interleaved(ga, A, gb, B)
        dev = float(np.abs(GA - Gref).max())
        print(f"{ga}{tuple(A)} with {gb}{tuple(B)} served inside its integration (hook fired {fired}x, error {errB}): differs from the request alone by {dev:.3e}")
        return 1 if (errB or not dev <= 1e-12) else 0
    if rp["gate"].startswith("exact:"):
        print(rp["gate"], rp["args"]); print(rp["failure"][0][:600])
        import random
        for sd in range(40):
            n, bad = exact_sampler_cases(random.Random(sd), 1)
            hit = [b for b in bad if "exact:" + b[0] == rp["gate"]]
            if hit:
                print("oracle (re-run of the exact-sampler family, seed", sd, "):", hit[0][2][:400]); return 1
        print("oracle: holds on 40 re-runs of the exact-sampler family"); return 0
    if rp["gate"].startswith("scaled:"):
        print("scaled gate set case: re-run ./check C04 with the seed of the evidence file;", rp["failure"][:300]); return 1
    if rp["gate"] == "cr-sweep":                       # the earlier request on the same factory object first
        case_cr(rp["pulse"], *rp["args"][0])
        bad = case_cr(rp["pulse"], *rp["args"][1])
        print(rp["gate"], rp["pulse"], rp["args"]); print("oracle:", bad or "holds")
        return 1 if bad else 0
    bad = (case_single if rp["gate"] == "single" else case_cr)(rp["pulse"], *rp["args"])
    print(rp["gate"], rp["pulse"], rp["args"]); print("oracle:", bad or "holds")
    return 1 if bad else 0
