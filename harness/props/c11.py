"""C11 — running is pure: inputs are not modified and objects are reusable.

Lean: QG.Props.C11 about QG/Model/Reuse.lean (histories of build calls / statevector evaluations / reset() on one
object of each circuit class, on top of the state machines of QG/Model/Wiring.lean).
Tie: exact differential correspondence on random HISTORIES — the real circuit classes are driven call by call with a
recording gate set; after every operation (build call, statevector(), reset()) the real object's bookkeeping (counters,
phases, placements, the qubit lists of _info_gates_list as they stand in memory, the gate-set calls made) is compared
with the model's state, and a raised exception with the model's error value.
Oracle (independent of the model, on the real code):
  O1  statevector(psi0) twice gives bit-identical arrays and leaves psi0 bit-identical (every history, every class),
  O2  after reset(), replaying the rest of the history on a newly constructed object gives the same placements / calls
      (recording gate set) and the same statevector (noise-free gate set),
  O3  gates applied after an evaluation are included in the next one (classes without a fixed depth): build, evaluate,
      build, evaluate == build, build, evaluate on a new object,
  O4  MrAndersonSimulator.run leaves circuit, device parameters, psi0, layout list and the gate set (library gate sets and a
      gate set with visible state) untouched, and a second run with a deterministic gate set returns the identical dict.
"""
import contextlib, copy, io, json, hashlib
import numpy as np
from qgv import core, wiring as W

CLASSES = ["binary", "grid", "standard", "efficient", "one"]


# ------------------------------------------------------------------------------------------------ histories
def encode(tok):
    """token string -> tagged value (inverse of wiring.decode)"""
    name, rest = tok.split("[", 1)
    nums = [int(x.rstrip("]")) for x in rest.split("[")]
    if name == "dur":
        return nums[0] * W.DT
    if name in ("T1", "T2", "p", "rout", "tm"):
        return float(1000 * (["T1", "T2", "p", "rout", "tm"].index(name) + 1) + nums[0])
    base = 100000 if name == "p_int" else 200000
    return float(base + 1000 * nums[0] + nums[1])


def two_q_pars(c, t):
    return [f"t_int[{c}][{t}]", f"p_int[{c}][{t}]", f"p[{c}]", f"p[{t}]", f"T1[{c}]", f"T2[{c}]", f"T1[{t}]", f"T2[{t}]"]


def random_call(rng, cls, n, bad=0.03):
    """one build call of a circuit object; a small share is invalid (row out of range, non-adjacent pair on the grid)"""
    i = rng.randrange(n)
    if rng.random() < bad:
        i = n + rng.randrange(2)
    r = rng.random()
    lab = rng.randrange(8)                       # physical label the tokens refer to (arbitrary: the object just forwards)
    if r < 0.22:
        return ["Rz", i, rng.randint(-200, 200)]
    if r < 0.36:
        return ["I", i]
    if r < 0.48:
        return ["X", i, [f"p[{lab}]", f"T1[{lab}]", f"T2[{lab}]"]]
    if r < 0.60:
        return ["SX", i, [f"p[{lab}]", f"T1[{lab}]", f"T2[{lab}]"]]
    if r < 0.68:
        return ["relaxation", i, [f"dur[{rng.randint(1, 900)}]", f"T1[{lab}]", f"T2[{lab}]"]]
    if r < 0.74:
        return ["bitflip", i, [f"tm[{lab}]", f"rout[{lab}]"]]
    if n < 2:
        return ["Rz", i, rng.randint(-200, 200)]
    if cls == "binary" or rng.random() < bad:
        k = rng.choice([x for x in range(n + (1 if rng.random() < bad else 0)) if x != i])
    else:
        k = i + 1 if i + 1 < n and (i == 0 or rng.random() < 0.5) else i - 1
        if k < 0:
            k = i + 1
    lab2 = (lab + 1 + rng.randrange(7)) % 8
    return [rng.choice(["CNOT", "ECR"]), i, k, two_q_pars(lab, lab2)]


def random_history(rng, cls, n, length):
    h = []
    for _ in range(length):
        r = rng.random()
        if r < 0.12:
            h.append("eval")
        elif r < 0.19:
            h.append("reset")
        else:
            h.append(random_call(rng, cls, n))
    return h


def do_call(circ, c):
    name = c[0]
    if name == "Rz":
        circ.Rz(c[1], c[2] * W.UNIT)
    elif name == "I":
        circ.I(c[1])
    elif name in ("X", "SX", "relaxation", "bitflip"):
        getattr(circ, name)(c[1], *[encode(t) for t in c[2]])
    else:
        getattr(circ, name)(c[1], c[2], *[encode(t) for t in c[3]])


def snapshot(circ, base):
    """canonical state of the real object, in the shape of the driver's answers. `base` = number of recorded gate-set calls
    when the object was (re)constructed: the model numbers calls per object."""
    st = W.state_of(circ)
    calls = W.RecGates.calls[base:]

    def tok(e):
        return e - base if isinstance(e, int) else e
    if st["kind"] == "binary":
        items, k = [], 0
        # the index-based model numbers the calls of the items currently registered
        for g, qs in circ._info_gates_list:
            e = W.entry(g)
            qs = [int(x) for x in qs]
            if isinstance(e, int):
                items.append({"call": W.RecGates.calls[e], "qs": qs})
            else:
                items.append({"call": e, "qs": qs})
        return {"kind": "binary", "phi": st["phi"], "items": items}
    if st["kind"] == "layered":
        return {"kind": "layered", "s": st["s"], "phi": st["phi"], "mp": [tok(e) for e in st["mp"]],
                "mp_list": [[tok(e) for e in l] for l in st["mp_list"]], "calls": calls}
    return {"kind": "grid", "j": st["j"], "s": st["s"], "phi": st["phi"], "grid": [[tok(e) for e in r] for r in st["grid"]], "calls": calls}


def model_snapshot(m):
    """driver answer -> same canonical shape"""
    if m["kind"] == "binary":
        items = []
        for (k, i, j), ql in zip(m["items"], m["qls"]):
            items.append({"call": m["calls"][k] if isinstance(k, int) else k, "qs": ql})
        return {"kind": "binary", "phi": m["phi"], "items": items}
    return m


def resolved(s):
    """snapshot with tokens replaced by the calls that produced them (comparable between different objects)"""
    if s["kind"] == "binary":
        return s

    def r(e):
        return json.dumps(s["calls"][e], sort_keys=True) if isinstance(e, int) else e
    out = {k: v for k, v in s.items() if k != "calls"}
    if s["kind"] == "layered":
        out["mp"] = [r(e) for e in s["mp"]]
        out["mp_list"] = [[r(e) for e in l] for l in s["mp_list"]]
    else:
        out["grid"] = [[r(e) for e in row] for row in s["grid"]]
    return out


def new_object(cls, n, depth):
    return W.circuit_class(cls)(n, depth, W.RecGates())


def run_history(cls, n, depth, hist, psi0):
    """drive a real object; returns (snapshots after every op, raised error name or None, oracle failures)"""
    W.RecGates.clear()
    circ = new_object(cls, n, depth)
    base = 0
    snaps, fails, raised = [], [], None
    keep = psi0.copy()
    for pos, op in enumerate(hist):
        try:
            if op == "eval":
                before = snapshot(circ, base)
                try:
                    with contextlib.redirect_stdout(io.StringIO()):
                        r1 = circ.statevector(psi0)
                        r1 = np.array(r1, copy=True)
                        r2 = circ.statevector(psi0)
                except Exception:                       # noqa: evaluation of an incomplete grid etc. may raise; the state must still be untouched
                    r1 = r2 = None
                if r1 is not None and not (r1.shape == r2.shape and r1.tobytes() == np.asarray(r2).tobytes()):
                    fails.append(f"statevector() called twice in a row gives different arrays (op {pos})")
                if psi0.tobytes() != keep.tobytes():
                    fails.append(f"statevector() modified the initial state it was given (op {pos})")
                    psi0[:] = keep
            elif op == "reset":
                circ.reset()
                # model: the grid / layered states keep the call log across reset (numbering continues)
            else:
                do_call(circ, op)
        except (IndexError, ValueError, AssertionError) as e:
            raised = type(e).__name__
            break
        snaps.append(snapshot(circ, base))
    return snaps, raised, fails, circ


def fresh_suffix_check(cls, n, depth, hist, final_snap):
    """O2: the part of the history after the last reset, replayed on a NEW object, must leave the same resolved state"""
    if "reset" not in hist:
        return None
    last = len(hist) - 1 - hist[::-1].index("reset")
    suffix = hist[last + 1:]
    W.RecGates.clear()
    circ = new_object(cls, n, depth)
    psi0 = np.eye(1, 2 ** n)[0].astype(complex)
    for op in suffix:
        if op == "eval":
            try:
                with contextlib.redirect_stdout(io.StringIO()):
                    circ.statevector(psi0)
            except Exception:                           # noqa
                pass
        else:
            do_call(circ, op)
    a, b = resolved(final_snap), resolved(snapshot(circ, 0))
    if a != b:
        key = next(k for k in a if a[k] != b.get(k))
        return (f"after reset() the object does not behave like a newly constructed one: field {key} is {str(a[key])[:100]} "
                f"but a new object given the same {len(suffix)} operations has {str(b[key])[:100]}")
    return None


# ------------------------------------------------------------------------------------------------ numeric oracles
def fingerprint(obj, depth=0, skip_cache=True):
    """structural fingerprint of an input object (bit-exact for arrays and floats)"""
    if depth > 8:
        return "..."
    if isinstance(obj, np.ndarray):
        return ("nd", str(obj.dtype), obj.shape, hashlib.sha1(np.ascontiguousarray(obj).tobytes()).hexdigest())
    if isinstance(obj, (bool, int, str, type(None))):
        return obj
    if isinstance(obj, float):
        return ("f", obj.hex())
    if isinstance(obj, complex):
        return ("c", obj.real.hex(), obj.imag.hex())
    if isinstance(obj, (np.floating, np.integer, np.complexfloating)):
        return ("np", str(obj.dtype), obj.tobytes().hex())
    if isinstance(obj, (list, tuple)):
        return (type(obj).__name__, [fingerprint(x, depth + 1, skip_cache) for x in obj])
    if isinstance(obj, dict):
        return ("dict", [(repr(k), fingerprint(v, depth + 1, skip_cache)) for k, v in obj.items()])
    if callable(obj) and not hasattr(obj, "__dict__"):
        return ("callable", getattr(obj, "__qualname__", repr(type(obj))))
    if hasattr(obj, "__dict__"):
        return (type(obj).__name__, [(k, fingerprint(v, depth + 1, skip_cache)) for k, v in sorted(vars(obj).items())
                                      if not (skip_cache and "cache" in k.lower())])
    return ("obj", type(obj).__name__)


def circuit_fingerprint(qc):
    return [(ins.operation.name, [float(p) for p in ins.operation.params], [q._index for q in ins.qubits],
             [c._index for c in ins.clbits], getattr(ins.operation, "duration", None)) for ins in qc.data]


def numeric_params(rng, maxlabel):
    n = maxlabel + 1
    return {"T1": np.array([rng.uniform(40e-6, 200e-6) for _ in range(n)]), "T2": np.array([rng.uniform(20e-6, 70e-6) for _ in range(n)]),
            "p": np.array([rng.uniform(1e-4, 1e-3) for _ in range(n)]), "rout": np.array([rng.uniform(1e-3, 3e-2) for _ in range(n)]),
            "tm": np.array([rng.uniform(1e-6, 5e-6) for _ in range(n)]),
            "p_int": np.array([[rng.uniform(5e-3, 2e-2) for _ in range(n)] for _ in range(n)]),
            "t_int": np.array([[rng.uniform(2e-7, 6e-7) for _ in range(n)] for _ in range(n)]), "dt": [2.2e-10], "metadata": {"x": 1}}


class CountingGates:
    """a deterministic gate set with visible state: counts the calls made on *this* object"""
    def __init__(self):
        from quantum_gates._gates.gates import NoiseFreeGates
        self.inner = NoiseFreeGates()
        self.n_calls = 0
        self.log = []

    def __getattr__(self, name):
        if name in ("inner", "n_calls", "log"):
            raise AttributeError(name)
        f = getattr(self.inner, name)

        def g(*a, **k):
            self.n_calls += 1
            self.log.append(name)
            return f(*a, **k)
        return g


def run_purity_case(rng, cls, n, gates_kind):
    """O4 on one random circuit; returns (ops, failures)"""
    import quantum_gates._simulation.simulator as S
    from quantum_gates._gates.gates import NoiseFreeGates, Gates, ScaledNoiseGates
    ops, labels = W.random_ops(rng, cls, n, rng.randint(2, 10))
    nlabels = max(labels) + 1
    ncl = max([op[2] for op in ops if op[0] == "measure"], default=0) + 1
    qc = W.build_qiskit(ops, nlabels, ncl)
    gates = {"noise_free": NoiseFreeGates, "counting": CountingGates, "noisy": Gates,
             "scaled": lambda: ScaledNoiseGates(noise_scaling=0.5)}[gates_kind]()
    dp = numeric_params(rng, nlabels - 1)
    if gates_kind in ("noise_free", "counting") and rng.random() < 0.6:
        # calibration tables with exact zeros (e.g. two-qubit values filled for the native direction only): still only read
        dp = W.numeric_params_with_zeros(rng, nlabels - 1)
    psi0 = np.array([rng.gauss(0, 1) + 1j * rng.gauss(0, 1) for _ in range(2 ** n)])
    psi0 /= np.linalg.norm(psi0)
    layout = list(range(nlabels))
    if cls == "binary":
        rng.shuffle(layout)                     # an unsorted layout list: the run must not sort the caller's list in place
    before = {"circuit": circuit_fingerprint(qc), "device_param": fingerprint(dp), "psi0": fingerprint(psi0),
              "qubits_layout": fingerprint(layout), "gate set": fingerprint(gates)}
    sim = S.MrAndersonSimulator(gates=gates, CircuitClass=W.circuit_class(cls), parallel=False)
    fails, results = [], []
    for rep in range(2):
        np.random.seed(12345)
        try:
            with contextlib.redirect_stdout(io.StringIO()):
                res = sim.run(t_qiskit_circ=qc, qubits_layout=layout, psi0=psi0, shots=2, device_param=dp, nqubit=n)
        except Exception as e:                  # noqa
            return ops, [f"valid run raised {type(e).__name__}: {str(e)[:120]}"] if rep == 0 else \
                [f"the second run of the same simulator on the same inputs raised {type(e).__name__}: {str(e)[:120]} (the first succeeded)"]
        results.append(res)
        after = {"circuit": circuit_fingerprint(qc), "device_param": fingerprint(dp), "psi0": fingerprint(psi0),
                 "qubits_layout": fingerprint(layout), "gate set": fingerprint(gates)}
        for k in before:
            if before[k] != after[k]:
                fails.append(f"run #{rep + 1} modified the {k} it was given")
        if fails:
            return ops, fails
    a, b = results
    if set(a) != set(b) or any(float(a[k]).hex() != float(b[k]).hex() for k in a):
        what = "a deterministic gate set" if gates_kind in ("noise_free", "counting") else "the same numpy seed"
        fails.append(f"repeating the run with {what} gives a different result: {dict(list(a.items())[:3])} vs {dict(list(b.items())[:3])}")
    if fails:
        return ops, fails
    # the simulator object is reusable: it now serves another circuit of the SAME sizes (same gates, same number of measured qubits)
    # that reads out other qubits / the same qubits in another order - the result is that of a new simulator on that circuit
    body = [op for op in ops if op[0] != "measure"]
    meas = [op for op in ops if op[0] == "measure"]
    others = [q for q in labels if q not in [m[1] for m in meas]]
    new_q = [m[1] for m in meas]
    if len(new_q) > 1:
        new_q = new_q[1:] + new_q[:1]
    if others:
        new_q[0] = rng.choice(others)
    if new_q != [m[1] for m in meas]:
        ops2 = body + [["measure", q, m[2]] for q, m in zip(new_q, meas)]
        qc2 = W.build_qiskit(ops2, nlabels, ncl)
        out2 = []
        for s2 in (sim, S.MrAndersonSimulator(gates=gates, CircuitClass=W.circuit_class(cls), parallel=False)):
            np.random.seed(12345)
            try:
                with contextlib.redirect_stdout(io.StringIO()):
                    out2.append(s2.run(t_qiskit_circ=qc2, qubits_layout=layout, psi0=psi0, shots=2, device_param=dp, nqubit=n))
            except Exception as e:              # noqa
                return ops2, [f"the used simulator object raised {type(e).__name__} on a second circuit of the same sizes: {str(e)[:100]}"]
        c, d = out2
        if set(c) != set(d) or any(abs(float(c[k]) - float(d[k])) > 1e-12 for k in c):
            return ops2, [f"the simulator object is not reusable: after a run it serves a second circuit of the same sizes measuring {new_q} "
                          f"instead of {[m[1] for m in meas]} and returns {dict(list(c.items())[:4])}; a new simulator returns {dict(list(d.items())[:4])}"]
    return ops, fails


def direct_eval_case(rng, cls, n):
    """a circuit object built directly (no simulator) with the noise-free gate set, at least two gate times, evaluated with a
    contiguous complex128 initial state: the state array is untouched (bytes), the result is another array, and a second
    evaluation returns the same vector.  n up to 9 (the high-qubit regimes of the backends).  Returns failure text or None."""
    from quantum_gates._gates.gates import NoiseFreeGates
    circ = W.circuit_class(cls)(n, 6, NoiseFreeGates())
    for layer in range(rng.randint(2, 3)):
        for q in range(n):
            (circ.X if rng.random() < 0.5 else circ.SX)(q, 0.0, 0.0, 0.0)
    psi0 = np.ascontiguousarray(np.array([rng.gauss(0, 1) + 1j * rng.gauss(0, 1) for _ in range(2 ** n)], dtype=np.complex128))
    keep = psi0.copy()
    try:
        with contextlib.redirect_stdout(io.StringIO()):
            r1 = circ.statevector(psi0)
            same_obj = r1 is psi0
            r1 = np.array(r1, copy=True)
            r2 = np.array(circ.statevector(psi0), copy=True)
    except Exception as e:                      # noqa
        return f"{cls} circuit on {n} qubits built directly: statevector raised {type(e).__name__}: {str(e)[:100]}"
    if psi0.tobytes() != keep.tobytes():
        return f"{cls} circuit on {n} qubits built directly (complex128 contiguous psi0): statevector() modified the initial state it was given"
    if same_obj:
        return f"{cls} circuit on {n} qubits built directly: statevector() returned the caller's psi0 array itself"
    if r1.tobytes() != r2.tobytes():
        return f"{cls} circuit on {n} qubits built directly: statevector() called twice in a row gives different arrays"
    return None


def reuse_numeric_case(rng, cls, n):
    """O2 / O3 / O1 with the noise-free gate set on circuits built by the real simulator front end"""
    import quantum_gates._simulation.simulator as S
    from quantum_gates._gates.gates import NoiseFreeGates
    ops, labels = W.random_ops(rng, cls, n, rng.randint(2, 10))
    nlabels = max(labels) + 1
    ncl = max([op[2] for op in ops if op[0] == "measure"], default=0) + 1
    qc = W.build_qiskit(ops, nlabels, ncl)
    dp = numeric_params(rng, nlabels - 1)
    psi0 = np.array([rng.gauss(0, 1) + 1j * rng.gauss(0, 1) for _ in range(2 ** n)])
    psi0 /= np.linalg.norm(psi0)
    fails = []
    orig = S._single_shot

    def same(a, b):
        return a.shape == b.shape and np.allclose(a, b, rtol=0, atol=1e-12)

    def shot(args):
        circ, data, dpar, lay, p0 = args["circ"], args["data"], args["device_param"], args["qubit_layout"], args["psi0"]
        keep = p0.copy()
        mk = lambda: type(circ)(circ.nqubit, getattr(circ, "depth", 0), NoiseFreeGates())   # noqa
        build = lambda c: S._apply_gates_on_circuit(data, c, dpar, lay)                        # noqa
        build(circ)
        r1 = np.array(circ.statevector(p0), copy=True)
        r2 = np.array(circ.statevector(p0), copy=True)
        if r1.tobytes() != r2.tobytes():
            fails.append("statevector() called twice in a row gives different arrays")
        if p0.tobytes() != keep.tobytes():
            fails.append("statevector() modified the initial state it was given")
        fixed_depth = type(circ).__name__ == "Circuit"
        if not fixed_depth:
            build(circ)                                     # gates applied after an evaluation ...
            r3 = np.array(circ.statevector(p0), copy=True)
            other = mk(); build(other); build(other)
            r4 = np.array(other.statevector(p0), copy=True)
            if not same(r3, r4):
                fails.append("gates applied after an evaluation are not (all) included in the next evaluation: build, evaluate, build, "
                             f"evaluate differs from build, build, evaluate on a new object by {np.max(np.abs(r3 - r4)):.3e}")
        circ.reset()
        build(circ)
        r5 = np.array(circ.statevector(p0), copy=True)
        if not same(r5, r1):
            fails.append(f"after reset() and the same build calls the statevector differs from the first one by {np.max(np.abs(r5 - r1)):.3e}")
        fresh = mk(); build(fresh)
        r6 = np.array(fresh.statevector(p0), copy=True)
        if not same(r6, r1):
            fails.append("a second object of the same class given the same calls evaluates differently")
        return np.square(np.absolute(r1))
    S._single_shot = shot
    try:
        with contextlib.redirect_stdout(io.StringIO()):
            sim = S.MrAndersonSimulator(gates=NoiseFreeGates(), CircuitClass=W.circuit_class(cls), parallel=False)
            sim.run(t_qiskit_circ=qc, qubits_layout=list(range(nlabels)), psi0=psi0, shots=1, device_param=dp, nqubit=n)
    except Exception as e:                      # noqa
        fails.append(f"valid reuse sequence raised {type(e).__name__}: {str(e)[:160]}")
    finally:
        S._single_shot = orig
    return ops, fails


# ------------------------------------------------------------------------------------------------ check
def classify(t):
    for key, kind in [("modified the initial state", "psi0-modified"), ("twice in a row", "eval-not-repeatable"),
                      ("after reset()", "reset-not-new"), ("after an evaluation", "post-eval-gates-dropped"),
                      ("modified the", "run-modifies-input"), ("repeating the run", "rerun-differs"), ("second run", "rerun-raises")]:
        if key in t:
            return {"kind": kind}
    return {"kind": "reuse", "what": t[:40]}


CORPUS = [("binary", 2, 1, [["X", 0, ["p[0]", "T1[0]", "T2[0]"]], "eval", ["CNOT", 1, 0, two_q_pars(3, 1)], "eval", "reset",
                            ["Rz", 1, 7], ["SX", 1, ["p[1]", "T1[1]", "T2[1]"]], "eval"]),
          ("efficient", 2, 1, [["X", 0, ["p[0]", "T1[0]", "T2[0]"]], ["I", 1], "eval", ["Rz", 0, 9], "reset", ["SX", 0, ["p[0]", "T1[0]", "T2[0]"]],
                               ["I", 1], "eval"]),
          ("grid", 2, 2, [["Rz", 1, 5], ["CNOT", 0, 1, two_q_pars(0, 1)], "eval", "reset", ["I", 0], ["X", 1, ["p[1]", "T1[1]", "T2[1]"]],
                          ["ECR", 1, 0, two_q_pars(1, 0)], "eval"]),
          ("standard", 3, 1, [["X", 0, ["p[0]", "T1[0]", "T2[0]"]], "reset", ["X", 1, ["p[0]", "T1[0]", "T2[0]"]], ["I", 0], ["I", 2], "eval"])]


def history_cases(ctx):
    rng = ctx.rng
    out = list(CORPUS)
    for cls in CLASSES:
        for _ in range(150 if ctx.thorough else 30):
            n = rng.randint(1, 4)
            depth = rng.randint(1, 4)
            out.append((cls, n, depth, random_history(rng, cls, n, rng.randint(1, 22 if ctx.thorough else 14))))
    return out


def main(ctx):
    cov = ctx.coverage
    # the run-level theorems are about the shot-argument table regenerated from simulator.py (shared with C10)
    tie_broken = None
    try:
        from gen import determinism
        determinism.generate()
    except Exception as e:                      # noqa  (pyexpr.Unsupported etc.: the translator fails closed)
        tie_broken = f"translator (harness/gen/determinism.py) fails closed on simulator.py / gates: {type(e).__name__}: {str(e)[:160]}"
    lean = ctx.lean("QG.Props.C11")
    cs = history_cases(ctx)
    reqs = []
    for cls, n, depth, hist in cs:
        script = []
        for op in hist:
            script += [op, "snap"]
        reqs.append({"op": "hist", "cls": W.model_cls(cls), "n": n, "depth": depth, "script": script})
    models = core.Driver("C11").batch(reqs)
    fails, mism, nontrivial, hist_count = [], [], set(), {}
    for (cls, n, depth, hist), m in zip(cs, models):
        ctx.count()
        psi0 = np.eye(1, 2 ** n)[0].astype(complex)
        snaps, raised, bad, circ = run_history(cls, n, depth, hist, psi0)
        for k in ("eval", "reset"):
            hist_count[k] = hist_count.get(k, 0) + hist.count(k)
        hist_count[cls] = hist_count.get(cls, 0) + 1
        hist_count["raised:" + str(raised)] = hist_count.get("raised:" + str(raised), 0) + 1
        calls_after = [i for i, op in enumerate(hist) if op in ("eval", "reset") and any(isinstance(x, list) and x[0] != "Rz" for x in hist[i + 1:])]
        if calls_after and any(isinstance(x, list) and x[0] != "Rz" for x in hist[:calls_after[0]]):
            nontrivial.add(core.sha([cls, n, depth, hist]))
        if raised is None and snaps:
            b2 = fresh_suffix_check(cls, n, depth, hist, snaps[-1])
            if b2:
                bad.append(b2)
        for b in bad:
            fails.append((cls, n, depth, hist, b))
        if "bad" in m:
            mism.append((cls, n, depth, hist, [f"driver rejected the request: {m['bad']}"]))
            continue
        msn = [model_snapshot(x) for x in m["snaps"]]
        mr = m.get("raised", {}).get("err")
        d = []
        if mr != raised:
            d.append(f"outcome: impl {raised or 'ok'} vs model {mr or 'ok'} after {len(snaps)} operations")
        for k, (a, b) in enumerate(zip(snaps, msn)):
            if a != b:
                key = next(x for x in a if a[x] != b.get(x))
                d.append(f"after operation {k} ({json.dumps(hist[k])[:60]}) field {key}: impl {str(a[key])[:140]} vs model {str(b.get(key))[:140]}")
                break
        if not d and len(snaps) != len(msn):
            d.append(f"{len(snaps)} snapshots vs model {len(msn)}")
        if d:
            mism.append((cls, n, depth, hist, d))
    # circuit objects built directly on 7..9 qubits (high-qubit regimes of the backends)
    for cls in ("standard", "efficient", "one", "binary"):
        for nn in ((7, 8, 9) if ctx.thorough else (8,)):
            b = direct_eval_case(ctx.rng, cls, nn); ctx.count()
            if b:
                fails.append((cls, nn, None, ["direct evaluation"], b))
    # numeric oracles on the real pipeline
    numeric = 0
    for cls in CLASSES:
        for _ in range(8 if ctx.thorough else 2):
            ops, bad = reuse_numeric_case(ctx.rng, cls, ctx.rng.randint(1, 4)); ctx.count(); numeric += 1
            for b in bad:
                fails.append((cls, None, None, ops, b))
        kinds = ["noise_free", "counting", "noisy", "scaled"] if ctx.thorough else ["counting", ctx.rng.choice(["noise_free", "noisy", "scaled"])]
        for gk in kinds:
            for _ in range(3 if ctx.thorough else 1):
                ops, bad = run_purity_case(ctx.rng, cls, ctx.rng.randint(1, 3), gk); ctx.count(); numeric += 1
                hist_count["run:" + gk] = hist_count.get("run:" + gk, 0) + 1
                for b in bad:
                    fails.append((cls, None, gk, ops, b))
    ctx.sample({"cls": cs[-1][0], "n": cs[-1][1], "depth": cs[-1][2], "history": cs[-1][3][:6]})
    cov["distinct_nontrivial"] = len(nontrivial)
    cov["rule"] = ("case = (circuit class, nqubit, depth, history of build calls / 'eval' / 'reset'), all five classes, 1-4 qubits, about 3% "
                   "invalid calls (row out of range, non-adjacent pair); non-trivial = distinct history with a matrix-placing call before "
                   "and after an evaluation or reset; plus numeric reuse sequences and repeated simulator runs on random circuits")
    cov["traces_validated_against_impl"] = len(cs)
    cov["correspondence_mismatches"] = len(mism)
    cov["numeric_reuse_and_run_cases"] = numeric
    cov["branch_histogram"] = hist_count
    cov["trusted_base"] += [
        "hand-written models QG/Model/Wiring.lean + QG/Model/Reuse.lean, tied by exact differential correspondence after every operation "
        "of every history of this run (real circuit classes driven directly, recording gate set)",
        "run-level purity: theorems about the shot loop of QG.Model.IntegratorCache with the shot-argument table regenerated from "
        "simulator.py (harness/gen/determinism.py, shared with C10); writes to the caller's objects outside the shot dict are decided by the "
        "bit-exact before/after comparison of the real inputs (oracle O4) on the circuits of this run"]
    ctx.assumptions += ["row indices are non-negative (Python's negative indexing is not modelled)",
                        "gate-set fingerprints skip attributes whose name contains 'cache' (memoisation is not a modification a user can observe); "
                        "a gate set with visible state (call counter) is compared in full"]
    seen = set()
    for cls, n, depth, hist, b in fails:
        sig = dict(classify(b), cls=cls)
        k = json.dumps(sig, sort_keys=True)
        if k in seen:
            continue
        seen.add(k)
        ctx.violation(sig, {"cls": cls, "n": n, "depth": depth, "history_or_ops": hist, "failure": b}, f"{cls}: {b}")
    if not fails:
        if mism:
            cls, n, depth, hist, d = mism[0]
            ctx.violation({"kind": "correspondence"}, {"cls": cls, "n": n, "depth": depth, "history_or_ops": hist, "diff": d,
                          "broken": "correspondence real circuit classes vs QG.Model.Reuse"},
                          f"model and implementation disagree ({d[0]}) although the oracles pass on every case", no_failing_input=True)
        if tie_broken:
            ctx.violation({"kind": "tie"}, {"broken": tie_broken}, tie_broken + "; the oracles pass on every case", no_failing_input=True)
        elif not lean.ok:
            ctx.violation({"kind": "proof"}, {"broken": lean.failed}, "Lean obligations of C11 do not check; the oracles pass on every case",
                          no_failing_input=True)


def replay(ctx, path):
    rp = json.load(open(path))["replay"]
    if rp.get("n") is None:
        print("replay of a numeric / run case: re-run ./check C11 with the seed in the evidence file;", json.dumps(rp)[:400]); return 1
    psi0 = np.eye(1, 2 ** rp["n"])[0].astype(complex)
    snaps, raised, bad, _ = run_history(rp["cls"], rp["n"], rp["depth"], rp["history_or_ops"], psi0)
    if raised is None and snaps:
        b2 = fresh_suffix_check(rp["cls"], rp["n"], rp["depth"], rp["history_or_ops"], snaps[-1])
        if b2:
            bad.append(b2)
    print(rp["cls"], rp["history_or_ops"]); print("oracle:", bad or "holds")
    return 1 if bad else 0
